//! C07 — process image.  Four kinds of generated cases, all run against the REAL code:
//!
//! * `raw`  : streams of `IoInterface::{read, write}` on a fresh interface (addresses produced by
//!            `IoAddress::parse` from rendered text where the text form exists, hand-built otherwise:
//!            wildcard, bit > 7), full images compared after every write;
//! * `bind` : `IoInterface::{read_inputs, write_outputs}` over generated binding lists (typed and
//!            untyped, names and references, sizes that do not fit the type, dangling targets) and a
//!            `VariableStorage` holding values of right and wrong kinds;
//! * `pa`   : `read_partial_access` / `write_partial_access`;
//! * `rt`   : CONFIGURATION sources with AT-bound globals and program variables (all sizes, the three
//!            areas, overlapping and adjacent addresses), several tasks plus background programs,
//!            compiled by the real compiler and cycled with 1–3 logging `IoDriver`s registered through
//!            `Runtime::add_io_driver` whose inputs change on every call and which may fail; faults
//!            are injected by division by zero; with a debugger attached, queued I/O writes and forced
//!            I/O are exercised as well.
//!
//! Witness cases for the recorded findings (repaired and open) are appended after the generated cases
//! (`tag finding-…`): they are replayed on every run.

use std::sync::{Arc, Mutex};

use crate::rng::Rng;
use crate::util::{hex, join, Out};
use crate::Args;
use trust_hir::TypeId;
use trust_runtime::debug::{DebugControl, RuntimeEvent};
use trust_runtime::error::RuntimeError;
use trust_runtime::harness::TestHarness;
use trust_runtime::io::{IoAddress, IoDriver, IoInterface, IoSize, IoTarget};
use trust_runtime::memory::{InstanceId, IoArea, MemoryLocation, VariableStorage};
use trust_runtime::value::{
    read_partial_access, write_partial_access, DateTimeValue, DateValue, Duration, EnumValue, LDateTimeValue,
    LDateValue, LTimeOfDayValue, PartialAccess, PartialAccessError, RefSegment, TimeOfDayValue, Value, ValueRef,
};

// ------------------------------------------------------------------------------------------------
// tokens shared with the Lean driver
// ------------------------------------------------------------------------------------------------

#[derive(Clone, Copy, Debug, PartialEq, Eq)]
enum Ar {
    I,
    Q,
    M,
}

#[derive(Clone, Copy, Debug, PartialEq, Eq)]
enum Sz {
    X,
    B,
    W,
    D,
    L,
}

impl Sz {
    fn bytes(self) -> u32 {
        match self {
            Sz::X | Sz::B => 1,
            Sz::W => 2,
            Sz::D => 4,
            Sz::L => 8,
        }
    }
}

#[derive(Clone, Debug, PartialEq, Eq)]
struct Ad {
    area: Ar,
    size: Sz,
    byte: u32,
    bit: u8,
    path: Vec<u32>,
    wild: bool,
}

impl Ad {
    fn flat(area: Ar, size: Sz, byte: u32, bit: u8) -> Ad {
        Ad {
            area,
            size,
            byte,
            bit,
            path: vec![byte],
            wild: false,
        }
    }
    fn tok(&self) -> String {
        format!(
            "{:?}{:?}:{}:{}:{}:{}",
            self.area,
            self.size,
            self.byte,
            self.bit,
            if self.path.is_empty() {
                "-".to_string()
            } else {
                join(self.path.iter(), ".")
            },
            u8::from(self.wild)
        )
    }
    /// The IEC text of the address when it has one that parses back to exactly this address.
    fn text(&self) -> Option<String> {
        if self.wild || self.path.is_empty() || self.path[0] != self.byte {
            return None;
        }
        let path = join(self.path.iter(), ".");
        match self.size {
            Sz::X => (self.bit <= 7).then(|| format!("%{:?}X{}.{}", self.area, path, self.bit)),
            _ => (self.bit == 0).then(|| format!("%{:?}{:?}{}", self.area, self.size, path)),
        }
    }
    fn build(&self) -> IoAddress {
        IoAddress {
            area: match self.area {
                Ar::I => IoArea::Input,
                Ar::Q => IoArea::Output,
                Ar::M => IoArea::Memory,
            },
            size: match self.size {
                Sz::X => IoSize::Bit,
                Sz::B => IoSize::Byte,
                Sz::W => IoSize::Word,
                Sz::D => IoSize::DWord,
                Sz::L => IoSize::LWord,
            },
            byte: self.byte,
            bit: self.bit,
            path: self.path.clone(),
            wildcard: self.wild,
        }
    }
    /// The real address: through `IoAddress::parse` whenever the address has a text form (so the
    /// parser is part of what is compared), hand-built otherwise.
    fn real(&self, out: &mut Out) -> IoAddress {
        if let Some(text) = self.text() {
            match IoAddress::parse(&text) {
                Ok(parsed) => {
                    out.count("addr_parsed");
                    return parsed;
                }
                Err(_) => {
                    // a refusal is an observable: fall through to a marker address that cannot
                    // agree with the model
                    out.count("addr_parse_refused");
                    let mut a = self.build();
                    a.wildcard = true;
                    return a;
                }
            }
        }
        out.count("addr_built");
        self.build()
    }
}

fn from_io_address(a: &IoAddress) -> Ad {
    Ad {
        area: match a.area {
            IoArea::Input => Ar::I,
            IoArea::Output => Ar::Q,
            IoArea::Memory => Ar::M,
        },
        size: match a.size {
            IoSize::Bit => Sz::X,
            IoSize::Byte => Sz::B,
            IoSize::Word => Sz::W,
            IoSize::DWord => Sz::D,
            IoSize::LWord => Sz::L,
        },
        byte: a.byte,
        bit: a.bit,
        path: a.path.clone(),
        wild: a.wildcard,
    }
}

fn val_tok(v: &Value) -> String {
    match v {
        Value::Bool(b) => format!("bool:{}", u8::from(*b)),
        Value::SInt(x) => format!("sint:{x}"),
        Value::Int(x) => format!("int:{x}"),
        Value::DInt(x) => format!("dint:{x}"),
        Value::LInt(x) => format!("lint:{x}"),
        Value::USInt(x) => format!("usint:{x}"),
        Value::UInt(x) => format!("uint:{x}"),
        Value::UDInt(x) => format!("udint:{x}"),
        Value::ULInt(x) => format!("ulint:{x}"),
        Value::Real(x) => format!("real:{}", x.to_bits()),
        Value::LReal(x) => format!("lreal:{}", x.to_bits()),
        Value::Byte(x) => format!("byte:{x}"),
        Value::Word(x) => format!("word:{x}"),
        Value::DWord(x) => format!("dword:{x}"),
        Value::LWord(x) => format!("lword:{x}"),
        Value::Char(x) => format!("char:{x}"),
        Value::WChar(x) => format!("wchar:{x}"),
        // date and time values: the raw payload (nanoseconds / ticks)
        Value::Time(x) => format!("time:{}", x.as_nanos()),
        Value::LTime(x) => format!("ltime:{}", x.as_nanos()),
        Value::Date(x) => format!("date:{}", x.ticks()),
        Value::LDate(x) => format!("ldate:{}", x.nanos()),
        Value::Tod(x) => format!("tod:{}", x.ticks()),
        Value::LTod(x) => format!("ltod:{}", x.nanos()),
        Value::Dt(x) => format!("dt:{}", x.ticks()),
        Value::Ldt(x) => format!("ldt:{}", x.nanos()),
        // an enum value: its numeric value (the names are not part of what the image carries)
        Value::Enum(e) => format!("enum:{}", e.numeric_value),
        Value::String(_) => "other:2".into(),
        Value::Null => "other:3".into(),
        _ => "other:9".into(),
    }
}

fn opt_val_tok(v: Option<&Value>) -> String {
    v.map(val_tok).unwrap_or_else(|| "-".into())
}

fn err_tok(e: &RuntimeError) -> String {
    match e {
        RuntimeError::TypeMismatch => "typeMismatch".into(),
        RuntimeError::Overflow => "overflow".into(),
        RuntimeError::InvalidIoAddress(_) => "invalidIoAddress".into(),
        RuntimeError::UndefinedVariable(_) => "undefinedVariable".into(),
        RuntimeError::NullReference => "nullReference".into(),
        RuntimeError::DivisionByZero => "divisionByZero".into(),
        RuntimeError::IoDriver(_) => "ioDriver".into(),
        RuntimeError::ResourceFaulted => "resourceFaulted".into(),
        other => format!("unexpected({})", format!("{other:?}").replace(' ', "_")),
    }
}

fn images(io: &IoInterface) -> String {
    format!(
        "I={} Q={} M={}",
        hex(io.inputs()),
        hex(io.outputs()),
        hex(io.memory())
    )
}

/// Elementary types: (ST name, model token, TypeId, size)
#[derive(Clone, Copy, Debug, PartialEq, Eq)]
enum Ty {
    Bool,
    SInt,
    USInt,
    Byte,
    Char,
    Int,
    UInt,
    Word,
    WChar,
    DInt,
    UDInt,
    DWord,
    Real,
    LInt,
    ULInt,
    LWord,
    LReal,
    Time,
    Date,
    Tod,
    Dt,
    LTime,
    LDate,
    LTod,
    Ldt,
    Str,
}

/// The date and time types (DWord: TIME, DATE, TOD, DT; LWord: the L-variants).
const TICKS: [Ty; 8] = [Ty::Time, Ty::Date, Ty::Tod, Ty::Dt, Ty::LTime, Ty::LDate, Ty::LTod, Ty::Ldt];

/// Every type an AT binding can have: the 17 elementary types and the 8 date and time types.
const BINDABLE: [Ty; 25] = [
    Ty::Bool,
    Ty::SInt,
    Ty::USInt,
    Ty::Byte,
    Ty::Char,
    Ty::Int,
    Ty::UInt,
    Ty::Word,
    Ty::WChar,
    Ty::DInt,
    Ty::UDInt,
    Ty::DWord,
    Ty::Real,
    Ty::LInt,
    Ty::ULInt,
    Ty::LWord,
    Ty::LReal,
    Ty::Time,
    Ty::Date,
    Ty::Tod,
    Ty::Dt,
    Ty::LTime,
    Ty::LDate,
    Ty::LTod,
    Ty::Ldt,
];

const ELEMENTARY: [Ty; 17] = [
    Ty::Bool,
    Ty::SInt,
    Ty::USInt,
    Ty::Byte,
    Ty::Char,
    Ty::Int,
    Ty::UInt,
    Ty::Word,
    Ty::WChar,
    Ty::DInt,
    Ty::UDInt,
    Ty::DWord,
    Ty::Real,
    Ty::LInt,
    Ty::ULInt,
    Ty::LWord,
    Ty::LReal,
];

impl Ty {
    fn st(self) -> &'static str {
        match self {
            Ty::Bool => "BOOL",
            Ty::SInt => "SINT",
            Ty::USInt => "USINT",
            Ty::Byte => "BYTE",
            Ty::Char => "CHAR",
            Ty::Int => "INT",
            Ty::UInt => "UINT",
            Ty::Word => "WORD",
            Ty::WChar => "WCHAR",
            Ty::DInt => "DINT",
            Ty::UDInt => "UDINT",
            Ty::DWord => "DWORD",
            Ty::Real => "REAL",
            Ty::LInt => "LINT",
            Ty::ULInt => "ULINT",
            Ty::LWord => "LWORD",
            Ty::LReal => "LREAL",
            Ty::Time => "TIME",
            Ty::Date => "DATE",
            Ty::Tod => "TOD",
            Ty::Dt => "DT",
            Ty::LTime => "LTIME",
            Ty::LDate => "LDATE",
            Ty::LTod => "LTOD",
            Ty::Ldt => "LDT",
            Ty::Str => "STRING",
        }
    }
    fn tok(self) -> &'static str {
        match self {
            Ty::Bool => "bool",
            Ty::SInt => "sint",
            Ty::USInt => "usint",
            Ty::Byte => "byte",
            Ty::Char => "char",
            Ty::Int => "int",
            Ty::UInt => "uint",
            Ty::Word => "word",
            Ty::WChar => "wchar",
            Ty::DInt => "dint",
            Ty::UDInt => "udint",
            Ty::DWord => "dword",
            Ty::Real => "real",
            Ty::LInt => "lint",
            Ty::ULInt => "ulint",
            Ty::LWord => "lword",
            Ty::LReal => "lreal",
            Ty::Time => "time",
            Ty::Date => "date",
            Ty::Tod => "tod",
            Ty::Dt => "dt",
            Ty::LTime => "ltime",
            Ty::LDate => "ldate",
            Ty::LTod => "ltod",
            Ty::Ldt => "ldt",
            Ty::Str => "other",
        }
    }
    fn id(self) -> TypeId {
        match self {
            Ty::Bool => TypeId::BOOL,
            Ty::SInt => TypeId::SINT,
            Ty::USInt => TypeId::USINT,
            Ty::Byte => TypeId::BYTE,
            Ty::Char => TypeId::CHAR,
            Ty::Int => TypeId::INT,
            Ty::UInt => TypeId::UINT,
            Ty::Word => TypeId::WORD,
            Ty::WChar => TypeId::WCHAR,
            Ty::DInt => TypeId::DINT,
            Ty::UDInt => TypeId::UDINT,
            Ty::DWord => TypeId::DWORD,
            Ty::Real => TypeId::REAL,
            Ty::LInt => TypeId::LINT,
            Ty::ULInt => TypeId::ULINT,
            Ty::LWord => TypeId::LWORD,
            Ty::LReal => TypeId::LREAL,
            Ty::Time => TypeId::TIME,
            Ty::Date => TypeId::DATE,
            Ty::Tod => TypeId::TOD,
            Ty::Dt => TypeId::DT,
            Ty::LTime => TypeId::LTIME,
            Ty::LDate => TypeId::LDATE,
            Ty::LTod => TypeId::LTOD,
            Ty::Ldt => TypeId::LDT,
            Ty::Str => TypeId::STRING,
        }
    }
    fn from_id(id: TypeId) -> Option<Ty> {
        BINDABLE
            .iter()
            .chain([Ty::Str].iter())
            .copied()
            .find(|t| t.id() == id)
    }
    fn size(self) -> Sz {
        match self {
            Ty::Bool => Sz::X,
            Ty::SInt | Ty::USInt | Ty::Byte | Ty::Char => Sz::B,
            Ty::Int | Ty::UInt | Ty::Word | Ty::WChar => Sz::W,
            Ty::DInt | Ty::UDInt | Ty::DWord | Ty::Real => Sz::D,
            Ty::Time | Ty::Date | Ty::Tod | Ty::Dt => Sz::D,
            Ty::LInt | Ty::ULInt | Ty::LWord | Ty::LReal | Ty::Str => Sz::L,
            Ty::LTime | Ty::LDate | Ty::LTod | Ty::Ldt => Sz::L,
        }
    }
    fn is_tick(self) -> bool {
        TICKS.contains(&self)
    }
    /// Nanoseconds (or ticks) per image count: a TIME travels as milliseconds.
    fn scale(self) -> i64 {
        if self == Ty::Time {
            1_000_000
        } else {
            1
        }
    }
    fn zero(self) -> Value {
        self.value_from_bits(0)
    }
    /// The value of this type whose two's-complement / raw bit pattern is `bits` (truncated).
    fn value_from_bits(self, bits: u64) -> Value {
        match self {
            Ty::Bool => Value::Bool(bits & 1 == 1),
            Ty::SInt => Value::SInt(bits as u8 as i8),
            Ty::USInt => Value::USInt(bits as u8),
            Ty::Byte => Value::Byte(bits as u8),
            Ty::Char => Value::Char(bits as u8),
            Ty::Int => Value::Int(bits as u16 as i16),
            Ty::UInt => Value::UInt(bits as u16),
            Ty::Word => Value::Word(bits as u16),
            Ty::WChar => Value::WChar(bits as u16),
            Ty::DInt => Value::DInt(bits as u32 as i32),
            Ty::UDInt => Value::UDInt(bits as u32),
            Ty::DWord => Value::DWord(bits as u32),
            Ty::Real => Value::Real(f32::from_bits(bits as u32)),
            Ty::LInt => Value::LInt(bits as i64),
            Ty::ULInt => Value::ULInt(bits),
            Ty::LWord => Value::LWord(bits),
            Ty::LReal => Value::LReal(f64::from_bits(bits)),
            // date and time types: `bits` is the raw payload (nanoseconds / ticks)
            Ty::Time => Value::Time(Duration::from_nanos(bits as i64)),
            Ty::LTime => Value::LTime(Duration::from_nanos(bits as i64)),
            Ty::Date => Value::Date(DateValue::new(bits as i64)),
            Ty::LDate => Value::LDate(LDateValue::new(bits as i64)),
            Ty::Tod => Value::Tod(TimeOfDayValue::new(bits as i64)),
            Ty::LTod => Value::LTod(LTimeOfDayValue::new(bits as i64)),
            Ty::Dt => Value::Dt(DateTimeValue::new(bits as i64)),
            Ty::Ldt => Value::Ldt(LDateTimeValue::new(bits as i64)),
            Ty::Str => Value::String("s".into()),
        }
    }
}

/// Bit patterns with boundary values at fixed probability.  NaN patterns are avoided for floats
/// only where a comparison by value would be involved; here floats are compared by bits.
fn gen_bits(rng: &mut Rng) -> u64 {
    match rng.below(10) {
        0 => 0,
        1 => u64::MAX,
        2 => 1,
        3 => 0x8000_0000_0000_0000,
        4 => 0x7FFF_FFFF_FFFF_FFFF,
        5 => {
            // boundary of a narrower width
            let w = *rng.pick(&[7u32, 8, 15, 16, 31, 32]);
            let base = 1u64 << w;
            base.wrapping_add(rng.range(-1, 1) as u64)
        }
        6 => 0x0102_0304_0506_0708,
        _ => rng.next(),
    }
}

fn gen_value(rng: &mut Rng, ty: Ty) -> Value {
    let mut bits = gen_bits(rng);
    if matches!(ty, Ty::Real) {
        // keep away from signalling-NaN patterns: a quiet bit flip on some platforms would be a
        // false alarm unrelated to the property
        let b = bits as u32;
        if (b & 0x7F80_0000) == 0x7F80_0000 && (b & 0x007F_FFFF) != 0 {
            bits = u64::from(b & 0x7F7F_FFFF);
        }
    }
    if matches!(ty, Ty::LReal) && (bits & 0x7FF0_0000_0000_0000) == 0x7FF0_0000_0000_0000 && (bits & 0x000F_FFFF_FFFF_FFFF) != 0 {
        bits &= 0x7FEF_FFFF_FFFF_FFFF;
    }
    if ty.is_tick() && ty.size() == Sz::D {
        // a 32-bit date/time value: mostly a whole count that fits 32 bits (round trip exact),
        // sometimes with a fraction of a count (TIME below 1 ms: truncated toward zero), sometimes
        // any 64-bit payload (Overflow unless it happens to fit), sometimes just across the limits
        let count = i64::from(bits as u32 as i32);
        let payload = match rng.below(8) {
            0 => bits as i64,
            1 => count * ty.scale() + (rng.below(ty.scale() as u64) as i64) * if count < 0 { -1 } else { 1 },
            2 => (*rng.pick(&[i64::from(i32::MAX) + 1, i64::from(i32::MIN) - 1, i64::from(i32::MAX), i64::from(i32::MIN)]))
                * ty.scale()
                + rng.range(-1, 1),
            _ => count * ty.scale(),
        };
        return ty.value_from_bits(payload as u64);
    }
    ty.value_from_bits(bits)
}

/// `Value::Enum` of the generated sources' type `Color` with the given numeric value.
fn enum_value(numeric: i64) -> Value {
    Value::Enum(EnumValue {
        type_name: "Color".into(),
        variant_name: match numeric {
            0 => "Red".into(),
            1 => "Green".into(),
            2 => "Blue".into(),
            _ => "Other".into(),
        },
        numeric_value: numeric,
    })
}

/// An enum value: usually one of the three variants, sometimes any numeric value (around the
/// limits of the integer types: `coerce_to_io` answers Overflow / TypeMismatch for an unsigned base).
fn gen_enum_value(rng: &mut Rng) -> Value {
    if rng.chance(2, 3) {
        enum_value(rng.below(3) as i64)
    } else {
        enum_value(gen_bits(rng) as i64 >> *rng.pick(&[0u32, 32, 48, 56]))
    }
}

fn gen_any_value(rng: &mut Rng) -> Value {
    let ty = if rng.chance(1, 8) {
        if rng.chance(1, 4) { Ty::Str } else { *rng.pick(&TICKS) }
    } else {
        *rng.pick(&ELEMENTARY)
    };
    if rng.chance(1, 40) {
        return Value::Null;
    }
    if rng.chance(1, 16) {
        return gen_enum_value(rng);
    }
    gen_value(rng, ty)
}

fn value_for_size(rng: &mut Rng, size: Sz) -> Value {
    let ty = match size {
        Sz::X => Ty::Bool,
        Sz::B => Ty::Byte,
        Sz::W => Ty::Word,
        Sz::D => Ty::DWord,
        Sz::L => Ty::LWord,
    };
    gen_value(rng, ty)
}

fn gen_area(rng: &mut Rng) -> Ar {
    *rng.pick(&[Ar::I, Ar::Q, Ar::M])
}

fn gen_size(rng: &mut Rng) -> Sz {
    *rng.pick(&[Sz::X, Sz::B, Sz::W, Sz::D, Sz::L])
}

/// Flat address near the others of the case: bytes within `0..span`, so that spans overlap, touch
/// and straddle the end of the image.
fn gen_flat(rng: &mut Rng, span: u32) -> Ad {
    let size = gen_size(rng);
    let byte = if rng.chance(1, 30) {
        span + rng.below(300) as u32
    } else {
        rng.below(u64::from(span)) as u32
    };
    let bit = if size == Sz::X { rng.below(8) as u8 } else { 0 };
    Ad::flat(gen_area(rng), size, byte, bit)
}

fn gen_addr(rng: &mut Rng, span: u32) -> Ad {
    let mut a = gen_flat(rng, span);
    match rng.below(40) {
        0 => {
            // wildcard (hand-built: `%I*` parses to it, but then byte/path differ)
            a.wild = true;
            a.path.clear();
        }
        1 | 2 | 3 => {
            // hierarchical
            let extra = 1 + rng.below(2) as usize;
            for _ in 0..extra {
                a.path.push(rng.below(3) as u32);
            }
        }
        4 if a.size == Sz::X => {
            // hand-built bit index outside 0..7 (the parser refuses it)
            a.bit = 8 + rng.below(3) as u8 * 60;
        }
        5 => {
            // hand-built: empty path
            a.path.clear();
        }
        _ => {}
    }
    a
}

// ------------------------------------------------------------------------------------------------
// raw cases
// ------------------------------------------------------------------------------------------------

fn silent_catch<T>(f: impl FnOnce() -> T) -> Result<T, ()> {
    std::panic::catch_unwind(std::panic::AssertUnwindSafe(f)).map_err(|_| ())
}

fn do_write(io: &mut IoInterface, ad: &Ad, v: &Value, out: &mut Out) -> (String, bool) {
    let addr = ad.real(out);
    match silent_catch(|| io.write(&addr, v.clone())) {
        Ok(Ok(())) => (format!("impl ok {}", images(io)), false),
        Ok(Err(e)) => (format!("impl err:{} {}", err_tok(&e), images(io)), false),
        Err(()) => ("impl err:shiftPanic".to_string(), true),
    }
}

fn do_read(io: &IoInterface, ad: &Ad, out: &mut Out) -> String {
    let addr = ad.real(out);
    match silent_catch(|| io.read(&addr)) {
        Ok(Ok(v)) => format!("impl ok {}", val_tok(&v)),
        Ok(Err(e)) => format!("impl err:{}", err_tok(&e)),
        Err(()) => "impl err:shiftPanic".to_string(),
    }
}

fn run_raw(n: u64, rng: &mut Rng, ops: usize, out: &mut Out) {
    out.line(format!("case {n}"));
    out.line("kind raw");
    let span = 2 + rng.below(14) as u32;
    let mut io = IoInterface::new();
    let sizes: Vec<usize> = (0..3)
        .map(|_| if rng.chance(1, 4) { 0 } else { rng.below(u64::from(span) + 3) as usize })
        .collect();
    io.resize(sizes[0], sizes[1], sizes[2]);
    out.line(format!("resize {} {} {}", sizes[0], sizes[1], sizes[2]));
    // pre-fill with a pattern through the public mutable slices
    for (area, len) in [(Ar::I, sizes[0]), (Ar::Q, sizes[1]), (Ar::M, sizes[2])] {
        if len > 0 && rng.chance(2, 3) {
            let bytes: Vec<u8> = (0..len).map(|_| rng.next() as u8).collect();
            match area {
                Ar::I => io.inputs_mut().copy_from_slice(&bytes),
                Ar::Q => io.outputs_mut().copy_from_slice(&bytes),
                Ar::M => io.memory_mut().copy_from_slice(&bytes),
            }
            out.line(format!("setimg {:?} {}", area, hex(&bytes)));
        }
    }
    let mut recent: Vec<Ad> = Vec::new();
    let mut distinct_sizes = std::collections::BTreeSet::new();
    let mut overlaps = false;
    for _ in 0..ops {
        let hier: Vec<Ad> = recent.iter().filter(|a| a.path.len() > 1 && !a.wild).cloned().collect();
        let ad = if !hier.is_empty() && rng.chance(1, 5) {
            // a hierarchical address that differs from an earlier one in exactly one key field
            // (or in none): the key is (area, size, path, bit)
            let mut a = rng.pick(&hier).clone();
            match rng.below(5) {
                0 => a.bit = if a.size == Sz::X { rng.below(8) as u8 } else { a.bit },
                1 => {
                    a.size = gen_size(rng);
                    if a.size != Sz::X {
                        a.bit = 0;
                    }
                }
                2 => a.area = gen_area(rng),
                3 => {
                    let k = a.path.len() - 1;
                    a.path[k] = rng.below(3) as u32;
                }
                _ => {}
            }
            out.count("raw_hier_neighbour");
            a
        } else if !recent.is_empty() && rng.chance(1, 3) {
            rng.pick(&recent).clone()
        } else {
            gen_addr(rng, span)
        };
        if rng.chance(3, 5) {
            let v = if rng.chance(5, 6) {
                value_for_size(rng, ad.size)
            } else {
                gen_any_value(rng)
            };
            out.line(format!("w {} {}", ad.tok(), val_tok(&v)));
            let (ans, panicked) = do_write(&mut io, &ad, &v, out);
            out.count(if ans.starts_with("impl ok") { "raw_write_ok" } else { "raw_write_err" });
            out.line(ans);
            if panicked {
                // the buffer may have been grown before the panic; the interface is abandoned
                out.count("raw_write_panic");
                break;
            }
            if recent.iter().any(|r| {
                r.area == ad.area
                    && r.path.len() <= 1
                    && ad.path.len() <= 1
                    && *r != ad
                    && r.byte < ad.byte + ad.size.bytes()
                    && ad.byte < r.byte + r.size.bytes()
            }) {
                overlaps = true;
            }
            distinct_sizes.insert(ad.size as u8);
            recent.push(ad);
        } else {
            out.line(format!("r {}", ad.tok()));
            let ans = do_read(&io, &ad, out);
            out.count(if ans.starts_with("impl ok") { "raw_read_ok" } else { "raw_read_err" });
            out.line(ans);
        }
    }
    if overlaps && distinct_sizes.len() >= 3 {
        out.line("tag nontrivial");
    }
    out.line("tag raw");
    out.line("end");
}

// ------------------------------------------------------------------------------------------------
// partial access cases
// ------------------------------------------------------------------------------------------------

fn pa_tok(a: PartialAccess) -> String {
    match a {
        PartialAccess::Bit(i) => format!("X{i}"),
        PartialAccess::Byte(i) => format!("B{i}"),
        PartialAccess::Word(i) => format!("W{i}"),
        PartialAccess::DWord(i) => format!("D{i}"),
    }
}

fn pa_err(e: PartialAccessError) -> String {
    match e {
        PartialAccessError::IndexOutOfBounds { index, lower, upper } => {
            format!("err:index:{index}:{lower}:{upper}")
        }
        PartialAccessError::TypeMismatch => "err:typeMismatch".into(),
    }
}

fn run_pa(n: u64, rng: &mut Rng, ops: usize, out: &mut Out) {
    out.line(format!("case {n}"));
    out.line("kind pa");
    let bitstrings = [Ty::Byte, Ty::Word, Ty::DWord, Ty::LWord];
    for _ in 0..ops {
        let target = if rng.chance(9, 10) {
            let ty = *rng.pick(&bitstrings);
            gen_value(rng, ty)
        } else {
            gen_any_value(rng)
        };
        let width: u64 = match &target {
            Value::Byte(_) => 8,
            Value::Word(_) => 16,
            Value::DWord(_) => 32,
            _ => 64,
        };
        let kind = rng.below(4);
        let part_width = [1u64, 8, 16, 32][kind as usize];
        let limit = (width / part_width).max(1);
        let idx = if rng.chance(1, 8) {
            rng.below(256) as u8
        } else if rng.chance(1, 6) {
            limit as u8
        } else {
            rng.below(limit) as u8
        };
        let acc = match kind {
            0 => PartialAccess::Bit(idx),
            1 => PartialAccess::Byte(idx),
            2 => PartialAccess::Word(idx),
            _ => PartialAccess::DWord(idx),
        };
        if rng.bool() {
            out.line(format!("pr {} {}", val_tok(&target), pa_tok(acc)));
            match silent_catch(|| read_partial_access(&target, acc)) {
                Ok(Ok(v)) => out.line(format!("impl ok {}", val_tok(&v))),
                Ok(Err(e)) => out.line(format!("impl {}", pa_err(e))),
                Err(()) => out.line("impl panic"),
            }
            out.count("pa_read");
        } else {
            let part_ty = [Ty::Bool, Ty::Byte, Ty::Word, Ty::DWord][kind as usize];
            let v = if rng.chance(9, 10) {
                gen_value(rng, part_ty)
            } else {
                gen_any_value(rng)
            };
            out.line(format!("pw {} {} {}", val_tok(&target), pa_tok(acc), val_tok(&v)));
            match silent_catch(|| write_partial_access(target.clone(), acc, v.clone())) {
                Ok(Ok(v)) => out.line(format!("impl ok {}", val_tok(&v))),
                Ok(Err(e)) => out.line(format!("impl {}", pa_err(e))),
                Err(()) => out.line("impl panic"),
            }
            out.count("pa_write");
        }
    }
    out.line("tag nontrivial");
    out.line("tag pa");
    out.line("end");
}

// ------------------------------------------------------------------------------------------------
// bind cases: IoInterface::read_inputs / write_outputs over a VariableStorage
// ------------------------------------------------------------------------------------------------

fn dump_globals(storage: &VariableStorage, nvars: usize) -> String {
    join(
        (0..nvars).map(|i| opt_val_tok(storage.get_global(&format!("v{i}")))),
        ",",
    )
}

/// Value for a bind-case variable of declared type `ty`: mostly of that type, sometimes of any
/// kind.  Float-typed variables never hold a numeric value of another kind (`coerce_to_io` would
/// convert it through floating point, which the model does not cover).
fn gen_var_value(rng: &mut Rng, ty: Ty) -> Value {
    if rng.chance(5, 6) {
        return gen_value(rng, ty);
    }
    gen_other_value(rng, ty)
}

/// "Tag drift": a value of another integer kind in a variable declared with integer type `ty` (the
/// interpreter can leave e.g. a DINT in an INT variable), chosen around the limits of `ty` so that
/// both the in-range conversion and the `Overflow` refusal of `coerce_to_io` are exercised.
fn gen_drift_value(rng: &mut Rng, ty: Ty) -> Option<Value> {
    let (lo, hi): (i128, i128) = match ty {
        Ty::SInt => (-128, 127),
        Ty::Int => (-32768, 32767),
        Ty::DInt => (-(1 << 31), (1 << 31) - 1),
        Ty::LInt => (i128::from(i64::MIN), i128::from(i64::MAX)),
        Ty::USInt => (0, 255),
        Ty::UInt => (0, 65535),
        Ty::UDInt => (0, (1 << 32) - 1),
        Ty::ULInt => (0, i128::from(u64::MAX)),
        _ => return None,
    };
    let x: i128 = match rng.below(8) {
        0 => lo,
        1 => lo - 1,
        2 => hi,
        3 => hi + 1,
        4 => -1,
        5 => 0,
        6 => i128::from(rng.range(-300, 70000)),
        _ => lo + (i128::from(rng.next() >> 1) % (hi - lo + 1)),
    };
    // carriers that can hold x, other than the declared kind
    let mut carriers: Vec<Value> = Vec::new();
    if let Ok(v) = i8::try_from(x) { if ty != Ty::SInt { carriers.push(Value::SInt(v)); } }
    if let Ok(v) = i16::try_from(x) { if ty != Ty::Int { carriers.push(Value::Int(v)); } }
    if let Ok(v) = i32::try_from(x) { if ty != Ty::DInt { carriers.push(Value::DInt(v)); } }
    if let Ok(v) = i64::try_from(x) { if ty != Ty::LInt { carriers.push(Value::LInt(v)); } }
    if let Ok(v) = u8::try_from(x) { if ty != Ty::USInt { carriers.push(Value::USInt(v)); } }
    if let Ok(v) = u16::try_from(x) { if ty != Ty::UInt { carriers.push(Value::UInt(v)); } }
    if let Ok(v) = u32::try_from(x) { if ty != Ty::UDInt { carriers.push(Value::UDInt(v)); } }
    if let Ok(v) = u64::try_from(x) { if ty != Ty::ULInt { carriers.push(Value::ULInt(v)); } }
    if carriers.is_empty() {
        return None;
    }
    Some(rng.pick(&carriers).clone())
}

/// A value of any kind for a variable of declared type `ty`, except that a float-typed variable
/// never gets a numeric value of another kind.
fn gen_other_value(rng: &mut Rng, ty: Ty) -> Value {
    if rng.chance(2, 3) {
        if let Some(v) = gen_drift_value(rng, ty) {
            return v;
        }
    }
    let v = gen_any_value(rng);
    let numeric = matches!(
        v,
        Value::SInt(_) | Value::Int(_) | Value::DInt(_) | Value::LInt(_) | Value::USInt(_) | Value::UInt(_)
            | Value::UDInt(_) | Value::ULInt(_) | Value::Real(_) | Value::LReal(_) | Value::Enum(_)
    );
    if matches!(ty, Ty::Real | Ty::LReal) && numeric {
        if rng.bool() { Value::Null } else { gen_value(rng, ty) }
    } else {
        v
    }
}

/// Sweep of one typed binding over values of the right and of drifted / foreign kinds: every
/// step sets the variable, publishes and (for a %M binding) latches back.
fn run_sweep(n: u64, rng: &mut Rng, out: &mut Out) {
    out.line(format!("case {n}"));
    out.line("kind bind");
    let ty = BINDABLE[((n / 16) % 25) as usize];
    let mut io = IoInterface::new();
    let len = rng.below(6) as usize;
    io.resize(0, len, len);
    out.line(format!("resize 0 {len} {len}"));
    let mut storage = VariableStorage::new();
    out.line("nvars 1");
    storage.set_global("v0", ty.zero());
    out.line(format!("var 0 {}", val_tok(&ty.zero())));
    let area = if rng.bool() { Ar::Q } else { Ar::M };
    let ad = Ad::flat(area, ty.size(), rng.below(5) as u32, if ty == Ty::Bool { rng.below(8) as u8 } else { 0 });
    let addr = ad.real(out);
    let by_ref = rng.bool();
    if by_ref {
        io.bind_ref_typed(storage.ref_for_global("v0").expect("ref"), addr, ty.id());
    } else {
        io.bind_typed("v0", addr, ty.id());
    }
    out.line(format!("bind {} 0 {} {}", if by_ref { "ref" } else { "name" }, ad.tok(), ty.tok()));
    for _ in 0..16 {
        let own = if ty.is_tick() { 3 } else { 1 };
        let v = if rng.chance(own, 4) {
            gen_value(rng, ty)
        } else if !matches!(ty, Ty::Real | Ty::LReal) && rng.chance(1, 5) {
            // an enumerated variable bound with this (base) type
            gen_enum_value(rng)
        } else {
            gen_other_value(rng, ty)
        };
        storage.set_global("v0", v.clone());
        out.line(format!("setvar 0 {}", val_tok(&v)));
        out.line("publish");
        match silent_catch(|| io.write_outputs(&storage)) {
            Ok(r) => {
                out.line(format!(
                    "impl {} {}",
                    match &r {
                        Ok(()) => "ok".to_string(),
                        Err(e) => format!("err:{}", err_tok(e)),
                    },
                    images(&io)
                ));
                out.count(&match &r {
                    Ok(()) => "sweep_publish_ok".to_string(),
                    Err(e) => format!("sweep_publish_{}", err_tok(e)),
                });
            }
            Err(()) => {
                out.line("impl panic");
                break;
            }
        }
        if area == Ar::M {
            out.line("latch");
            match silent_catch(|| io.read_inputs(&mut storage)) {
                Ok(r) => out.line(format!(
                    "impl {} vars={}",
                    match &r {
                        Ok(()) => "ok".to_string(),
                        Err(e) => format!("err:{}", err_tok(e)),
                    },
                    dump_globals(&storage, 1)
                )),
                Err(()) => {
                    out.line("impl panic");
                    break;
                }
            }
        }
    }
    out.line("tag nontrivial");
    out.line(format!("tag sweep-{}", ty.tok()));
    out.line("tag bind");
    out.line("end");
}

fn run_bind(n: u64, rng: &mut Rng, out: &mut Out) {
    out.line(format!("case {n}"));
    out.line("kind bind");
    let span = 2 + rng.below(10) as u32;
    let mut io = IoInterface::new();
    let sizes: Vec<usize> = (0..3).map(|_| rng.below(u64::from(span) + 2) as usize).collect();
    io.resize(sizes[0], sizes[1], sizes[2]);
    out.line(format!("resize {} {} {}", sizes[0], sizes[1], sizes[2]));
    let mut storage = VariableStorage::new();
    // half of the cases are entirely well-formed (long successful latches and publishes), the
    // other half mixes in the anomalies
    let clean = rng.bool();
    let nvars = 2 + rng.below(7) as usize;
    out.line(format!("nvars {nvars}"));
    // variables: most defined, some not (Name targets create them, Reference targets fail)
    let mut var_ty: Vec<Ty> = Vec::new();
    let mut defined: Vec<bool> = Vec::new();
    // defined variables first so that reference offsets are stable
    let ndefined = if clean { nvars } else { nvars - (rng.below(3) as usize).min(nvars - 1) };
    for i in 0..nvars {
        let ty = *rng.pick(&BINDABLE);
        var_ty.push(ty);
        if i < ndefined {
            let v = if clean { gen_value(rng, ty) } else { gen_var_value(rng, ty) };
            storage.set_global(format!("v{i}"), v.clone());
            out.line(format!("var {i} {}", val_tok(&v)));
            defined.push(true);
        } else {
            defined.push(false);
        }
    }
    // an undefined variable is either only ever bound by (dangling) reference and never defined, or
    // only ever bound by name (the latch then creates it)
    let dangling: Vec<bool> = (0..nvars).map(|i| !defined[i] && rng.bool()).collect();
    let nb = 1 + rng.below(9) as usize;
    let mut mismatch = false;
    for _ in 0..nb {
        let x = rng.below(nvars as u64) as usize;
        let mut ty = if clean || rng.chance(7, 8) { var_ty[x] } else { *rng.pick(&BINDABLE) };
        if (matches!(ty, Ty::Real | Ty::LReal) || matches!(var_ty[x], Ty::Real | Ty::LReal)) && ty != var_ty[x] {
            // float bindings only on variables of that float type (see gen_var_value), and a float
            // variable only gets bindings of its own type (an integer in-binding would latch a
            // non-float numeric value into it)
            ty = var_ty[x];
        }
        let mut ad = gen_flat(rng, span);
        if clean || rng.chance(11, 12) {
            ad.size = ty.size();
            if ad.size != Sz::X {
                ad.bit = 0;
            } else {
                ad.bit = rng.below(8) as u8;
            }
        } else {
            mismatch = true;
        }
        if !clean && rng.chance(1, 25) {
            ad.path.push(rng.below(2) as u32);
        }
        let addr = ad.real(out);
        let typed = clean || !rng.chance(1, 6);
        let ty_real = if !clean && rng.chance(1, 30) { Ty::Str } else { ty };
        let by_ref = if defined[x] { rng.chance(1, 2) } else { dangling[x] };
        if by_ref {
            // a reference to a defined global, or a dangling one for an undefined variable
            let reference = if defined[x] {
                storage.ref_for_global(&format!("v{x}")).expect("ref")
            } else {
                ValueRef {
                    location: MemoryLocation::Global,
                    offset: 1000 + x,
                    path: Vec::new(),
                }
            };
            if typed {
                io.bind_ref_typed(reference, addr, ty_real.id());
            } else {
                io.bind_ref(reference, addr);
            }
        } else if typed {
            io.bind_typed(format!("v{x}"), addr, ty_real.id());
        } else {
            io.bind(format!("v{x}"), addr);
        }
        out.line(format!(
            "bind {} {x} {} {}",
            if by_ref { "ref" } else { "name" },
            ad.tok(),
            if typed { ty_real.tok() } else { "none" }
        ));
    }
    let steps = 3 + rng.below(6);
    for _ in 0..steps {
        match rng.below(5) {
            0 => {
                // new image content
                let area = gen_area(rng);
                let len = match area {
                    Ar::I => io.inputs().len(),
                    Ar::Q => io.outputs().len(),
                    Ar::M => io.memory().len(),
                };
                let bytes: Vec<u8> = (0..len).map(|_| rng.next() as u8).collect();
                match area {
                    Ar::I => io.inputs_mut().copy_from_slice(&bytes),
                    Ar::Q => io.outputs_mut().copy_from_slice(&bytes),
                    Ar::M => io.memory_mut().copy_from_slice(&bytes),
                }
                out.line(format!("setimg {:?} {}", area, hex(&bytes)));
            }
            1 => {
                let x = rng.below(nvars as u64) as usize;
                if defined[x] || (!dangling[x] && rng.chance(1, 4)) {
                    // defining an undefined variable appends a global: existing references stay valid,
                    // dangling references (offset 1000+) stay dangling
                    let v = if clean { gen_value(rng, var_ty[x]) } else { gen_var_value(rng, var_ty[x]) };
                    storage.set_global(format!("v{x}"), v.clone());
                    defined[x] = true;
                    out.line(format!("setvar {x} {}", val_tok(&v)));
                }
            }
            2 | 3 => {
                out.line("latch");
                let r = match silent_catch(|| io.read_inputs(&mut storage)) {
                    Ok(r) => r,
                    Err(()) => {
                        out.line("impl panic");
                        break;
                    }
                };
                // a Name target defines its variable
                for (i, d) in defined.iter_mut().enumerate() {
                    if storage.get_global(&format!("v{i}")).is_some() {
                        *d = true;
                    }
                }
                out.line(format!(
                    "impl {} vars={}",
                    match &r {
                        Ok(()) => "ok".to_string(),
                        Err(e) => format!("err:{}", err_tok(e)),
                    },
                    dump_globals(&storage, nvars)
                ));
                out.count(if r.is_ok() { "bind_latch_ok" } else { "bind_latch_err" });
            }
            _ => {
                out.line("publish");
                let r = match silent_catch(|| io.write_outputs(&storage)) {
                    Ok(r) => r,
                    Err(()) => {
                        out.line("impl panic");
                        break;
                    }
                };
                out.line(format!(
                    "impl {} {}",
                    match &r {
                        Ok(()) => "ok".to_string(),
                        Err(e) => format!("err:{}", err_tok(e)),
                    },
                    images(&io)
                ));
                out.count(if r.is_ok() { "bind_publish_ok" } else { "bind_publish_err" });
            }
        }
    }
    if nb >= 3 {
        out.line("tag nontrivial");
    }
    if mismatch {
        out.line("tag size-type-mismatch");
    }
    out.line("tag bind");
    out.line("end");
}

// ------------------------------------------------------------------------------------------------
// rt cases: compiled CONFIGURATION + logging drivers
// ------------------------------------------------------------------------------------------------

/// How a leaf variable is reached inside its declaration.
#[derive(Clone, Debug, PartialEq)]
enum Access {
    Plain,
    Index(i64),
    Field(usize),
}

/// One leaf variable (elementary value): what the model calls a variable.
#[derive(Clone, Debug)]
struct VarSpec {
    /// None = global, Some(p) = local of program p
    prog: Option<usize>,
    ty: Ty,
    /// the declaration the leaf belongs to
    decl: usize,
    access: Access,
    /// never the source of a copy (so that wrong-kind values cannot reach expression evaluation)
    sink_only: bool,
    /// declared with the enumerated type `Color` (`ty` is the base type INT the binding gets): takes
    /// no part in copies, external writes store enum values
    enum_var: bool,
}

#[derive(Clone, Debug)]
enum DeclKind {
    Elem,
    Array { lo: i64 },
    Struct,
}

/// One declaration of the generated source: an elementary variable, a one-dimensional array or a
/// structure of elementary fields; optionally `AT` a direct address.
#[derive(Clone, Debug)]
struct Decl {
    prog: Option<usize>,
    kind: DeclKind,
    /// first leaf and number of leaves
    first: usize,
    n: usize,
    /// the declared address as `IoAddress::parse` yields it; the size letter is arbitrary (the
    /// binding's size comes from the leaf type)
    at: Option<Ad>,
    /// DINT initial value (used for the fault triggers)
    init: i32,
    /// literal type name for the witness cases
    type_override: Option<String>,
}

const ENUM_TYPE: &str = "TYPE Color : (Red, Green, Blue); END_TYPE\n";

#[derive(Clone, Debug)]
enum Stmt {
    Copy(usize, usize),
    DivBy(usize, usize),
    Stamp(usize, usize),
}

#[derive(Clone, Debug)]
struct RtCase {
    vars: Vec<VarSpec>,
    decls: Vec<Decl>,
    progs: Vec<Vec<Stmt>>,
    /// task index per program (None = background)
    prog_task: Vec<Option<usize>>,
    /// priority per task (distinct)
    prio: Vec<u32>,
    ndrivers: usize,
    sizes: [usize; 3],
    debug: bool,
    /// trigger variable of each program's division
    fz: Vec<usize>,
    extra_types: String,
}

impl RtCase {
    /// Adds a declaration with its leaves; returns the id of the first leaf.
    fn add_decl(
        &mut self,
        prog: Option<usize>,
        kind: DeclKind,
        leaf_tys: &[Ty],
        at: Option<Ad>,
        init: i32,
        sink_only: bool,
    ) -> usize {
        let first = self.vars.len();
        let d = self.decls.len();
        for (k, ty) in leaf_tys.iter().enumerate() {
            let access = match &kind {
                DeclKind::Elem => Access::Plain,
                DeclKind::Array { lo } => Access::Index(lo + k as i64),
                DeclKind::Struct => Access::Field(k),
            };
            self.vars.push(VarSpec { prog, ty: *ty, decl: d, access, sink_only, enum_var: false });
        }
        self.decls.push(Decl { prog, kind, first, n: leaf_tys.len(), at, init, type_override: None });
        first
    }
    fn is_bound(&self, i: usize) -> bool {
        self.decls[self.vars[i].decl].at.is_some()
    }
    fn nbindings(&self) -> usize {
        self.decls.iter().filter(|d| d.at.is_some()).map(|d| d.n).sum()
    }
}

fn decl_name(d: &Decl) -> String {
    match d.prog {
        None => format!("g{}", d.first),
        Some(_) => format!("l{}", d.first),
    }
}

/// ST access path of a leaf.
fn var_name(c: &RtCase, i: usize) -> String {
    let d = &c.decls[c.vars[i].decl];
    match &c.vars[i].access {
        Access::Plain => decl_name(d),
        Access::Index(k) => format!("{}[{k}]", decl_name(d)),
        Access::Field(j) => format!("{}.f{j}", decl_name(d)),
    }
}

fn decl_type(c: &RtCase, d: &Decl) -> String {
    if let Some(t) = &d.type_override {
        return t.clone();
    }
    match &d.kind {
        DeclKind::Elem => c.vars[d.first].ty.st().to_string(),
        DeclKind::Array { lo } => format!(
            "ARRAY[{}..{}] OF {}",
            lo,
            lo + d.n as i64 - 1,
            c.vars[d.first].ty.st()
        ),
        DeclKind::Struct => format!("S{}", d.first),
    }
}

/// Shape token for the model: `e:<ty>` | `a:<len>:<ty>` | `s:<ty>,<ty>,…`.
fn shape_tok(c: &RtCase, d: &Decl) -> String {
    match &d.kind {
        DeclKind::Elem => format!("e:{}", c.vars[d.first].ty.tok()),
        DeclKind::Array { .. } => format!("a:{}:{}", d.n, c.vars[d.first].ty.tok()),
        DeclKind::Struct => format!(
            "s:{}",
            join((0..d.n).map(|k| c.vars[d.first + k].ty.tok()), ",")
        ),
    }
}

fn render_rt(c: &RtCase) -> String {
    let mut s = String::new();
    s.push_str(&c.extra_types);
    for d in &c.decls {
        if matches!(d.kind, DeclKind::Struct) {
            s.push_str(&format!("TYPE S{} :\nSTRUCT\n", d.first));
            for k in 0..d.n {
                s.push_str(&format!("    f{k} : {};\n", c.vars[d.first + k].ty.st()));
            }
            s.push_str("END_STRUCT\nEND_TYPE\n");
        }
    }
    s.push_str("CONFIGURATION C\nVAR_GLOBAL\n");
    let decl = |d: &Decl| -> String {
        let ty = decl_type(c, d);
        match &d.at {
            Some(a) => format!("    {} AT {} : {};\n", decl_name(d), a.text().expect("text"), ty),
            None if d.init != 0 => format!("    {} : {} := {};\n", decl_name(d), ty, d.init),
            None => format!("    {} : {};\n", decl_name(d), ty),
        }
    };
    for d in &c.decls {
        if d.prog.is_none() {
            s.push_str(&decl(d));
        }
    }
    s.push_str("END_VAR\n");
    for (t, p) in c.prio.iter().enumerate() {
        s.push_str(&format!("TASK T{t} (INTERVAL := T#10ms, PRIORITY := {p});\n"));
    }
    for (p, t) in c.prog_task.iter().enumerate() {
        match t {
            Some(t) => s.push_str(&format!("PROGRAM I{p} WITH T{t} : Prog{p};\n")),
            None => s.push_str(&format!("PROGRAM I{p} : Prog{p};\n")),
        }
    }
    s.push_str("END_CONFIGURATION\n\n");
    for (p, body) in c.progs.iter().enumerate() {
        s.push_str(&format!("PROGRAM Prog{p}\nVAR_EXTERNAL\n"));
        for d in &c.decls {
            if d.prog.is_none() {
                s.push_str(&format!("    {} : {};\n", decl_name(d), decl_type(c, d)));
            }
        }
        s.push_str("END_VAR\nVAR\n");
        for d in &c.decls {
            if d.prog == Some(p) {
                s.push_str(&decl(d));
            }
        }
        s.push_str("END_VAR\n");
        for st in body {
            match st {
                Stmt::Copy(d, src) => s.push_str(&format!("{} := {};\n", var_name(c, *d), var_name(c, *src))),
                Stmt::DivBy(d, v) => s.push_str(&format!("{} := 100 / {};\n", var_name(c, *d), var_name(c, *v))),
                Stmt::Stamp(seq, d) => s.push_str(&format!(
                    "{0} := {0} + 1;\n{1} := {0};\n",
                    var_name(c, *seq),
                    var_name(c, *d)
                )),
            }
        }
        s.push_str("END_PROGRAM\n\n");
    }
    s
}

fn gen_rt(rng: &mut Rng) -> RtCase {
    let nprogs = 1 + rng.below(4) as usize;
    let ntasks = rng.below(4) as usize;
    let mut prio: Vec<u32> = (0..ntasks as u32).collect();
    // random permutation of distinct priorities
    for i in (1..prio.len()).rev() {
        let j = rng.below(i as u64 + 1) as usize;
        prio.swap(i, j);
    }
    let prog_task: Vec<Option<usize>> = (0..nprogs)
        .map(|_| {
            if ntasks > 0 && rng.chance(2, 3) {
                Some(rng.below(ntasks as u64) as usize)
            } else {
                None
            }
        })
        .collect();
    let sizes = [
        1 + rng.below(10) as usize,
        rng.below(11) as usize,
        rng.below(7) as usize,
    ];
    let span = 2 + rng.below(9) as u32;
    let mut c = RtCase {
        vars: Vec::new(),
        decls: Vec::new(),
        progs: Vec::new(),
        prog_task,
        prio,
        ndrivers: rng.below(4) as usize,
        sizes,
        debug: rng.chance(1, 3),
        fz: Vec::new(),
        extra_types: String::new(),
    };
    // 0: seq
    c.add_decl(None, DeclKind::Elem, &[Ty::DInt], None, 0, true);
    let mut stamp = Vec::new();
    let mut fq = Vec::new();
    for p in 0..nprogs {
        let z = c.add_decl(None, DeclKind::Elem, &[Ty::DInt], None, 1, true);
        c.fz.push(z);
        stamp.push(c.add_decl(Some(p), DeclKind::Elem, &[Ty::DInt], None, 0, true));
        fq.push(c.add_decl(Some(p), DeclKind::Elem, &[Ty::DInt], None, 0, true));
    }
    let nspecial = c.vars.len();
    // a small palette of types so that same-typed copies are frequent
    let npal = 1 + rng.below(4) as usize;
    let palette: Vec<Ty> = (0..npal).map(|_| *rng.pick(&BINDABLE)).collect();
    let nbound = 3 + rng.below(8) as usize;
    for _ in 0..nbound {
        let area = *rng.pick(&[Ar::I, Ar::I, Ar::Q, Ar::Q, Ar::M]);
        let prog = if rng.bool() { None } else { Some(rng.below(nprogs as u64) as usize) };
        let (kind, tys): (DeclKind, Vec<Ty>) = match rng.below(10) {
            0 | 1 => {
                let ty = *rng.pick(&palette);
                let len = 1 + rng.below(4) as usize;
                (DeclKind::Array { lo: rng.range(-1, 2) }, vec![ty; len])
            }
            2 => {
                let nf = 2 + rng.below(3) as usize;
                (DeclKind::Struct, (0..nf).map(|_| *rng.pick(&palette)).collect())
            }
            _ => (DeclKind::Elem, vec![*rng.pick(&palette)]),
        };
        // the letter of the declaration is the leaf's own size most of the time, any size otherwise
        let letter = if rng.chance(3, 4) { tys[0].size() } else { gen_size(rng) };
        let byte = rng.below(u64::from(span)) as u32;
        let bit = if letter == Sz::X { rng.below(8) as u8 } else { 0 };
        let sink = area == Ar::Q && rng.chance(1, 4);
        if rng.chance(1, 8) {
            // an enumerated variable: the binding gets the base type INT, the variable holds
            // `Value::Enum` (until a latch of an %I/%M binding stores the bare integer: finding
            // C07-enum-input)
            if c.extra_types.is_empty() {
                c.extra_types.push_str(ENUM_TYPE);
            }
            let first = c.add_decl(prog, DeclKind::Elem, &[Ty::Int], Some(Ad::flat(area, letter, byte, bit)), 0, true);
            c.vars[first].enum_var = true;
            let d = c.vars[first].decl;
            c.decls[d].type_override = Some("Color".to_string());
            continue;
        }
        c.add_decl(prog, kind, &tys, Some(Ad::flat(area, letter, byte, bit)), 0, sink);
    }
    let nfree = 2 + rng.below(6) as usize;
    for _ in 0..nfree {
        let ty = *rng.pick(&palette);
        let prog = if rng.bool() { None } else { Some(rng.below(nprogs as u64) as usize) };
        c.add_decl(prog, DeclKind::Elem, &[ty], None, 0, false);
    }
    for p in 0..nprogs {
        let visible: Vec<usize> = (nspecial..c.vars.len())
            .filter(|i| (c.vars[*i].prog.is_none() || c.vars[*i].prog == Some(p)) && !c.vars[*i].enum_var)
            .collect();
        let mut body = vec![Stmt::Stamp(0, stamp[p])];
        let ncopies = rng.below(9) as usize;
        for _ in 0..ncopies {
            if visible.is_empty() {
                break;
            }
            let d = *rng.pick(&visible);
            let srcs: Vec<usize> = visible
                .iter()
                .copied()
                .filter(|s| *s != d && c.vars[*s].ty == c.vars[d].ty && !c.vars[*s].sink_only)
                .collect();
            if srcs.is_empty() {
                continue;
            }
            body.push(Stmt::Copy(d, *rng.pick(&srcs)));
        }
        let pos = 1 + rng.below(body.len() as u64) as usize;
        body.insert(pos.min(body.len()), Stmt::DivBy(fq[p], c.fz[p]));
        c.progs.push(body);
    }
    c
}

#[derive(Clone, Default)]
struct Script {
    pokes: Vec<(usize, u8)>,
    read_fail: bool,
    write_fail: bool,
}

#[derive(Default)]
struct Shared {
    log: Vec<String>,
    scripts: Vec<Script>,
    control: Option<DebugControl>,
}

impl Shared {
    /// Moves the runtime's own events (cycle/task start and end, fault) into the one ordered log.
    fn drain(&mut self) {
        if let Some(control) = &self.control {
            for ev in control.drain_runtime_events() {
                let tok = match ev {
                    RuntimeEvent::CycleStart { .. } => "cs".to_string(),
                    RuntimeEvent::CycleEnd { .. } => "ce".to_string(),
                    RuntimeEvent::TaskStart { name, .. } => format!("ts{}", &name.as_str()[1..]),
                    RuntimeEvent::TaskEnd { name, .. } => format!("te{}", &name.as_str()[1..]),
                    RuntimeEvent::TaskOverrun { .. } => continue,
                    RuntimeEvent::Fault { .. } => "f".to_string(),
                };
                self.log.push(tok);
            }
        }
    }
}

struct LogDriver {
    idx: usize,
    shared: Arc<Mutex<Shared>>,
}

impl IoDriver for LogDriver {
    fn read_inputs(&mut self, inputs: &mut [u8]) -> Result<(), RuntimeError> {
        let mut sh = self.shared.lock().expect("shared");
        sh.drain();
        sh.log.push(format!("r{}:{}", self.idx, hex(inputs)));
        let script = sh.scripts[self.idx].clone();
        for (off, b) in script.pokes {
            if off < inputs.len() {
                inputs[off] = b;
            }
        }
        if script.read_fail {
            Err(RuntimeError::IoDriver("scripted read failure".into()))
        } else {
            Ok(())
        }
    }

    fn write_outputs(&mut self, outputs: &[u8]) -> Result<(), RuntimeError> {
        let mut sh = self.shared.lock().expect("shared");
        sh.drain();
        sh.log.push(format!("w{}:{}", self.idx, hex(outputs)));
        if sh.scripts[self.idx].write_fail {
            Err(RuntimeError::IoDriver("scripted write failure".into()))
        } else {
            Ok(())
        }
    }
}

struct RtRun {
    h: TestHarness,
    ids: Vec<InstanceId>,
    shared: Arc<Mutex<Shared>>,
    control: Option<DebugControl>,
}

/// Reference to a leaf: the declaration's variable plus the index / field segment.
fn leaf_ref(run: &RtRun, c: &RtCase, i: usize) -> Option<ValueRef> {
    let d = &c.decls[c.vars[i].decl];
    let name = decl_name(d);
    let storage = run.h.runtime().storage();
    let mut r = match d.prog {
        None => storage.ref_for_global(&name),
        Some(p) => storage.ref_for_instance(run.ids[p], &name),
    }?;
    match &c.vars[i].access {
        Access::Plain => {}
        Access::Index(k) => r.path.push(RefSegment::Index(vec![*k])),
        Access::Field(j) => r.path.push(RefSegment::Field(format!("f{j}").into())),
    }
    Some(r)
}

fn get_var(run: &RtRun, c: &RtCase, i: usize) -> Option<Value> {
    let r = leaf_ref(run, c, i)?;
    run.h.runtime().storage().read_by_ref(r).cloned()
}

fn set_var(run: &mut RtRun, c: &RtCase, i: usize, v: Value) {
    let r = leaf_ref(run, c, i).expect("leaf reference");
    assert!(run.h.runtime_mut().storage_mut().write_by_ref(r, v), "leaf write");
}

fn dump_vars(run: &RtRun, c: &RtCase) -> String {
    join((0..c.vars.len()).map(|i| opt_val_tok(get_var(run, c, i).as_ref())), ",")
}

fn same_ref(a: &ValueRef, b: &ValueRef) -> bool {
    a.location == b.location
        && a.offset == b.offset
        && a.path.len() == b.path.len()
        && a.path.iter().zip(b.path.iter()).all(|(x, y)| match (x, y) {
            (RefSegment::Field(f), RefSegment::Field(g)) => f.eq_ignore_ascii_case(g),
            (x, y) => x == y,
        })
}

/// Canonical dump of the runtime's own binding list: `<var>@<addr>@<type>` in list order.
fn dump_bindings(run: &RtRun, c: &RtCase) -> String {
    let leaf_refs: Vec<Option<ValueRef>> = (0..c.vars.len()).map(|i| leaf_ref(run, c, i)).collect();
    let mut items = Vec::new();
    for b in run.h.runtime().io().bindings() {
        let var = match &b.target {
            IoTarget::Name(n) => format!("name:{n}"),
            IoTarget::Reference(r) => {
                match leaf_refs.iter().position(|c| c.as_ref().map(|c| same_ref(c, r)).unwrap_or(false)) {
                    Some(i) => format!("{i}"),
                    None => format!("unknown-ref:{:?}", r.path.len()),
                }
            }
        };
        let ty = match b.value_type {
            None => "none".to_string(),
            Some(id) => Ty::from_id(id).map(|t| t.tok().to_string()).unwrap_or_else(|| "other".into()),
        };
        items.push(format!("{var}@{}@{ty}", from_io_address(&b.address).tok()));
    }
    if items.is_empty() {
        "-".into()
    } else {
        items.join(",")
    }
}

/// The AT declarations in the order `harness/config.rs` registers their bindings: globals in
/// declaration order, then the programs' variables in program order.
fn at_decls(c: &RtCase) -> Vec<usize> {
    let mut order = Vec::new();
    for (k, d) in c.decls.iter().enumerate() {
        if d.prog.is_none() && d.at.is_some() {
            order.push(k);
        }
    }
    for p in 0..c.progs.len() {
        for (k, d) in c.decls.iter().enumerate() {
            if d.prog == Some(p) && d.at.is_some() {
                order.push(k);
            }
        }
    }
    order
}

fn start_rt(c: &RtCase) -> Result<RtRun, String> {
    let source = render_rt(c);
    let mut h = TestHarness::from_source(&source).map_err(|e| format!("compile: {e}\n{source}"))?;
    let control = if c.debug { Some(h.runtime_mut().enable_debug()) } else { None };
    if let Some(control) = &control {
        let _ = control.drain_runtime_events();
    }
    let ids: Vec<InstanceId> = (0..c.progs.len())
        .map(|p| match h.runtime().storage().get_global(&format!("I{p}")) {
            Some(Value::Instance(id)) => Ok(*id),
            other => Err(format!("program instance I{p}: {other:?}")),
        })
        .collect::<Result<_, _>>()?;
    let shared = Arc::new(Mutex::new(Shared {
        log: Vec::new(),
        scripts: vec![Script::default(); c.ndrivers],
        control: control.clone(),
    }));
    for d in 0..c.ndrivers {
        h.runtime_mut().add_io_driver(
            format!("log{d}"),
            Box::new(LogDriver { idx: d, shared: shared.clone() }),
        );
    }
    h.runtime_mut().io_mut().resize(c.sizes[0], c.sizes[1], c.sizes[2]);
    Ok(RtRun { h, ids, shared, control })
}

fn emit_rt_header(n: u64, c: &RtCase, run: &RtRun, out: &mut Out) {
    out.line(format!("case {n}"));
    out.line("kind rt");
    out.line(format!("debug {}", u8::from(c.debug)));
    out.line(format!("nvars {}", c.vars.len()));
    for i in 0..c.vars.len() {
        // the initial value is what the compiled runtime holds (the declared default)
        out.line(format!("var {i} {}", opt_val_tok(get_var(run, c, i).as_ref())));
    }
    // the AT declarations: the model derives the bindings (collect_io_bindings / offset_address)
    for k in at_decls(c) {
        let d = &c.decls[k];
        out.line(format!("at {} {} {}", d.first, d.at.as_ref().expect("at").tok(), shape_tok(c, d)));
        match d.kind {
            DeclKind::Elem => out.count("rt_at_elem"),
            DeclKind::Array { .. } => out.count("rt_at_array"),
            DeclKind::Struct => out.count("rt_at_struct"),
        }
        if d.at.as_ref().map(|a| a.size) != Some(c.vars[d.first].ty.size()) {
            out.count("rt_at_letter_differs");
        }
    }
    out.line("bindings");
    out.line(format!("impl {}", dump_bindings(run, c)));
    for (p, body) in c.progs.iter().enumerate() {
        let toks: Vec<String> = body
            .iter()
            .map(|s| match s {
                Stmt::Copy(d, s) => format!("c:{d}:{s}"),
                Stmt::DivBy(d, v) => format!("d:{d}:{v}"),
                Stmt::Stamp(s, d) => format!("s:{s}:{d}"),
            })
            .collect();
        out.line(format!("prog {p} {}", toks.join(" ")));
    }
    // tasks in execution order: every task is due with the same due time, so the scheduler's key
    // (priority, due, index) orders them by priority (distinct)
    let mut order: Vec<usize> = (0..c.prio.len()).collect();
    order.sort_by_key(|t| c.prio[*t]);
    for t in order {
        let ps: Vec<usize> = c
            .prog_task
            .iter()
            .enumerate()
            .filter(|(_, pt)| **pt == Some(t))
            .map(|(p, _)| p)
            .collect();
        out.line(format!("task {t} {}", join(ps.iter(), " ")));
    }
    let bg: Vec<usize> = c
        .prog_task
        .iter()
        .enumerate()
        .filter(|(_, pt)| pt.is_none())
        .map(|(p, _)| p)
        .collect();
    out.line(format!("bg {}", join(bg.iter(), " ")));
    out.line(format!("drivers {}", c.ndrivers));
    out.line(format!("resize {} {} {}", c.sizes[0], c.sizes[1], c.sizes[2]));
}

/// Runs one cycle: advances the clock (`full`: every task is due; `idle`: none is), executes,
/// returns the `impl` line.
fn do_cycle(run: &mut RtRun, c: &RtCase, full: bool) -> (String, bool) {
    run.h
        .advance_time(Duration::from_millis(if full { 10 } else { 0 }));
    run.shared.lock().expect("shared").log.clear();
    if let Some(control) = &run.control {
        let _ = control.drain_runtime_events();
    }
    let res = match silent_catch(|| run.h.cycle()) {
        Ok(res) => res,
        // a panic is an observable; the runtime is abandoned afterwards
        Err(()) => return ("impl panic".to_string(), false),
    };
    let mut sh = match run.shared.lock() {
        Ok(sh) => sh,
        Err(_) => return ("impl panic".to_string(), false),
    };
    sh.drain();
    let log = if sh.log.is_empty() { "-".to_string() } else { sh.log.join(";") };
    drop(sh);
    let ok = res.errors.is_empty();
    let res_tok = if ok {
        "ok".to_string()
    } else {
        format!("err:{}", join(res.errors.iter().map(err_tok), "+"))
    };
    (
        format!(
            "impl res={res_tok} log={log} vars={} {}",
            dump_vars(run, c),
            images(run.h.runtime().io())
        ),
        ok,
    )
}

fn run_rt(n: u64, rng: &mut Rng, cycles: usize, out: &mut Out) -> Result<(), String> {
    let c = gen_rt(rng);
    let mut run = start_rt(&c)?;
    emit_rt_header(n, &c, &run, out);
    let span = (c.sizes[0].max(c.sizes[1]).max(c.sizes[2]) as u32 + 2).max(3);
    let mut prev_ok = false;
    let mut any_fault = false;
    let mut multi = false;
    let mut forced: Vec<Ad> = Vec::new();
    let special: Vec<usize> = {
        let mut sp = vec![0usize];
        for st in c.progs.iter().flatten() {
            match st {
                Stmt::DivBy(d, v) => sp.extend([*d, *v]),
                Stmt::Stamp(s, d) => sp.extend([*s, *d]),
                Stmt::Copy(..) => {}
            }
        }
        sp
    };
    let ext_targets: Vec<usize> = (0..c.vars.len()).filter(|i| !special.contains(i)).collect();
    let fault_cycle = if rng.chance(1, 2) { Some(rng.below(cycles as u64) as usize) } else { None };
    let mut faulted = false;
    for cy in 0..cycles {
        if faulted {
            if rng.chance(2, 3) {
                run.h.runtime_mut().clear_fault();
                out.line("clearfault");
                faulted = false;
            }
        }
        // driver scripts
        for d in 0..c.ndrivers {
            let mut sc = Script::default();
            let npokes = rng.below(2 * c.sizes[0] as u64 + 2) as usize;
            for _ in 0..npokes {
                sc.pokes.push((rng.below(c.sizes[0] as u64 + 2) as usize, rng.next() as u8));
            }
            sc.read_fail = rng.chance(1, 60);
            sc.write_fail = rng.chance(1, 60);
            out.line(format!(
                "din {d} {} {} {}",
                u8::from(sc.read_fail),
                u8::from(sc.write_fail),
                if sc.pokes.is_empty() {
                    "-".to_string()
                } else {
                    join(sc.pokes.iter().map(|(o, b)| format!("{o}:{b}")), ",")
                }
            ));
            run.shared.lock().expect("shared").scripts[d] = sc;
        }
        // external writes to variables (an operator panel, a test bench …)
        let next = rng.below(4);
        for _ in 0..next {
            if ext_targets.is_empty() {
                break;
            }
            let i = *rng.pick(&ext_targets);
            let wrong = c.vars[i].sink_only && c.is_bound(i) && rng.chance(1, 6);
            let v = if wrong {
                gen_other_value(rng, c.vars[i].ty)
            } else if c.vars[i].enum_var {
                out.count("rt_enum_ext");
                gen_enum_value(rng)
            } else {
                gen_value(rng, c.vars[i].ty)
            };
            if wrong {
                out.count("rt_wrong_kind_ext");
            }
            set_var(&mut run, &c, i, v.clone());
            out.line(format!("ext {i} {}", val_tok(&v)));
        }
        // the fault trigger
        if Some(cy) == fault_cycle {
            let p = rng.below(c.progs.len() as u64) as usize;
            set_var(&mut run, &c, c.fz[p], Value::DInt(0));
            out.line(format!("ext {} dint:0", c.fz[p]));
        } else if fault_cycle.map(|f| cy == f + 1).unwrap_or(false) {
            for p in 0..c.progs.len() {
                set_var(&mut run, &c, c.fz[p], Value::DInt(1));
                out.line(format!("ext {} dint:1", c.fz[p]));
            }
        }
        // debugger requests
        if let Some(control) = &run.control {
            let nq = rng.below(3);
            for _ in 0..nq {
                let ad = gen_flat(rng, span);
                let v = if rng.chance(24, 25) { value_for_size(rng, ad.size) } else { gen_any_value(rng) };
                control.enqueue_io_write(ad.real(out), v.clone());
                out.line(format!("qio {} {}", ad.tok(), val_tok(&v)));
                out.count("rt_qio");
            }
            if rng.chance(1, 3) {
                let ad = if !forced.is_empty() && rng.chance(1, 3) {
                    rng.pick(&forced).clone()
                } else {
                    gen_flat(rng, span)
                };
                let v = if rng.chance(29, 30) { value_for_size(rng, ad.size) } else { gen_any_value(rng) };
                control.force_io(ad.real(out), v.clone());
                out.line(format!("force {} {}", ad.tok(), val_tok(&v)));
                if !forced.contains(&ad) {
                    forced.push(ad);
                }
                out.count("rt_force");
            }
            if !forced.is_empty() && rng.chance(1, 3) {
                let k = rng.below(forced.len() as u64) as usize;
                let ad = forced.remove(k);
                control.release_io(&ad.real(out));
                out.line(format!("release {}", ad.tok()));
            }
        }
        // idle cycles only directly after a successful one (see BUILDING notes in checks/c07.py)
        let full = !(prev_ok && rng.chance(1, 4));
        out.line(format!("cycle {}", if full { "full" } else { "idle" }));
        let (ans, ok) = do_cycle(&mut run, &c, full);
        out.line(&ans);
        if ans == "impl panic" {
            out.count("rt_panic");
            break;
        }
        out.count("rt_cycles");
        out.count(if ok { "rt_cycle_ok" } else { "rt_cycle_err" });
        if !ok {
            let class = ans.split_whitespace().nth(1).unwrap_or("").replace("res=err:", "rt_err_");
            out.count(&class);
        }
        if !ok {
            any_fault = true;
            faulted = true;
        }
        prev_ok = ok;
        if ok && full && c.prog_task.iter().filter(|t| t.is_some()).count() >= 1 && c.progs.len() >= 2 {
            multi = true;
        }
    }
    let nb = c.nbindings();
    if multi && nb >= 3 && c.ndrivers >= 1 {
        out.line("tag nontrivial");
    }
    if any_fault {
        out.line("tag faulted");
    }
    if c.debug {
        out.line("tag debugger");
    }
    out.line(format!("tag drivers{}", c.ndrivers));
    out.line("tag rt");
    out.line("end");
    Ok(())
}

// ------------------------------------------------------------------------------------------------
// witnesses of recorded findings (see known_findings.json)
// ------------------------------------------------------------------------------------------------

/// The witnesses of the recorded findings, in the order of their case numbers after the generated
/// cases.
const WITNESSES: [&str; 3] = ["time-input", "enum-output", "enum-input"];

/// One bound variable of a type the compiler accepts for AT: a TIME input (repaired finding
/// C07-time-input), an enum output (repaired finding C07-enum-output), an enum input (open finding
/// C07-enum-input).
fn witness_case(kind: &str) -> RtCase {
    let mut c = RtCase {
        vars: Vec::new(),
        decls: Vec::new(),
        progs: Vec::new(),
        prog_task: vec![None],
        prio: vec![],
        ndrivers: 1,
        sizes: [4, 4, 0],
        debug: false,
        fz: vec![1],
        extra_types: String::new(),
    };
    c.add_decl(None, DeclKind::Elem, &[Ty::DInt], None, 0, true); // 0 seq
    c.add_decl(None, DeclKind::Elem, &[Ty::DInt], None, 1, true); // 1 fz
    c.add_decl(Some(0), DeclKind::Elem, &[Ty::DInt], None, 0, true); // 2 stamp
    c.add_decl(Some(0), DeclKind::Elem, &[Ty::DInt], None, 0, true); // 3 fq
    match kind {
        "time-input" => {
            // `l4 AT %ID0 : TIME`
            c.add_decl(Some(0), DeclKind::Elem, &[Ty::Time], Some(Ad::flat(Ar::I, Sz::D, 0, 0)), 0, true);
        }
        _ => {
            // `l4 AT %QW0 : Color` / `l4 AT %IW0 : Color` — leaf_value_type says INT, the variable
            // holds Value::Enum
            let area = if kind == "enum-output" { Ar::Q } else { Ar::I };
            c.extra_types.push_str(ENUM_TYPE);
            c.add_decl(Some(0), DeclKind::Elem, &[Ty::Int], Some(Ad::flat(area, Sz::W, 0, 0)), 0, true);
            c.vars[4].enum_var = true;
            c.decls[4].type_override = Some("Color".to_string());
        }
    }
    c.progs.push(vec![Stmt::Stamp(0, 2), Stmt::DivBy(3, 1)]);
    c
}

fn run_witness(n: u64, kind: &str, out: &mut Out) -> Result<(), String> {
    let c = witness_case(kind);
    let mut run = match start_rt(&c) {
        Ok(run) => run,
        Err(e) if e.starts_with("compile:") => {
            // the compiler refuses the declaration (the check decides what that means)
            out.line(format!("case {n}"));
            out.line("kind rt");
            out.line(format!("tag finding-{kind}"));
            out.line("tag compile-refused");
            out.line("end");
            return Ok(());
        }
        Err(e) => return Err(e),
    };
    emit_rt_header(n, &c, &run, out);
    // the driver delivers 263 = 0x0107 (TIME: T#263ms); for the enum input 1 (Green)
    let pokes: Vec<(usize, u8)> = if kind == "enum-input" { vec![(0, 1)] } else { vec![(0, 7), (1, 1)] };
    out.line(format!("din 0 0 0 {}", join(pokes.iter().map(|(o, b)| format!("{o}:{b}")), ",")));
    run.shared.lock().expect("shared").scripts[0] = Script { pokes, read_fail: false, write_fail: false };
    if kind == "enum-output" {
        // the operator panel selects Blue
        set_var(&mut run, &c, 4, enum_value(2));
        out.line("ext 4 enum:2");
    }
    out.line("cycle full");
    let (ans, _) = do_cycle(&mut run, &c, true);
    out.line(ans);
    out.line(format!("tag finding-{kind}"));
    out.line("tag rt");
    out.line("end");
    Ok(())
}

// ------------------------------------------------------------------------------------------------

pub fn run(args: &Args) -> i32 {
    // panics inside catch_unwind are observables, not noise
    std::panic::set_hook(Box::new(|_| {}));
    let mut out = Out::new();
    let cycles = args.extra_usize("cycles", 8);
    let raw_ops = args.extra_usize("rawops", 60);
    if let Some(p) = args.extra.get("probe") {
        return probe(p);
    }
    for n in args.case_numbers() {
        let mut rng = Rng::for_case(args.seed, n);
        // witnesses of the recorded findings occupy the case numbers after the generated ones
        if n >= args.cases {
            let kind = WITNESSES[((n - args.cases) as usize).min(WITNESSES.len() - 1)];
            if let Err(e) = run_witness(n, kind, &mut out) {
                eprintln!("witness {kind}: {e}");
                return 3;
            }
            continue;
        }
        match n % 8 {
            0 | 1 => run_raw(n, &mut rng, raw_ops, &mut out),
            2 if (n / 8) % 2 == 1 => run_sweep(n, &mut rng, &mut out),
            2 => run_bind(n, &mut rng, &mut out),
            3 => run_pa(n, &mut rng, raw_ops, &mut out),
            _ => {
                if let Err(e) = run_rt(n, &mut rng, cycles, &mut out) {
                    eprintln!("case {n}: {e}");
                    return 3;
                }
            }
        }
        out.count("cases");
    }
    if args.only.is_none() {
        for (k, kind) in WITNESSES.iter().enumerate() {
            if let Err(e) = run_witness(args.cases + k as u64, kind, &mut out) {
                eprintln!("witness {kind}: {e}");
                return 3;
            }
        }
    }
    out.finish(&args.out);
    0
}

fn probe(path: &str) -> i32 {
    let src = std::fs::read_to_string(path).expect("probe file");
    match TestHarness::from_source(&src) {
        Err(e) => println!("compile error: {e}"),
        Ok(mut h) => {
            for b in h.runtime().io().bindings() {
                println!("binding {} {:?} {:?}", from_io_address(&b.address).tok(), b.value_type, b.display_name);
            }
            h.runtime_mut().io_mut().resize(8, 8, 8);
            let mut inputs = [1u8, 2, 3, 4, 5, 6, 7, 8];
            if let Ok(text) = std::env::var("PROBE_INPUTS") {
                for (k, b) in text.split(',').filter_map(|b| b.trim().parse::<u8>().ok()).take(8).enumerate() {
                    inputs[k] = b;
                }
            }
            h.runtime_mut().io_mut().inputs_mut().copy_from_slice(&inputs);
            for c in 0..3 {
                h.advance_time(Duration::from_millis(10));
                let r = h.cycle();
                println!("cycle {c}: errors={:?} {}", r.errors, images(h.runtime().io()));
                for (k, v) in h.runtime().storage().globals() {
                    println!("  g {k} = {v:?}");
                }
                for (id, inst) in h.runtime().storage().instances() {
                    for (k, v) in inst.variables.iter() {
                        println!("  i{id:?}.{k} = {v:?}");
                    }
                }
            }
        }
    }
    0
}
