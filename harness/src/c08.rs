//! C08 — fault latch, fault policy and safe state.
//!
//! A case is a generated CONFIGURATION (0-3 periodic tasks, 1-4 programs made of counted
//! statements that can fault at a chosen activation: division by zero directly / inside a FUNCTION /
//! inside a FUNCTION_BLOCK, array index out of bounds), global variables bound to %I/%Q/%M
//! addresses of every size, 0-3 logging `IoDriver`s with scripted read/write failures, an optional
//! scripted `RetainStore`, and a history of operations through the public `Runtime` API:
//! cycles, clock advances, `watchdog_timeout()`, `simulation_fault()`, policy / watchdog / safe-state
//! updates, queued debug I/O writes (well- and ill-typed), restarts and `clear_fault()`.
//!
//! After every operation the harness records: the returned error, the merged order of driver calls
//! (with the image bytes each `write_outputs` received) and the runtime's CycleStart/Fault/CycleEnd
//! events, `faulted()`, `last_fault()`, the statement counter, which programs ran and how many
//! statements each executed, the three images, the read-back of every configured safe-state
//! address, the cycle counter, and (for cycle requests) whether ANYTHING observable changed.

use crate::rng::Rng;
use crate::util::{hex, join, Out};
use crate::Args;
use std::sync::atomic::{AtomicUsize, Ordering};
use std::sync::{Arc, Condvar, Mutex};
use trust_hir::TypeId;
use trust_runtime::debug::{DebugControl, RuntimeEvent};
use trust_runtime::error::RuntimeError;
use trust_runtime::harness::TestHarness;
use trust_runtime::io::{IoAddress, IoDriver, IoSafeState, IoSize, IoTarget};
use trust_runtime::memory::IoArea;
use trust_runtime::retain::RetainStore;
use trust_runtime::scheduler::{Clock, ResourceRunner, ResourceState};
use trust_runtime::RetainSnapshot;
use trust_runtime::value::{Duration, Value};
use trust_runtime::watchdog::{FaultPolicy, WatchdogAction, WatchdogPolicy};
use trust_runtime::RestartMode;

const MS: i64 = 1_000_000;

// ------------------------------------------------------------------------------------------
// case description
// ------------------------------------------------------------------------------------------

#[derive(Clone, Debug, PartialEq)]
pub enum Stmt {
    Tick,
    Set(usize, i64),
    Copy(usize, usize),
    /// fire at activation `c`; kind 0 = direct division, 1 = inside a FUNCTION, 2 = inside a
    /// FUNCTION_BLOCK (which calls the FUNCTION), 3 = array index out of bounds
    Trap(u32, u8),
}

#[derive(Clone, Debug, Default)]
pub struct Prog {
    pub task: Option<usize>,
    pub body: Vec<Stmt>,
    /// the program declares `gain : DINT := 100 / divisor;` (divisor: RETAIN global): its instance
    /// cannot be re-created by a warm restart while divisor = 0
    pub init_div: bool,
    /// function block instances `u<j>` of the program associated with a task (`(u<j> WITH T<t>)`)
    pub fbs: Vec<FbSpec>,
}

#[derive(Clone, Debug)]
pub struct FbSpec {
    pub task: usize,
    pub body: Vec<Stmt>,
}

#[derive(Clone, Debug)]
pub struct TaskSpec {
    pub interval_ms: i64,
    pub priority: u32,
}

#[derive(Clone, Debug, Default)]
pub struct DrvScript {
    pub read_fail: Vec<usize>,
    pub write_fail: Vec<usize>,
}

#[derive(Clone, Debug)]
pub enum OpSpec {
    Policy(FaultPolicy),
    Wd(WatchdogAction),
    Safe(Vec<(IoAddress, Value)>),
    Dbg(IoAddress, Value),
    Force(IoAddress, Value),
    Release(IoAddress),
    /// debugger variable writes; the target is a global (`var < 100`) or the activation counter `n`
    /// of program `var - 100`
    VarWrite { var: usize, v: i64, by_instance_id: bool },
    LvalWrite { var: usize, v: i64 },
    ForceVar { var: usize, v: i64 },
    ReleaseVar { var: usize },
    Adv(i64),
    Cycle,
    Watchdog,
    SimFault,
    Restart(RestartMode),
    Clear,
}

#[derive(Clone, Debug)]
pub struct Case {
    pub tasks: Vec<TaskSpec>,
    pub progs: Vec<Prog>,
    pub drivers: Vec<DrvScript>,
    pub retain: Option<Vec<usize>>,
    pub pubtrap: bool,
    /// `IoInterface::resize(inputs, outputs, memory)` before the first cycle (None = leave empty)
    pub resize: Option<(usize, usize, usize)>,
    /// clock values (ns) at which the cycle runs with an execution deadline in the past
    pub expired_at: Vec<i64>,
    pub ops: Vec<OpSpec>,
    /// after the history, hand the runtime to a `ResourceRunner` thread
    pub runloop: Option<RunLoop>,
}

#[derive(Clone, Debug)]
pub struct RunLoop {
    pub interval_ms: i64,
    pub wd_enabled: bool,
    /// watchdog timeout of 1 ns (every cycle exceeds it) instead of one hour (none does)
    pub over: bool,
    /// iterations after which the clock blocks the thread until it is told to stop
    pub budget: u64,
    /// attach a simulation controller whose coupling source cannot be read: `apply_post_cycle`
    /// fails after every successful cycle
    pub sim_fails: bool,
}

/// The global variables of every generated configuration: (name, IEC type, AT address or "").
const VARS: [(&str, &str, &str); 10] = [
    ("i0", "BYTE", "%IB0"),
    ("i1", "BYTE", "%IB1"),
    ("o0", "BYTE", "%QB0"),
    ("o1", "WORD", "%QW2"),
    ("o2", "BOOL", "%QX1.3"),
    ("o3", "DWORD", "%QD4"),
    ("o4", "LWORD", "%QL8"),
    ("m0", "BYTE", "%MB0"),
    ("pv", "INT", ""),
    ("divisor", "DINT", ""),
];
const PV: usize = 8;
const DIVISOR: usize = 9;
const PV_ADDR: &str = "%QB16";

fn var_index(name: &str) -> Option<usize> {
    VARS.iter().position(|(n, _, _)| n.eq_ignore_ascii_case(name))
}

// ------------------------------------------------------------------------------------------
// generator
// ------------------------------------------------------------------------------------------

fn gen_value_for(rng: &mut Rng, size: IoSize) -> Value {
    let pick64 = |rng: &mut Rng, max: u64| -> u64 {
        match rng.below(6) {
            0 => 0,
            1 => max,
            2 => 1,
            3 => max - 1,
            _ => {
                if max == u64::MAX {
                    rng.next()
                } else {
                    rng.next() % (max + 1)
                }
            }
        }
    };
    match size {
        IoSize::Bit => Value::Bool(rng.bool()),
        IoSize::Byte => Value::Byte(pick64(rng, 0xFF) as u8),
        IoSize::Word => Value::Word(pick64(rng, 0xFFFF) as u16),
        IoSize::DWord => Value::DWord(pick64(rng, 0xFFFF_FFFF) as u32),
        IoSize::LWord => Value::LWord(pick64(rng, u64::MAX)),
    }
}

fn gen_mismatched(rng: &mut Rng, size: IoSize) -> Value {
    let sizes = [IoSize::Bit, IoSize::Byte, IoSize::Word, IoSize::DWord, IoSize::LWord];
    if rng.chance(1, 4) {
        return Value::Int(rng.range(-300, 300) as i16);
    }
    loop {
        let s = *rng.pick(&sizes);
        if s != size {
            return gen_value_for(rng, s);
        }
    }
}

fn gen_addr(rng: &mut Rng, area_bias: IoArea) -> IoAddress {
    let area = match rng.below(100) {
        0..=84 => area_bias,
        85..=92 => IoArea::Memory,
        _ => {
            if area_bias == IoArea::Output {
                IoArea::Input
            } else {
                IoArea::Output
            }
        }
    };
    let size = *rng.pick(&[IoSize::Bit, IoSize::Byte, IoSize::Word, IoSize::DWord, IoSize::LWord]);
    let byte = *rng.pick(&[0u32, 0, 1, 1, 2, 3, 4, 5, 8, 9, 15, 16, 17, 23, 31, 40]);
    let bit = if size == IoSize::Bit { rng.below(8) as u8 } else { 0 };
    if rng.chance(1, 25) {
        return IoAddress { area, size, byte: 0, bit: 0, path: Vec::new(), wildcard: true };
    }
    if rng.chance(1, 12) {
        let mut path = vec![byte, rng.below(4) as u32];
        if rng.chance(1, 3) {
            path.push(rng.below(3) as u32);
        }
        return IoAddress { area, size, byte, bit, path, wildcard: false };
    }
    IoAddress { area, size, byte, bit, path: vec![byte], wildcard: false }
}

fn gen_safe(rng: &mut Rng) -> Vec<(IoAddress, Value)> {
    let n = match rng.below(10) {
        0 => 0,
        1..=3 => 1 + rng.below(2) as usize,
        _ => 2 + rng.below(5) as usize,
    };
    (0..n)
        .map(|_| {
            let a = gen_addr(rng, IoArea::Output);
            let v = if rng.chance(1, 7) { gen_mismatched(rng, a.size) } else { gen_value_for(rng, a.size) };
            (a, v)
        })
        .collect()
}

fn gen_set(rng: &mut Rng, allow_pv: bool) -> Stmt {
    // variables 2..=7 are program-writable (outputs and the memory byte); 8 = pv
    let var = if allow_pv && rng.chance(1, 3) { PV } else { 2 + rng.below(6) as usize };
    let v: i64 = match var {
        2 | 7 => rng.below(256) as i64,
        3 => *rng.pick(&[0i64, 1, 0x1234, 0xFFFF, 0x00FF, 0xFF00]),
        4 => rng.below(2) as i64,
        5 => *rng.pick(&[0i64, 1, 0xDEADBEEF, 0xFFFF_FFFF, 0x0102_0304]),
        6 => *rng.pick(&[0i64, 1, 0x0102_0304_0506_0708, i64::MAX, 0x00FF_00FF_00FF_00FF]),
        _ => *rng.pick(&[0i64, 1, -1, 127, -128, 128, -129, 200, -200]),
    };
    Stmt::Set(var, v)
}

/// A case whose history is short and ends in a `ResourceRunner` thread.
pub fn gen_runner_case(rng: &mut Rng) -> Case {
    let mut case = gen_case(rng);
    let keep = 3 + rng.below(4) as usize;
    case.ops.truncate(keep);
    case.expired_at.clear();
    case.runloop = Some(RunLoop {
        interval_ms: 10,
        wd_enabled: rng.chance(1, 2),
        over: rng.chance(1, 2),
        budget: 4 + rng.below(6),
        sim_fails: rng.chance(1, 3),
    });
    case
}

pub fn gen_case(rng: &mut Rng) -> Case {
    let ntasks = rng.below(4) as usize;
    let tasks: Vec<TaskSpec> = (0..ntasks)
        .map(|_| TaskSpec { interval_ms: *rng.pick(&[10i64, 10, 20, 30]), priority: rng.below(3) as u32 })
        .collect();
    let nprogs = 1 + rng.below(4) as usize;
    let pubtrap = rng.chance(1, 4);
    // how this case is going to fault (several may be chosen)
    let want_trap = rng.chance(1, 2);
    let gen_body = |rng: &mut Rng, max: u64| -> Vec<Stmt> {
        let len = 1 + rng.below(max) as usize;
        (0..len)
            .map(|_| match rng.below(10) {
                0..=2 => Stmt::Tick,
                3..=6 => gen_set(rng, pubtrap),
                _ => match rng.below(4) {
                    0 => Stmt::Copy(2, 0),
                    1 => Stmt::Copy(2, 1),
                    2 => Stmt::Copy(7, 0),
                    _ => Stmt::Copy(2, 7),
                },
            })
            .collect()
    };
    // restarts that fail half-way: some programs have an initialiser dividing by the RETAIN global
    // `divisor`, and somebody (a program statement or a debugger write) may set it to 0
    let want_init_div = rng.chance(2, 5);
    let mut progs: Vec<Prog> = (0..nprogs)
        .map(|_| {
            let task = if ntasks > 0 && rng.chance(3, 4) { Some(rng.below(ntasks as u64) as usize) } else { None };
            let body = gen_body(rng, 5);
            // function block instances associated with tasks (run after the task's programs)
            let nfb = if ntasks > 0 && rng.chance(2, 5) { 1 + rng.below(2) as usize } else { 0 };
            let fbs = (0..nfb)
                .map(|_| {
                    // mostly the program's own task (so the FB runs right after it), sometimes another
                    let t = match task {
                        Some(t) if rng.chance(2, 3) => t,
                        _ => rng.below(ntasks as u64) as usize,
                    };
                    let mut body = gen_body(rng, 3);
                    if rng.chance(1, 5) {
                        let pos = rng.below(body.len() as u64 + 1) as usize;
                        body.insert(pos, Stmt::Trap(1 + rng.below(6) as u32, *rng.pick(&[0u8, 1, 3])));
                    }
                    FbSpec { task: t, body }
                })
                .collect();
            Prog { task, body, init_div: want_init_div && rng.chance(1, 2), fbs }
        })
        .collect();
    if want_init_div {
        let p = rng.below(nprogs as u64) as usize;
        let pos = rng.below(progs[p].body.len() as u64 + 1) as usize;
        progs[p].body.insert(pos, Stmt::Set(DIVISOR, *rng.pick(&[0i64, 0, 4])));
    }
    if want_trap {
        let ntraps = 1 + rng.below(2) as usize;
        for _ in 0..ntraps {
            let p = rng.below(nprogs as u64) as usize;
            let pos = rng.below(progs[p].body.len() as u64 + 1) as usize;
            let trap = Stmt::Trap(1 + rng.below(7) as u32, rng.below(4) as u8);
            progs[p].body.insert(pos, trap);
        }
    }
    let ndrv = rng.below(4) as usize;
    let mut drivers: Vec<DrvScript> = (0..ndrv).map(|_| DrvScript::default()).collect();
    for d in drivers.iter_mut() {
        if rng.chance(1, 4) {
            d.read_fail.push(rng.below(9) as usize);
        }
        if rng.chance(1, 3) {
            d.write_fail.push(rng.below(10) as usize);
            if rng.chance(1, 3) {
                d.write_fail.push(rng.below(12) as usize);
            }
        }
        d.read_fail.sort();
        d.read_fail.dedup();
        d.write_fail.sort();
        d.write_fail.dedup();
    }
    let retain = if rng.chance(1, 4) {
        let mut f = Vec::new();
        if rng.chance(2, 3) {
            f.push(rng.below(5) as usize);
        }
        Some(f)
    } else {
        None
    };
    // history
    let mut ops = Vec::new();
    let policies = [FaultPolicy::Halt, FaultPolicy::SafeHalt, FaultPolicy::SafeHalt, FaultPolicy::Restart];
    let actions = [WatchdogAction::Halt, WatchdogAction::SafeHalt, WatchdogAction::Restart];
    if rng.chance(5, 6) {
        ops.push(OpSpec::Policy(*rng.pick(&policies)));
    }
    if rng.chance(2, 3) {
        ops.push(OpSpec::Wd(*rng.pick(&actions)));
    }
    if rng.chance(9, 10) {
        ops.push(OpSpec::Safe(gen_safe(rng)));
    }
    let len = 12 + rng.below(12) as usize;
    let mut forced: Vec<IoAddress> = Vec::new();
    let mut clock = 0i64;
    let mut expired_at = Vec::new();
    for _ in 0..len {
        if rng.chance(4, 5) {
            let dt = *rng.pick(&[10i64, 10, 10, 10, 0, 5, 20, 30]) * MS;
            clock += dt;
            ops.push(OpSpec::Adv(dt));
        }
        if rng.chance(1, 40) {
            // (the clock restarts at 0 on restart; a value that never occurs is harmless)
            expired_at.push(clock);
        }
        let op = match rng.below(100) {
            0..=59 => OpSpec::Cycle,
            60..=67 => {
                // a debugger write: to a program-writable global, or to a program's activation counter
                let to_counter = rng.chance(1, 3);
                let (var, v) = if to_counter {
                    (100 + rng.below(nprogs as u64) as usize, rng.below(8) as i64)
                } else if want_init_div && rng.chance(1, 3) {
                    (DIVISOR, *rng.pick(&[0i64, 0, 4]))
                } else {
                    match gen_set(rng, true) {
                        Stmt::Set(var, v) => (var, v),
                        _ => unreachable!(),
                    }
                };
                match rng.below(8) {
                    0..=3 => OpSpec::VarWrite { var, v, by_instance_id: to_counter },
                    4..=5 => OpSpec::LvalWrite { var, v },
                    6 if !to_counter => OpSpec::ForceVar { var, v },
                    7 if !to_counter => OpSpec::ReleaseVar { var },
                    _ => OpSpec::LvalWrite { var, v },
                }
            }
            68..=70 => OpSpec::Watchdog,
            71..=73 => OpSpec::SimFault,
            74..=82 => OpSpec::Restart(if rng.bool() { RestartMode::Warm } else { RestartMode::Cold }),
            83..=84 => OpSpec::Clear,
            85..=87 => OpSpec::Policy(*rng.pick(&policies)),
            88..=89 => OpSpec::Wd(*rng.pick(&actions)),
            90..=91 => OpSpec::Safe(gen_safe(rng)),
            92..=94 => {
                if !forced.is_empty() && rng.chance(1, 3) {
                    let i = rng.below(forced.len() as u64) as usize;
                    OpSpec::Release(forced.remove(i))
                } else {
                    // mostly outputs (applied after the publish), some inputs/memory, some ill-typed
                    let a = if !forced.is_empty() && rng.chance(1, 4) { rng.pick(&forced).clone() } else { gen_addr(rng, IoArea::Output) };
                    let v = if rng.chance(1, 6) { gen_mismatched(rng, a.size) } else { gen_value_for(rng, a.size) };
                    if !forced.contains(&a) {
                        forced.push(a.clone());
                    }
                    OpSpec::Force(a, v)
                }
            }
            _ => {
                let a = gen_addr(rng, IoArea::Input);
                let v = if rng.chance(1, 5) { gen_mismatched(rng, a.size) } else { gen_value_for(rng, a.size) };
                OpSpec::Dbg(a, v)
            }
        };
        ops.push(op);
    }
    let resize = match rng.below(4) {
        0 => None,
        1 => Some((2, 17, 1)),
        2 => Some((4, 32, 2)),
        _ => Some((rng.below(4) as usize, rng.below(24) as usize, rng.below(3) as usize)),
    };
    expired_at.sort();
    expired_at.dedup();
    let runloop = None;
    Case { tasks, progs, drivers, retain, pubtrap, resize, expired_at, ops, runloop }
}

fn addr(text: &str) -> IoAddress {
    IoAddress::parse(text).expect("address")
}

/// Hand-written cases that run first: the witnesses of the repaired defect (safe state stopped at
/// the first failing address / driver) and the central scenarios of the property.
pub fn corpus() -> Vec<Case> {
    let tick_prog = |task: Option<usize>, body: Vec<Stmt>| Prog { task, body, ..Prog::default() };
    let cycles = |n: usize| -> Vec<OpSpec> {
        (0..n).flat_map(|_| vec![OpSpec::Adv(10 * MS), OpSpec::Cycle]).collect()
    };
    let mut out = Vec::new();
    // 0: driver 0 fails while the safe image is delivered -> drivers 1 and 2 must still get it
    //    (old code: `write_outputs(..)?` in apply_safe_state stopped at driver 0)
    {
        let mut ops = vec![
            OpSpec::Policy(FaultPolicy::SafeHalt),
            OpSpec::Safe(vec![(addr("%QX0.0"), Value::Bool(true)), (addr("%QB3"), Value::Byte(0x5A))]),
        ];
        ops.extend(cycles(6));
        out.push(Case {
            tasks: vec![],
            progs: vec![tick_prog(None, vec![Stmt::Set(2, 0x10), Stmt::Trap(2, 0), Stmt::Tick])],
            // driver 0: second write call (= safe-state delivery in cycle 2) fails
            drivers: vec![
                DrvScript { read_fail: vec![], write_fail: vec![1] },
                DrvScript::default(),
                DrvScript::default(),
            ],
            retain: None,
            pubtrap: false,
            resize: Some((2, 17, 1)),
            expired_at: vec![],
            runloop: None,
            ops,
        });
    }
    // 1: the first safe-state entry cannot be written (wrong value type / wildcard) -> the later
    //    entries must still be applied (old code: `io.write(..)?` stopped at the first entry)
    {
        let mut ops = vec![
            OpSpec::Policy(FaultPolicy::SafeHalt),
            OpSpec::Safe(vec![
                (addr("%QW2"), Value::Bool(true)),
                (IoAddress { area: IoArea::Output, size: IoSize::Byte, byte: 0, bit: 0, path: vec![], wildcard: true }, Value::Byte(1)),
                (addr("%QB0"), Value::Byte(0xEE)),
                (addr("%QX1.3"), Value::Bool(false)),
                (addr("%QD4"), Value::DWord(0x0102_0304)),
            ]),
        ];
        ops.extend(cycles(3));
        ops.push(OpSpec::SimFault);
        ops.extend(cycles(3));
        out.push(Case {
            tasks: vec![TaskSpec { interval_ms: 10, priority: 0 }],
            progs: vec![tick_prog(Some(0), vec![Stmt::Set(2, 0x11), Stmt::Set(4, 1), Stmt::Set(5, 0xDEADBEEF)])],
            drivers: vec![DrvScript::default(), DrvScript::default()],
            retain: None,
            pubtrap: false,
            resize: Some((2, 17, 1)),
            expired_at: vec![],
            runloop: None,
            ops,
        });
    }
    // 2: the publish loop fails at driver 0 -> record_fault -> safe image to both drivers, then
    //    refused cycles, warm restart, runs again, watchdog (halt action applies safe state too)
    {
        let mut ops = vec![
            OpSpec::Policy(FaultPolicy::SafeHalt),
            OpSpec::Wd(WatchdogAction::Halt),
            OpSpec::Safe(vec![(addr("%QL8"), Value::LWord(u64::MAX)), (addr("%QX1.3"), Value::Bool(false))]),
        ];
        ops.extend(cycles(4));
        ops.push(OpSpec::Restart(RestartMode::Warm));
        ops.extend(cycles(2));
        ops.push(OpSpec::Policy(FaultPolicy::Halt));
        ops.push(OpSpec::Watchdog);
        ops.extend(cycles(2));
        out.push(Case {
            tasks: vec![TaskSpec { interval_ms: 10, priority: 1 }, TaskSpec { interval_ms: 20, priority: 0 }],
            progs: vec![
                tick_prog(Some(0), vec![Stmt::Set(4, 1), Stmt::Set(6, 0x0102_0304_0506_0708)]),
                tick_prog(Some(1), vec![Stmt::Copy(2, 0), Stmt::Tick]),
                tick_prog(None, vec![Stmt::Set(3, 0x1234)]),
            ],
            drivers: vec![DrvScript { read_fail: vec![], write_fail: vec![1] }, DrvScript::default()],
            retain: None,
            pubtrap: false,
            resize: Some((2, 17, 1)),
            expired_at: vec![],
            runloop: None,
            ops,
        });
    }
    // 3: read-phase failure of the second driver under `halt` (no safe state), refused cycles,
    //    clear_fault, then a fault in the output coercion (publish) under safe_halt
    {
        let mut ops = vec![
            OpSpec::Policy(FaultPolicy::Halt),
            OpSpec::Safe(vec![(addr("%QB16"), Value::Byte(0x77)), (addr("%QB0"), Value::Byte(1))]),
        ];
        ops.extend(cycles(3));
        ops.push(OpSpec::Clear);
        ops.push(OpSpec::Policy(FaultPolicy::SafeHalt));
        ops.extend(cycles(4));
        out.push(Case {
            tasks: vec![],
            progs: vec![tick_prog(None, vec![Stmt::Set(2, 7), Stmt::Trap(9, 1)]), tick_prog(None, vec![Stmt::Set(PV, 127)]),
                        tick_prog(None, vec![Stmt::Tick, Stmt::Trap(9, 2), Stmt::Set(PV, 128)])],
            drivers: vec![DrvScript::default(), DrvScript { read_fail: vec![1], write_fail: vec![] }],
            retain: None,
            pubtrap: true,
            resize: None,
            expired_at: vec![],
            runloop: None,
            ops,
        });
    }
    // 4: the thread's watchdog (every cycle exceeds a 1 ns timeout, action halt): one cycle runs,
    //    then watchdog_timeout() -> safe image to both drivers -> thread ends in Faulted
    out.push(Case {
        tasks: vec![TaskSpec { interval_ms: 10, priority: 0 }],
        progs: vec![tick_prog(Some(0), vec![Stmt::Set(2, 0x21)]), tick_prog(None, vec![Stmt::Set(3, 0xBEEF)])],
        drivers: vec![DrvScript::default(), DrvScript { read_fail: vec![], write_fail: vec![1] }],
        retain: None,
        pubtrap: false,
        resize: Some((2, 17, 1)),
        expired_at: vec![],
        ops: vec![
            OpSpec::Wd(WatchdogAction::Halt),
            OpSpec::Safe(vec![(addr("%QB0"), Value::Byte(0)), (addr("%QW2"), Value::Word(0xFFFF))]),
        ],
        runloop: Some(RunLoop { interval_ms: 10, wd_enabled: true, over: true, budget: 5, sim_fails: false }),
    });
    // 5: fault policy restart: the program faults at its 2nd activation, the thread restarts warm
    //    and keeps cycling (never Faulted); 6: same program under safe_halt: the thread ends
    for policy in [FaultPolicy::Restart, FaultPolicy::SafeHalt] {
        out.push(Case {
            tasks: vec![],
            progs: vec![tick_prog(None, vec![Stmt::Set(2, 0x31), Stmt::Trap(2, 2), Stmt::Set(2, 0x32)])],
            drivers: vec![DrvScript::default()],
            retain: None,
            pubtrap: false,
            resize: Some((2, 17, 1)),
            expired_at: vec![],
            ops: vec![OpSpec::Policy(policy), OpSpec::Safe(vec![(addr("%QB0"), Value::Byte(0xA5))])],
            runloop: Some(RunLoop { interval_ms: 10, wd_enabled: false, over: false, budget: 6, sim_fails: false }),
        });
    }
    // 7, 8: the witness of the repaired finding C08-runner-post-cycle (the post-cycle simulation step
    //    fails): under safe_halt the thread must latch SimulationFault and deliver the safe image before it
    //    ends; under restart it restarts and keeps cycling
    for policy in [FaultPolicy::SafeHalt, FaultPolicy::Restart] {
        out.push(Case {
            tasks: vec![],
            progs: vec![tick_prog(None, vec![Stmt::Set(2, 0x31)])],
            drivers: vec![DrvScript::default()],
            retain: None,
            pubtrap: false,
            resize: Some((2, 17, 1)),
            expired_at: vec![],
            ops: vec![OpSpec::Policy(policy), OpSpec::Safe(vec![(addr("%QB0"), Value::Byte(0xA5))])],
            runloop: Some(RunLoop { interval_ms: 10, wd_enabled: false, over: false, budget: 4, sim_fails: true }),
        });
    }
    // 9: a runtime error in a PROGRAM of a task that also runs FB instances: the task must stop at
    //    the program's error (the FB instance does not run, the cycle reports it, the resource faults)
    {
        let mut ops = vec![
            OpSpec::Policy(FaultPolicy::SafeHalt),
            OpSpec::Safe(vec![(addr("%QB0"), Value::Byte(0xA5))]),
        ];
        ops.extend(cycles(5));
        out.push(Case {
            tasks: vec![TaskSpec { interval_ms: 10, priority: 0 }, TaskSpec { interval_ms: 10, priority: 1 }],
            progs: vec![
                Prog {
                    task: Some(0),
                    body: vec![Stmt::Set(2, 0x41), Stmt::Trap(2, 0), Stmt::Set(2, 0x42)],
                    init_div: false,
                    fbs: vec![FbSpec { task: 0, body: vec![Stmt::Tick] }, FbSpec { task: 1, body: vec![Stmt::Set(3, 0x0BAD)] }],
                },
                tick_prog(Some(1), vec![Stmt::Tick]),
                tick_prog(None, vec![Stmt::Tick]),
            ],
            drivers: vec![DrvScript::default()],
            retain: None,
            pubtrap: false,
            resize: Some((2, 17, 1)),
            expired_at: vec![],
            runloop: None,
            ops,
        });
    }
    // 10: a restart that fails half-way is not a restart: fault under safe_halt, warm restart while the
    //     RETAIN divisor is 0 (the second program's initialiser divides by it) returns an error, the latch
    //     stays, cycles stay refused, the safe image stays; a cold restart then succeeds
    {
        let mut ops = vec![
            OpSpec::Policy(FaultPolicy::SafeHalt),
            OpSpec::Safe(vec![(addr("%QB0"), Value::Byte(0xA5))]),
        ];
        ops.extend(cycles(2));
        ops.push(OpSpec::VarWrite { var: DIVISOR, v: 0, by_instance_id: false });
        ops.extend(cycles(1));
        ops.push(OpSpec::SimFault);
        ops.push(OpSpec::Restart(RestartMode::Warm));
        ops.extend(cycles(3));
        ops.push(OpSpec::Restart(RestartMode::Warm));
        ops.extend(cycles(1));
        ops.push(OpSpec::Restart(RestartMode::Cold));
        ops.extend(cycles(2));
        out.push(Case {
            tasks: vec![],
            progs: vec![
                tick_prog(None, vec![Stmt::Set(2, 0x51)]),
                Prog { task: None, body: vec![Stmt::Tick], init_div: true, fbs: vec![] },
                tick_prog(None, vec![Stmt::Tick]),
            ],
            drivers: vec![DrvScript::default()],
            retain: None,
            pubtrap: false,
            resize: Some((2, 17, 1)),
            expired_at: vec![],
            runloop: None,
            ops,
        });
    }
    out
}

fn failing_simulation() -> trust_runtime::simulation::SimulationController {
    use trust_runtime::simulation::{SignalCouplingRule, SimulationConfig, SimulationController};
    SimulationController::new(SimulationConfig {
        enabled: true,
        seed: 0,
        time_scale: 1,
        couplings: vec![SignalCouplingRule {
            // a hierarchical output address under a path no generated address uses: never written, so
            // `runtime.io().read(source)` fails in `apply_post_cycle`
            source: IoAddress { area: IoArea::Output, size: IoSize::Bit, byte: 99, bit: 3, path: vec![99, 7], wildcard: false },
            target: addr("%IX0.0"),
            threshold: None,
            delay: Duration::from_millis(0),
            on_true: None,
            on_false: None,
        }],
        disturbances: vec![],
    })
}

// ------------------------------------------------------------------------------------------
// ST rendering
// ------------------------------------------------------------------------------------------

/// The `Value` of the declared type of global `var` (`var >= 100`: a program's DINT counter).
fn typed_value(var: usize, v: i64) -> Value {
    if var >= 100 {
        return Value::DInt(v as i32);
    }
    match VARS[var].1 {
        "BOOL" => Value::Bool(v != 0),
        "BYTE" => Value::Byte(v as u8),
        "WORD" => Value::Word(v as u16),
        "DWORD" => Value::DWord(v as u32),
        "LWORD" => Value::LWord(v as u64),
        "DINT" => Value::DInt(v as i32),
        _ => Value::Int(v as i16),
    }
}

fn literal(var: usize, v: i64) -> String {
    match VARS[var].1 {
        "BOOL" => (if v != 0 { "TRUE" } else { "FALSE" }).to_string(),
        "INT" => format!("INT#{v}"),
        "DINT" => format!("DINT#{v}"),
        ty => format!("{ty}#16#{:X}", v as u64),
    }
}

fn render_body(s: &mut String, body: &[Stmt], in_fb: bool) {
    s.push_str("n := n + 1; steps := steps + 1; stamp := steps; cnt := 1; tog := NOT tog;\n");
    for st in body {
        s.push_str("steps := steps + 1; cnt := cnt + 1; ");
        match st {
            Stmt::Tick => {}
            Stmt::Set(var, v) => s.push_str(&format!("{} := {};", VARS[*var].0, literal(*var, *v))),
            Stmt::Copy(d, src) => s.push_str(&format!("{} := {};", VARS[*d].0, VARS[*src].0)),
            Stmt::Trap(c, kind) => {
                let action = match kind {
                    0 => "z := 100 / zero;".to_string(),
                    1 => "z := Boom(zero);".to_string(),
                    2 if !in_fb => "fb(d := zero);".to_string(),
                    2 => "z := Boom(zero);".to_string(),
                    _ => "idx := 7; z := arr[idx];".to_string(),
                };
                s.push_str(&format!("IF n = {c} THEN {action} END_IF;"));
            }
        }
        s.push('\n');
    }
}

const UNIT_VARS: &str = "    n : DINT := 0;\n    cnt : DINT := 0;\n    stamp : DINT := 0;\n    tog : BOOL := FALSE;\n    zero : DINT := 0;\n    z : DINT := 0;\n    idx : DINT := 0;\n    arr : ARRAY[0..3] OF DINT;\n";

pub fn render_source(case: &Case) -> String {
    let mut s = String::new();
    s.push_str("CONFIGURATION C\nVAR_GLOBAL RETAIN\n    divisor : DINT := 4;\n");
    if case.retain.is_some() {
        s.push_str("    steps : DINT := 0;\nEND_VAR\nVAR_GLOBAL\n");
    } else {
        s.push_str("END_VAR\nVAR_GLOBAL\n    steps : DINT := 0;\n");
    }
    for (i, (name, ty, at)) in VARS.iter().enumerate() {
        if i == DIVISOR {
            continue;
        }
        if at.is_empty() {
            s.push_str(&format!("    {name} : {ty};\n"));
        } else {
            s.push_str(&format!("    {name} AT {at} : {ty};\n"));
        }
    }
    s.push_str("END_VAR\n");
    for (i, t) in case.tasks.iter().enumerate() {
        s.push_str(&format!("TASK T{i} (INTERVAL := T#{}ms, PRIORITY := {});\n", t.interval_ms, t.priority));
    }
    for (p, prog) in case.progs.iter().enumerate() {
        let assoc = if prog.fbs.is_empty() {
            String::new()
        } else {
            format!(" ({})", join(prog.fbs.iter().enumerate().map(|(j, f)| format!("u{j} WITH T{}", f.task)), ", "))
        };
        match prog.task {
            Some(t) => s.push_str(&format!("PROGRAM I{p} WITH T{t} : Prog{p}{assoc};\n")),
            None => s.push_str(&format!("PROGRAM I{p} : Prog{p}{assoc};\n")),
        }
    }
    s.push_str("END_CONFIGURATION\n\n");
    let mut externals = String::from("VAR_EXTERNAL\n    steps : DINT;\n");
    for (name, ty, _) in VARS.iter() {
        externals.push_str(&format!("    {name} : {ty};\n"));
    }
    externals.push_str("END_VAR\n");
    let mut pous = String::new();
    pous.push_str("FUNCTION Boom : DINT\nVAR_INPUT d : DINT; END_VAR\nBoom := 100 / d;\nEND_FUNCTION\n\n");
    pous.push_str("FUNCTION_BLOCK FbBoom\nVAR_INPUT d : DINT; END_VAR\nVAR r : DINT; END_VAR\nr := Boom(d);\nEND_FUNCTION_BLOCK\n\n");
    for (p, prog) in case.progs.iter().enumerate() {
        for (j, f) in prog.fbs.iter().enumerate() {
            pous.push_str(&format!("FUNCTION_BLOCK FbU{p}x{j}\n{externals}VAR\n{UNIT_VARS}END_VAR\n"));
            render_body(&mut pous, &f.body, true);
            pous.push_str("END_FUNCTION_BLOCK\n\n");
        }
    }
    for (p, prog) in case.progs.iter().enumerate() {
        pous.push_str(&format!("PROGRAM Prog{p}\n{externals}VAR\n{UNIT_VARS}    fb : FbBoom;\n"));
        if prog.init_div {
            pous.push_str("    gain : DINT := 100 / divisor;\n");
        }
        for j in 0..prog.fbs.len() {
            pous.push_str(&format!("    u{j} : FbU{p}x{j};\n"));
        }
        pous.push_str("END_VAR\n");
        render_body(&mut pous, &prog.body, false);
        pous.push_str("END_PROGRAM\n\n");
    }
    // POUs first so that the configuration and the program types can refer to them
    format!("{pous}{s}")
}

// ------------------------------------------------------------------------------------------
// instrumented environment: logging drivers, scripted retain store
// ------------------------------------------------------------------------------------------

#[derive(Default)]
struct Shared {
    log: Vec<String>,
    driver_calls: u64,
}

fn drain_events(control: &DebugControl, shared: &mut Shared) {
    for ev in control.drain_runtime_events() {
        match ev {
            RuntimeEvent::CycleStart { .. } => shared.log.push("cs".into()),
            RuntimeEvent::CycleEnd { .. } => shared.log.push("ce".into()),
            RuntimeEvent::Fault { error, .. } => shared.log.push(format!("F:{}", canon_display(&error))),
            _ => {}
        }
    }
}

struct LogDriver {
    idx: usize,
    script: DrvScript,
    reads: usize,
    writes: usize,
    shared: Arc<Mutex<Shared>>,
    control: DebugControl,
}

impl IoDriver for LogDriver {
    fn read_inputs(&mut self, inputs: &mut [u8]) -> Result<(), RuntimeError> {
        let mut sh = self.shared.lock().unwrap();
        drain_events(&self.control, &mut sh);
        sh.log.push(format!("r{}", self.idx));
        sh.driver_calls += 1;
        let k = self.reads;
        self.reads += 1;
        if self.idx < inputs.len() {
            inputs[self.idx] = ((k * 17 + self.idx * 5 + 1) & 0xFF) as u8;
        }
        if self.script.read_fail.contains(&k) {
            return Err(RuntimeError::IoDriver(format!("r{}", self.idx).into()));
        }
        Ok(())
    }

    fn write_outputs(&mut self, outputs: &[u8]) -> Result<(), RuntimeError> {
        let mut sh = self.shared.lock().unwrap();
        drain_events(&self.control, &mut sh);
        sh.log.push(format!("w{}:{}", self.idx, hex(outputs)));
        sh.driver_calls += 1;
        let k = self.writes;
        self.writes += 1;
        if self.script.write_fail.contains(&k) {
            return Err(RuntimeError::IoDriver(format!("w{}", self.idx).into()));
        }
        Ok(())
    }
}

/// Deterministic clock for the `ResourceRunner` thread: `now()` returns the current value and
/// advances by `step`; the call after `budget` calls blocks until `wake()` (sent by `stop()`).
#[derive(Clone)]
struct GateClock {
    inner: Arc<(Mutex<GateState>, Condvar)>,
    step: i64,
    budget: u64,
}

#[derive(Default)]
struct GateState {
    time: i64,
    calls: u64,
    blocked: bool,
    released: bool,
}

impl GateClock {
    fn new(step: i64, budget: u64) -> Self {
        GateClock { inner: Arc::new((Mutex::new(GateState::default()), Condvar::new())), step, budget }
    }
    fn calls(&self) -> u64 {
        self.inner.0.lock().unwrap().calls
    }
    fn blocked(&self) -> bool {
        self.inner.0.lock().unwrap().blocked
    }
}

impl Clock for GateClock {
    fn now(&self) -> Duration {
        let (lock, cvar) = &*self.inner;
        let mut st = lock.lock().unwrap();
        if st.calls >= self.budget {
            st.blocked = true;
            while !st.released {
                st = cvar.wait(st).unwrap();
            }
        }
        st.calls += 1;
        let t = st.time;
        st.time += self.step;
        Duration::from_nanos(t)
    }
    fn sleep_until(&self, deadline: Duration) {
        self.inner.0.lock().unwrap().time = deadline.as_nanos();
    }
    fn wake(&self) {
        let (lock, cvar) = &*self.inner;
        lock.lock().unwrap().released = true;
        cvar.notify_all();
    }
}

struct ScriptStore {
    fails: Vec<usize>,
    calls: Arc<AtomicUsize>,
    fail_load: bool,
}

impl RetainStore for ScriptStore {
    fn load(&self) -> Result<RetainSnapshot, RuntimeError> {
        if self.fail_load {
            return Err(RuntimeError::RetainStore("scripted load failure".into()));
        }
        Ok(RetainSnapshot::default())
    }
    fn store(&self, _snapshot: &RetainSnapshot) -> Result<(), RuntimeError> {
        let k = self.calls.fetch_add(1, Ordering::SeqCst);
        if self.fails.contains(&k) {
            return Err(RuntimeError::RetainStore("scripted".into()));
        }
        Ok(())
    }
}

// ------------------------------------------------------------------------------------------
// canonical text
// ------------------------------------------------------------------------------------------

fn canon_err(e: &RuntimeError) -> String {
    match e {
        RuntimeError::IoDriver(msg) => format!("IoDriver:{msg}"),
        other => {
            let d = format!("{other:?}");
            d.split(|c: char| !c.is_ascii_alphanumeric()).next().unwrap_or("?").to_string()
        }
    }
}

/// The `Fault` event carries only the Display text of the error; map it back to the class.
fn canon_display(text: &str) -> String {
    let table: [(&str, &str); 11] = [
        ("resource faulted", "ResourceFaulted"),
        ("watchdog timeout", "WatchdogTimeout"),
        ("simulation fault", "SimulationFault"),
        ("division by zero", "DivisionByZero"),
        ("array index", "IndexOutOfBounds"),
        ("type mismatch", "TypeMismatch"),
        ("arithmetic overflow", "Overflow"),
        ("invalid I/O address", "InvalidIoAddress"),
        ("retain store error", "RetainStore"),
        ("execution timed out", "ExecutionTimeout"),
        ("i/o driver error '", "IoDriver:"),
    ];
    for (prefix, name) in table {
        if let Some(rest) = text.strip_prefix(prefix) {
            if name == "IoDriver:" {
                return format!("IoDriver:{}", rest.trim_end_matches('\''));
            }
            return name.to_string();
        }
    }
    format!("?{}", text.replace(' ', "_"))
}

fn area_char(a: IoArea) -> char {
    match a {
        IoArea::Input => 'I',
        IoArea::Output => 'Q',
        IoArea::Memory => 'M',
    }
}

fn size_char(s: IoSize) -> char {
    match s {
        IoSize::Bit => 'X',
        IoSize::Byte => 'B',
        IoSize::Word => 'W',
        IoSize::DWord => 'D',
        IoSize::LWord => 'L',
    }
}

/// `<area>:<size>:<byte>:<bit>:<wildcard>:<path a.b.c or ->`
fn enc_addr(a: &IoAddress) -> String {
    let path = if a.path.is_empty() { "-".to_string() } else { join(a.path.iter(), ".") };
    format!("{}:{}:{}:{}:{}:{}", area_char(a.area), size_char(a.size), a.byte, a.bit, u8::from(a.wildcard), path)
}

fn enc_value(v: &Value) -> String {
    match v {
        Value::Bool(b) => format!("b{}", u8::from(*b)),
        Value::Byte(n) => format!("B{n}"),
        Value::Word(n) => format!("W{n}"),
        Value::DWord(n) => format!("D{n}"),
        Value::LWord(n) => format!("L{n}"),
        Value::Int(n) => format!("i{n}"),
        other => format!("?{other:?}").replace(' ', ""),
    }
}

fn as_i64(v: Option<&Value>) -> i64 {
    match v {
        Some(Value::DInt(v)) => i64::from(*v),
        Some(Value::Int(v)) => i64::from(*v),
        Some(Value::LInt(v)) => *v,
        other => panic!("unexpected integer value {other:?}"),
    }
}

fn policy_word(p: FaultPolicy) -> &'static str {
    match p {
        FaultPolicy::Halt => "halt",
        FaultPolicy::SafeHalt => "safe",
        FaultPolicy::Restart => "restart",
    }
}

fn action_word(a: WatchdogAction) -> &'static str {
    match a {
        WatchdogAction::Halt => "halt",
        WatchdogAction::SafeHalt => "safe",
        WatchdogAction::Restart => "restart",
    }
}

// ------------------------------------------------------------------------------------------
// running a case
// ------------------------------------------------------------------------------------------

struct Running {
    h: TestHarness,
    control: DebugControl,
    shared: Arc<Mutex<Shared>>,
    store_calls: Arc<AtomicUsize>,
    safe: Vec<(IoAddress, Value)>,
    hier_seen: Vec<IoAddress>,
    nprogs: usize,
    ntasks: usize,
    /// per program: how often a restart has given it a new instance so far
    gens: Vec<usize>,
    /// the task-associated FB instances, as the references the tasks hold (unit `100 + f`)
    fb_refs: Vec<trust_runtime::value::ValueRef>,
}

impl Running {
    /// Everything observable through the public API, as one string (used for "did anything change").
    fn snapshot(&self) -> String {
        let rt = self.h.runtime();
        // peek at the pending debug I/O writes without disturbing them
        let pending = self.control.drain_io_writes();
        for (a, v) in &pending {
            self.control.enqueue_io_write(a.clone(), v.clone());
        }
        let hier: Vec<String> = self.hier_seen.iter().map(|a| format!("{:?}", rt.io().read(a))).collect();
        let over: Vec<u64> = (0..self.ntasks).map(|i| rt.task_overrun_count(&format!("T{i}")).unwrap_or(u64::MAX)).collect();
        let mut instances: Vec<String> = rt.storage().instances().iter().map(|(id, d)| format!("{id:?}={d:?}")).collect();
        instances.sort();
        format!(
            "{:?}|{:?}|{:?}|{}|{}|{}|{:?}|{}|{}|{}|{:?}|{:?}|{}|{}|{:?}|{}",
            rt.storage().globals(),
            instances,
            rt.storage().frames().len(),
            hex(rt.io().inputs()),
            hex(rt.io().outputs()),
            hex(rt.io().memory()),
            hier,
            rt.cycle_counter(),
            rt.current_time().as_nanos(),
            rt.faulted(),
            rt.last_fault(),
            over,
            self.shared.lock().unwrap().driver_calls,
            self.store_calls.load(Ordering::SeqCst),
            pending,
            rt.storage().retain().len(),
        )
    }

    fn instance_id(&self, p: usize) -> trust_runtime::memory::InstanceId {
        match self.h.runtime().storage().get_global(&format!("I{p}")) {
            Some(Value::Instance(id)) => *id,
            other => panic!("program instance I{p}: {other:?}"),
        }
    }

    /// Values of the bound/global variables and of every program's activation counter.
    fn variables(&self) -> (Vec<i128>, Vec<i64>) {
        let rt = self.h.runtime();
        let gv = VARS
            .iter()
            .map(|(name, _, _)| match rt.storage().get_global(name) {
                Some(Value::Bool(b)) => i128::from(*b),
                Some(Value::Byte(v)) => i128::from(*v),
                Some(Value::Word(v)) => i128::from(*v),
                Some(Value::DWord(v)) => i128::from(*v),
                Some(Value::LWord(v)) => i128::from(*v),
                Some(Value::Int(v)) => i128::from(*v),
                Some(Value::DInt(v)) => i128::from(*v),
                other => panic!("global {name}: {other:?}"),
            })
            .collect();
        let ns = (0..self.nprogs)
            .map(|p| as_i64(rt.storage().get_instance_var(self.instance_id(p), "n")))
            .collect();
        (gv, ns)
    }

    fn fb_counters(&self) -> Vec<i64> {
        (0..self.fb_refs.len()).map(|f| as_i64(self.unit_var(100 + f, "n").as_ref())).collect()
    }

    fn steps(&self) -> i64 {
        as_i64(self.h.runtime().storage().get_global("steps"))
    }

    /// The instance a unit's code runs on: the program's current instance, or for an FB unit the
    /// instance the task's reference resolves to.
    fn unit_instance(&self, unit: usize) -> Option<trust_runtime::memory::InstanceId> {
        if unit < 100 {
            return Some(self.instance_id(unit));
        }
        match self.h.runtime().storage().read_by_ref(self.fb_refs[unit - 100].clone()) {
            Some(Value::Instance(id)) => Some(*id),
            _ => None,
        }
    }

    fn units(&self) -> Vec<usize> {
        (0..self.nprogs).chain((0..self.fb_refs.len()).map(|f| 100 + f)).collect()
    }

    fn unit_var(&self, unit: usize, name: &str) -> Option<Value> {
        let id = self.unit_instance(unit)?;
        self.h.runtime().storage().get_instance_var(id, name).cloned()
    }

    /// The activation toggles of all units (flipped by the header of every body).
    fn toggles(&self) -> Vec<Option<Value>> {
        self.units().into_iter().map(|u| self.unit_var(u, "tog")).collect()
    }

    /// Units that ran since `before` was taken, in execution order, with their statement counts.
    fn ran(&self, before: &[Option<Value>]) -> Vec<(usize, i64)> {
        let mut v: Vec<(i64, usize, i64)> = self
            .units()
            .into_iter()
            .zip(before.iter())
            .filter(|(u, b)| self.unit_var(*u, "tog") != **b)
            .map(|(u, _)| (as_i64(self.unit_var(u, "stamp").as_ref()), u, as_i64(self.unit_var(u, "cnt").as_ref())))
            .collect();
        v.sort();
        v.into_iter().map(|(_, u, c)| (u, c)).collect()
    }

    fn observe(&self, err: Option<&RuntimeError>, before: &[Option<Value>], restarted: bool, changed: Option<bool>) -> String {
        let rt = self.h.runtime();
        let evs = {
            let mut sh = self.shared.lock().unwrap();
            drain_events(&self.control, &mut sh);
            std::mem::take(&mut sh.log)
        };
        let ran = if restarted { Vec::new() } else { self.ran(before) };
        let sr: Vec<String> = self
            .safe
            .iter()
            .map(|(a, _)| match rt.io().read(a) {
                Ok(v) => enc_value(&v),
                Err(e) => format!("!{}", canon_err(&e)),
            })
            .collect();
        let mut line = format!(
            "impl e={} ev={} f={} lf={} st={} pr={} in={} out={} mem={} sr={} cc={} now={}",
            err.map(canon_err).unwrap_or_else(|| "-".into()),
            if evs.is_empty() { "-".to_string() } else { evs.join(",") },
            u8::from(rt.faulted()),
            rt.last_fault().map(canon_err).unwrap_or_else(|| "-".into()),
            self.steps(),
            if ran.is_empty() { "-".to_string() } else { join(ran.iter().map(|(u, c)| if *u >= 100 { format!("f{}:{c}", u - 100) } else { format!("{u}:{c}") }), ",") },
            hex(rt.io().inputs()),
            hex(rt.io().outputs()),
            hex(rt.io().memory()),
            if sr.is_empty() { "-".to_string() } else { sr.join(",") },
            rt.cycle_counter(),
            rt.current_time().as_nanos(),
        );
        let (gv, ns) = self.variables();
        line.push_str(&format!(" gv={} ns={} fn={}", join(gv.iter(), ","), join(ns.iter(), ","), join(self.fb_counters().iter(), ",")));
        if let Some(ch) = changed {
            line.push_str(&format!(" ch={}", u8::from(ch)));
        }
        line
    }
}

fn binding_type(ty: Option<TypeId>) -> Option<&'static str> {
    Some(match ty? {
        TypeId::BOOL => "bool",
        TypeId::BYTE => "byte",
        TypeId::WORD => "word",
        TypeId::DWORD => "dword",
        TypeId::LWORD => "lword",
        TypeId::SINT => "sint",
        _ => return None,
    })
}

pub fn run_case(n: u64, case: &Case, out: &mut Out) -> Result<(), String> {
    let source = render_source(case);
    let mut h = TestHarness::from_source(&source).map_err(|e| format!("compile: {e}"))?;
    let control = h.runtime_mut().enable_debug();
    let _ = control.drain_runtime_events();
    let shared = Arc::new(Mutex::new(Shared::default()));
    for (idx, script) in case.drivers.iter().enumerate() {
        h.runtime_mut().add_io_driver(
            format!("log{idx}"),
            Box::new(LogDriver { idx, script: script.clone(), reads: 0, writes: 0, shared: shared.clone(), control: control.clone() }),
        );
    }
    if case.pubtrap {
        // an INT variable published through a SINT-typed binding: `coerce_to_io` reports Overflow
        // when the value leaves -128..=127 (a value-dependent fault inside the publish phase)
        h.runtime_mut().io_mut().bind_typed("pv", addr(PV_ADDR), TypeId::SINT);
    }
    if let Some((i, o, m)) = case.resize {
        h.runtime_mut().io_mut().resize(i, o, m);
    }
    let store_calls = Arc::new(AtomicUsize::new(0));
    if let Some(fails) = &case.retain {
        h.runtime_mut().set_retain_store(
            Some(Box::new(ScriptStore { fails: fails.clone(), calls: store_calls.clone(), fail_load: false })),
            Some(Duration::from_millis(0)),
        );
    }
    // ---- configuration lines: what the runtime itself holds, not what the generator intended
    out.line(format!("case {n}"));
    let rt_tasks = h.runtime().tasks().to_vec();
    if rt_tasks.len() != case.tasks.len() || h.runtime().programs().len() != case.progs.len() {
        return Err("configuration shape differs".into());
    }
    // FB units in generator order: (owner program, member index) -> unit index, and the instance
    // each member currently is
    let mut fb_units: Vec<(usize, usize)> = Vec::new();
    for (p, prog) in case.progs.iter().enumerate() {
        for j in 0..prog.fbs.len() {
            fb_units.push((p, j));
        }
    }
    let fb_ids: Vec<_> = fb_units
        .iter()
        .map(|(p, j)| {
            let owner = match h.runtime().storage().get_global(&format!("I{p}")) {
                Some(Value::Instance(id)) => *id,
                other => panic!("program instance I{p}: {other:?}"),
            };
            match h.runtime().storage().get_instance_var(owner, &format!("u{j}")) {
                Some(Value::Instance(id)) => *id,
                other => panic!("FB member I{p}.u{j}: {other:?}"),
            }
        })
        .collect();
    let mut fb_refs: Vec<Option<trust_runtime::value::ValueRef>> = vec![None; fb_units.len()];
    let mut task_fbs: Vec<Vec<usize>> = Vec::new();
    for t in rt_tasks.iter() {
        let progs: Vec<usize> = t
            .programs
            .iter()
            .map(|name| name.as_str()[1..].parse::<usize>().map_err(|_| format!("program name {name}")))
            .collect::<Result<_, _>>()?;
        if t.single.is_some() {
            return Err("unexpected task shape".into());
        }
        out.line(format!("task {} {} {}", t.interval.as_nanos(), t.priority, join(progs.iter(), " ")));
        // the FB instances the runtime's task holds, in the runtime's order
        let mut fs = Vec::new();
        for r in &t.fb_instances {
            let id = match h.runtime().storage().read_by_ref(r.clone()) {
                Some(Value::Instance(id)) => *id,
                other => return Err(format!("task FB reference resolves to {other:?}")),
            };
            let f = fb_ids.iter().position(|x| *x == id).ok_or("task FB reference to an unknown instance")?;
            fb_refs[f] = Some(r.clone());
            fs.push(f);
        }
        task_fbs.push(fs);
    }
    let fb_refs: Vec<trust_runtime::value::ValueRef> =
        fb_refs.into_iter().collect::<Option<Vec<_>>>().ok_or("an associated FB instance is in no task")?;
    let enc_body = |body: &[Stmt]| -> String {
        let items: Vec<String> = body
            .iter()
            .map(|s| match s {
                Stmt::Tick => "T".to_string(),
                Stmt::Set(v, x) => format!("S:{v}:{x}"),
                Stmt::Copy(d, s) => format!("C:{d}:{s}"),
                Stmt::Trap(c, k) => format!("X:{c}:{}", u8::from(*k == 3)),
            })
            .collect();
        if items.is_empty() { "-".into() } else { items.join(" ") }
    };
    for (p, prog) in case.progs.iter().enumerate() {
        out.line(format!("prog {p} {}", enc_body(&prog.body)));
    }
    out.line(format!("initdiv {}", join(case.progs.iter().map(|p| u8::from(p.init_div)), " ")));
    for (f, (p, j)) in fb_units.iter().enumerate() {
        out.line(format!("fb {f} {p} {}", enc_body(&case.progs[*p].fbs[*j].body)));
        out.count("fb_units");
    }
    for (t, fs) in task_fbs.iter().enumerate() {
        if !fs.is_empty() {
            out.line(format!("taskfb {t} {}", join(fs.iter(), " ")));
        }
    }
    for b in h.runtime().io().bindings() {
        let name = match (&b.target, &b.display_name) {
            (IoTarget::Name(name), _) => name.to_string(),
            (IoTarget::Reference(_), Some(name)) => name.to_string(),
            _ => return Err("binding without a name".into()),
        };
        let var = var_index(&name).ok_or_else(|| format!("binding of unknown variable {name}"))?;
        let ty = binding_type(b.value_type).ok_or_else(|| format!("binding type {:?}", b.value_type))?;
        out.line(format!("bind {var} {} {ty}", enc_addr(&b.address)));
    }
    for d in &case.drivers {
        let f = |v: &Vec<usize>| if v.is_empty() { "-".to_string() } else { join(v.iter(), ",") };
        out.line(format!("drv {} {}", f(&d.read_fail), f(&d.write_fail)));
    }
    match &case.retain {
        Some(f) => out.line(format!("retain {}", if f.is_empty() { "-".to_string() } else { join(f.iter(), ",") })),
        None => out.line("retain none"),
    }
    out.line(format!("expired {}", if case.expired_at.is_empty() { "-".to_string() } else { join(case.expired_at.iter(), ",") }));
    {
        let rt = h.runtime();
        let init: Vec<i64> = VARS
            .iter()
            .map(|(name, _, _)| match rt.storage().get_global(name) {
                Some(Value::Bool(b)) => i64::from(*b),
                Some(Value::Byte(v)) => i64::from(*v),
                Some(Value::Word(v)) => i64::from(*v),
                Some(Value::DWord(v)) => i64::from(*v),
                Some(Value::LWord(v)) => *v as i64,
                Some(Value::Int(v)) => i64::from(*v),
                Some(Value::DInt(v)) => i64::from(*v),
                other => panic!("global {name}: {other:?}"),
            })
            .collect();
        out.line(format!("vars {}", join(init.iter(), " ")));
        out.line(format!(
            "init {} {} {} {}",
            rt.current_time().as_nanos(),
            hex(rt.io().inputs()),
            hex(rt.io().outputs()),
            hex(rt.io().memory())
        ));
        // the defaults the model starts from must be the runtime's
        if rt.fault_policy() != FaultPolicy::Halt || rt.watchdog_policy().action != WatchdogAction::SafeHalt || rt.faulted() {
            return Err("unexpected runtime defaults".into());
        }
    }
    let mut run = Running {
        h,
        control,
        shared,
        store_calls,
        safe: Vec::new(),
        hier_seen: Vec::new(),
        nprogs: case.progs.len(),
        ntasks: case.tasks.len(),
        gens: vec![0; case.progs.len()],
        fb_refs,
    };
    // ---- history
    let mut fault_seen = false;
    let mut refused_after_fault = false;
    for op in &case.ops {
        let before = run.toggles();
        let mut err: Option<RuntimeError> = None;
        let mut restarted = false;
        let mut changed = None;
        match op {
            OpSpec::Policy(p) => {
                out.line(format!("policy {}", policy_word(*p)));
                run.h.runtime_mut().set_fault_policy(*p);
                out.count(&format!("op_policy_{}", policy_word(*p)));
            }
            OpSpec::Wd(a) => {
                out.line(format!("wd {}", action_word(*a)));
                let mut pol: WatchdogPolicy = run.h.runtime().watchdog_policy();
                pol.action = *a;
                run.h.runtime_mut().set_watchdog_policy(pol);
                out.count(&format!("op_wd_{}", action_word(*a)));
            }
            OpSpec::Safe(entries) => {
                let items: Vec<String> = entries.iter().map(|(a, v)| format!("{} {}", enc_addr(a), enc_value(v))).collect();
                out.line(format!("safe {} {}", entries.len(), items.join(" ")).trim_end().to_string());
                for (a, _) in entries {
                    if a.path.len() > 1 && !run.hier_seen.contains(a) {
                        run.hier_seen.push(a.clone());
                    }
                    out.count(&format!(
                        "safe_addr_{}{}{}",
                        area_char(a.area),
                        size_char(a.size),
                        if a.wildcard { "_wildcard" } else if a.path.len() > 1 { "_hier" } else { "" }
                    ));
                }
                run.safe = entries.clone();
                run.h.runtime_mut().set_io_safe_state(IoSafeState { outputs: entries.clone() });
            }
            OpSpec::Dbg(a, v) => {
                out.line(format!("dbg {} {}", enc_addr(a), enc_value(v)));
                if a.path.len() > 1 && !run.hier_seen.contains(a) {
                    run.hier_seen.push(a.clone());
                }
                run.control.enqueue_io_write(a.clone(), v.clone());
                out.count("op_dbg");
            }
            OpSpec::Force(a, v) => {
                out.line(format!("force {} {}", enc_addr(a), enc_value(v)));
                if a.path.len() > 1 && !run.hier_seen.contains(a) {
                    run.hier_seen.push(a.clone());
                }
                run.control.force_io(a.clone(), v.clone());
                out.count("op_force");
            }
            OpSpec::Release(a) => {
                out.line(format!("release {}", enc_addr(a)));
                run.control.release_io(a);
                out.count("op_release");
            }
            OpSpec::Adv(dt) => {
                out.line(format!("adv {dt}"));
                run.h.advance_time(Duration::from_nanos(*dt));
            }
            OpSpec::Cycle => {
                out.line("cycle");
                let before = run.snapshot();
                let was_faulted = run.h.runtime().faulted();
                let now = run.h.runtime().current_time().as_nanos();
                let deadline = case
                    .expired_at
                    .contains(&now)
                    .then(|| std::time::Instant::now() - std::time::Duration::from_millis(1));
                run.h.runtime_mut().set_execution_deadline(deadline);
                err = run.h.runtime_mut().execute_cycle().err();
                run.h.runtime_mut().set_execution_deadline(None);
                changed = Some(run.snapshot() != before);
                out.count("op_cycle");
                match &err {
                    None => out.count("cycle_ok"),
                    Some(RuntimeError::ResourceFaulted) => {
                        out.count("cycle_refused");
                        if was_faulted && fault_seen {
                            refused_after_fault = true;
                        }
                    }
                    Some(e) => {
                        out.count(&format!("cycle_fault_{}", canon_err(e).split(':').next().unwrap_or("?")));
                        out.count(&format!("fault_under_{}", policy_word(run.h.runtime().fault_policy())));
                        fault_seen = true;
                    }
                }
            }
            OpSpec::Watchdog => {
                out.line("watchdog");
                err = Some(run.h.runtime_mut().watchdog_timeout());
                out.count(&format!("watchdog_under_{}", action_word(run.h.runtime().watchdog_policy().action)));
                fault_seen = true;
            }
            OpSpec::SimFault => {
                out.line("simfault");
                err = Some(run.h.runtime_mut().simulation_fault("scripted"));
                out.count(&format!("simfault_under_{}", policy_word(run.h.runtime().fault_policy())));
                fault_seen = true;
            }
            OpSpec::Restart(mode) => {
                let ids: Vec<_> = (0..run.nprogs).map(|p| run.instance_id(p)).collect();
                let was_faulted = run.h.runtime().faulted();
                err = run.h.restart(*mode).err();
                // Whether restart gives a program a new instance is C09's subject: report, per program,
                // what it did (a restart that failed half-way did not reach the later programs).
                let changed_ids: Vec<bool> = (0..run.nprogs).map(|p| run.instance_id(p) != ids[p]).collect();
                let fresh = changed_ids.clone();
                for p in 0..run.nprogs {
                    if changed_ids[p] {
                        run.gens[p] += 1;
                    }
                }
                out.line(format!(
                    "restart {} {}",
                    if matches!(mode, RestartMode::Warm) { "warm" } else { "cold" },
                    join(fresh.iter().map(|f| u8::from(*f)), " ")
                ));
                restarted = true;
                out.count("op_restart");
                if err.is_some() {
                    out.count(if was_faulted { "restart_failed_while_faulted" } else { "restart_failed" });
                }
            }
            OpSpec::VarWrite { var, v, by_instance_id } => {
                let value = typed_value(*var, *v);
                if *var >= 100 && *by_instance_id {
                    let p = var - 100;
                    out.line(format!("vw {} {v}", 1000 * (run.gens[p] + 1) + p));
                    run.control.enqueue_instance_write(run.instance_id(p), "n", value);
                } else if *var >= 100 {
                    unreachable!("counter writes go by instance id or by l-value");
                } else {
                    out.line(format!("vw {var} {v}"));
                    run.control.enqueue_global_write(VARS[*var].0, value);
                }
                out.count(if run.h.runtime().faulted() { "op_varwrite_while_faulted" } else { "op_varwrite" });
            }
            OpSpec::LvalWrite { var, v } => {
                use trust_runtime::eval::expr::LValue;
                out.line(format!("lw {var} {v}"));
                let target = if *var >= 100 {
                    LValue::Field { name: format!("I{}", var - 100).into(), field: "n".into() }
                } else {
                    LValue::Name(VARS[*var].0.into())
                };
                run.control.enqueue_lvalue_write(None, Vec::new(), target, typed_value(*var, *v));
                out.count(if run.h.runtime().faulted() { "op_lvalwrite_while_faulted" } else { "op_lvalwrite" });
            }
            OpSpec::ForceVar { var, v } => {
                out.line(format!("fv {var} {v}"));
                run.control.force_global(VARS[*var].0, typed_value(*var, *v));
                out.count("op_forcevar");
            }
            OpSpec::ReleaseVar { var } => {
                out.line(format!("rv {var}"));
                run.control.release_global(VARS[*var].0);
                out.count("op_releasevar");
            }
            OpSpec::Clear => {
                out.line("clear");
                run.h.runtime_mut().clear_fault();
                out.count("op_clear");
            }
        }
        out.line(run.observe(err.as_ref(), &before, restarted, changed));
    }
    let mut runner_fault = false;
    if let Some(rl) = &case.runloop {
        let Running { h, control, shared, .. } = run;
        let mut runtime = h.into_runtime();
        let mut pol: WatchdogPolicy = runtime.watchdog_policy();
        pol.enabled = rl.wd_enabled;
        pol.timeout = if rl.over { Duration::from_nanos(1) } else { Duration::from_millis(3_600_000) };
        runtime.set_watchdog_policy(pol);
        let interval = rl.interval_ms * MS;
        let clock = GateClock::new(interval, rl.budget);
        let mut runner = ResourceRunner::new(runtime, clock.clone(), Duration::from_nanos(interval));
        if rl.sim_fails {
            runner = runner.with_simulation(failing_simulation());
            out.count("runloop_with_failing_post_cycle");
        }
        let mut handle = runner.spawn("c08").map_err(|e| format!("spawn: {e}"))?;
        let started = std::time::Instant::now();
        let mut timed_out = false;
        loop {
            if handle.state() == ResourceState::Faulted || clock.blocked() {
                break;
            }
            if started.elapsed() > std::time::Duration::from_secs(30) {
                timed_out = true;
                break;
            }
            std::thread::sleep(std::time::Duration::from_micros(200));
        }
        handle.stop();
        let _ = handle.join();
        if timed_out {
            // a starved machine must not turn into a finding: the operation is not recorded
            out.count("runloop_timed_out");
        } else {
            let state = handle.state();
            let err = handle.last_error();
            let evs = {
                let mut sh = shared.lock().unwrap();
                drain_events(&control, &mut sh);
                std::mem::take(&mut sh.log)
            };
            out.line(format!(
                "runloop {interval} {} {} {} {}",
                u8::from(rl.wd_enabled),
                u8::from(rl.over),
                clock.calls(),
                u8::from(rl.sim_fails)
            ));
            out.line(format!(
                "impl state={state:?} err={} ev={}",
                err.as_ref().map(canon_err).unwrap_or_else(|| "-".into()),
                if evs.is_empty() { "-".to_string() } else { evs.join(",") }
            ));
            out.count("op_runloop");
            out.count(&format!("runloop_end_{state:?}"));
            runner_fault = state == ResourceState::Faulted;
        }
    }
    if (fault_seen && refused_after_fault) || runner_fault {
        out.line("tag nontrivial");
    }
    out.line("end");
    Ok(())
}

/// Witness replays on the real `ResourceRunner` (`vharness c08 --probe <postcycle|restartload>`),
/// run by checks/c08.py on every check.  Common setup: a program writing %QB0 := 16#31, one logging
/// driver, fault policy safe_halt, safe state %QB0 := 16#A5 — so a delivered safe image starts with
/// `a5` and is followed by an `F:` event.
/// * postcycle (regression of the repaired finding C08-runner-post-cycle): the post-cycle simulation
///   step fails after the first cycle.
/// * restartload (open finding C08-runner-restart-failure): after two good cycles an external warm
///   restart is requested and the retain store cannot be loaded.
fn probe(kind: &str) -> i32 {
    let case = Case {
        tasks: vec![],
        progs: vec![Prog { task: None, body: vec![Stmt::Set(2, 0x31)], ..Prog::default() }],
        drivers: vec![DrvScript::default()],
        retain: None,
        pubtrap: false,
        resize: Some((2, 17, 1)),
        expired_at: vec![],
        ops: vec![],
        runloop: None,
    };
    let mut h = TestHarness::from_source(&render_source(&case)).expect("compile");
    let control = h.runtime_mut().enable_debug();
    let shared = Arc::new(Mutex::new(Shared::default()));
    h.runtime_mut().add_io_driver(
        "log0",
        Box::new(LogDriver { idx: 0, script: DrvScript::default(), reads: 0, writes: 0, shared: shared.clone(), control: control.clone() }),
    );
    h.runtime_mut().io_mut().resize(2, 17, 1);
    h.runtime_mut().set_fault_policy(FaultPolicy::SafeHalt);
    h.runtime_mut().set_io_safe_state(IoSafeState { outputs: vec![(addr("%QB0"), Value::Byte(0xA5))] });
    let signal: Arc<Mutex<Option<RestartMode>>> = Arc::new(Mutex::new(None));
    let budget = if kind == "restartload" { 2 } else { 5 };
    let clock = GateClock::new(10 * MS, budget);
    if kind == "restartload" {
        h.runtime_mut().set_retain_store(
            Some(Box::new(ScriptStore { fails: vec![], calls: Arc::new(AtomicUsize::new(0)), fail_load: true })),
            Some(Duration::from_millis(0)),
        );
    }
    let mut runner = ResourceRunner::new(h.into_runtime(), clock.clone(), Duration::from_millis(10));
    runner = match kind {
        "postcycle" => runner.with_simulation(failing_simulation()),
        "restartload" => runner.with_restart_signal(signal.clone()),
        _ => {
            eprintln!("unknown probe {kind}");
            return 2;
        }
    };
    let mut handle = runner.spawn("probe").expect("spawn");
    let started = std::time::Instant::now();
    let mut requested = false;
    while handle.state() != ResourceState::Faulted && started.elapsed() < std::time::Duration::from_secs(20) {
        if clock.blocked() {
            if kind == "restartload" && !requested {
                // two cycles have run; request the restart and let the thread go on
                *signal.lock().unwrap() = Some(RestartMode::Warm);
                requested = true;
                clock.wake();
            } else if kind != "restartload" {
                break;
            }
        }
        std::thread::sleep(std::time::Duration::from_millis(1));
    }
    handle.stop();
    let _ = handle.join();
    let mut sh = shared.lock().unwrap();
    drain_events(&control, &mut sh);
    println!(
        "probe {kind} state={:?} err={} iterations={} ev={}",
        handle.state(),
        handle.last_error().as_ref().map(canon_err).unwrap_or_else(|| "-".into()),
        clock.calls(),
        if sh.log.is_empty() { "-".to_string() } else { sh.log.join(",") }
    );
    0
}

pub fn run(args: &Args) -> i32 {
    if let Some(kind) = args.extra.get("probe") {
        return probe(kind);
    }
    let mut out = Out::new();
    let corpus = corpus();
    for n in args.case_numbers() {
        let case = if (n as usize) < corpus.len() {
            corpus[n as usize].clone()
        } else {
            let mut rng = Rng::for_case(args.seed, n);
            if rng.chance(1, 6) {
                gen_runner_case(&mut rng)
            } else {
                gen_case(&mut rng)
            }
        };
        let res = std::panic::catch_unwind(std::panic::AssertUnwindSafe(|| run_case(n, &case, &mut out)));
        match res {
            Ok(Ok(())) => {}
            Ok(Err(e)) => {
                eprintln!("case {n}: {e}\n{}", render_source(&case));
                return 3;
            }
            Err(_) => {
                eprintln!("case {n}: panic\n{}", render_source(&case));
                return 4;
            }
        }
        out.count("cases");
    }
    out.finish(&args.out);
    0
}
