//! C09 — restart semantics.  Generated projects (RETAIN/NON_RETAIN/unqualified/PERSISTENT x
//! global/program/FB member x value shapes, direct addresses, VAR_ACCESS, VAR_CONFIG, tasks with
//! SINGLE variables and FB task bindings) are built through the real compiler; generated histories
//! of cycle / direct input write / restart(mode) / fault / access write / save / power cycle are
//! run on the real runtime and written, with a full observation dump after every operation, for
//! the Lean model.  After every cold restart a freshly built twin is fed the same continuation
//! (the property's own differential oracle); the property's clauses are also evaluated directly
//! on the implementation's dumps (`#o` lines, read by checks/c09.py).

#[path = "c09/types.rs"]
pub mod types;
#[path = "c09/gen.rs"]
pub mod gen;
#[path = "c09/exec.rs"]
pub mod exec;
#[path = "c09/witness.rs"]
pub mod witness;

use crate::rng::Rng;
use crate::util::Out;
use crate::Args;
use exec::{Dump, Exec, Op};
use std::collections::{BTreeSet, HashMap};
use types::*;

#[derive(Clone, Copy, Debug, PartialEq, Eq)]
enum Kind {
    Global,
    Prog,
    GlobalFbMember,
    ProgFbMember,
}

/// What the property expects of one variable path (computed from the generator's description).
#[derive(Clone, Debug)]
struct Info {
    path: String,
    kind: Kind,
    /// effective policy of the variable (for FB members: of the member)
    pol: Pol,
    /// for FB members: effective policy of the variable holding the instance
    owner_pol: Pol,
    init: String,
    cfg: Option<String>,
    /// initialiser expression: (value tag, expression, program instance)
    expr: Option<(u32, IExpr, String)>,
}

fn parse_num(s: &str) -> Option<i128> {
    s.strip_prefix('n')?.split_once(':')?.1.parse().ok()
}

/// "Declared initial value" of a variable as the property reads it.  For an initialiser
/// expression: the expression over the globals as they are once the restart is complete (`post`;
/// `None` = the declared initial values, which is what a build sees) and over the initial values of
/// the earlier variables of the same program.
fn fresh_of(infos: &[Info], i: &Info, post: Option<&Dump>) -> String {
    let Some((tag, e, inst)) = &i.expr else { return i.fresh().to_string() };
    let g = |n: &str| -> Option<i128> {
        match post {
            Some(d) => parse_num(d.var(n)?),
            None => infos.iter().find(|x| x.path == n).and_then(|x| parse_num(&x.init)),
        }
    };
    let l = |n: &str| -> Option<i128> {
        let p = format!("{inst}.{n}");
        let u = infos.iter().find(|x| x.path == p)?;
        if u.expr.is_some() {
            parse_num(&fresh_of(infos, u, post))
        } else {
            parse_num(&u.init)
        }
    };
    e.eval(&g, &l).map(|v| format!("n{tag}:{v}")).unwrap_or_else(|| "?".into())
}

impl Info {
    /// Retained across a warm restart according to the property (for FB members: the member's own
    /// qualifier, else the qualifier of the instance variable, IEC 61131-3 6.5.6).
    fn retains(&self) -> bool {
        match self.kind {
            Kind::Global | Kind::Prog => self.pol.retains(),
            _ => match self.pol {
                Pol::U => self.owner_pol.retains(),
                p => p.retains(),
            },
        }
    }
    fn fresh(&self) -> &str {
        self.cfg.as_deref().unwrap_or(&self.init)
    }
}

fn infos(case: &Case) -> Vec<Info> {
    let mut out = Vec::new();
    let add_var = |path: String, v: &Var, pol: Pol, global: bool, inst: &str, out: &mut Vec<Info>| match &v.ty {
        Ty::Fb(i) => {
            for m in &case.fbs[*i].members {
                out.push(Info {
                    path: format!("{path}.{}", m.name),
                    kind: if global { Kind::GlobalFbMember } else { Kind::ProgFbMember },
                    pol: m.pol,
                    owner_pol: pol,
                    init: m.init_val().show(),
                    cfg: None,
                    expr: None,
                });
            }
        }
        _ => out.push(Info {
            path,
            kind: if global { Kind::Global } else { Kind::Prog },
            pol,
            owner_pol: pol,
            init: v.init_val().show(),
            cfg: None,
            expr: match (&v.init_expr, &v.ty) {
                (Some(e), Ty::S(sty)) => Some((STYS[*sty].tag, e.clone(), inst.to_string())),
                _ => None,
            },
        }),
    };
    for g in &case.globals {
        add_var(g.name.clone(), g, g.pol, true, "", &mut out);
    }
    for p in &case.progs {
        for v in &p.vars {
            add_var(format!("{}.{}", p.inst, v.name), v, p.effective_pol(v), false, &p.inst, &mut out);
        }
    }
    for c in &case.cfg_inits {
        let path = c.tgt.owner_path("");
        if let Some(i) = out.iter_mut().find(|i| i.path == path) {
            i.cfg = Some(c.ty.lits()[c.lit].1.show());
        }
    }
    out
}

/// Static guard flags of a case (which hypotheses of the `_partial` theorems it violates).
#[derive(Clone, Debug, Default)]
struct Flags {
    inst_bindings: bool,
    single_true: bool,
    cfg_init: bool,
    m_bindings: bool,
}

fn flags(case: &Case) -> Flags {
    let mut f = Flags::default();
    let mut fb_used = vec![false; case.fbs.len()];
    for v in case.globals.iter().chain(case.progs.iter().flat_map(|p| p.vars.iter())) {
        if let Ty::Fb(i) = v.ty {
            fb_used[i] = true;
        }
    }
    for p in &case.progs {
        if p.vars.iter().any(|v| v.at.is_some()) || !p.fb_tasks.is_empty() {
            f.inst_bindings = true;
        }
    }
    for (i, fb) in case.fbs.iter().enumerate() {
        if fb_used[i] && fb.members.iter().any(|m| m.at.is_some()) {
            f.inst_bindings = true;
        }
    }
    if case.access.iter().any(|a| a.tgt.scope != Scope::G || a.tgt.member.is_some()) {
        f.inst_bindings = true;
    }
    for t in &case.tasks {
        if let Some(g) = t.single {
            if case.globals[g].init_val() == MVal::Num(1, 1) {
                f.single_true = true;
            }
        }
    }
    f.cfg_init = !case.cfg_inits.is_empty();
    f.m_bindings = gen::all_addrs(&case.globals, &case.progs, &case.fbs).iter().any(|a| a.area == 'M');
    f
}

struct Runner<'a> {
    n: u64,
    exec: Exec<'a>,
    infos: Vec<Info>,
    flags: Flags,
    out: &'a mut Out,
    /// last dump per slot
    last: Vec<Option<Dump>>,
    /// twin session: (images non-zero at the cold restart, first mismatch already reported)
    twin: Option<(bool, bool, bool)>,
    store: Option<bool>,
    saved: Option<HashMap<String, String>>,
    known: BTreeSet<String>,
    fails: Vec<String>,
    /// what the field currently presents (environment)
    field: Vec<u8>,
}

impl<'a> Runner<'a> {
    fn op(&mut self, k: usize, op: Op) -> Result<Dump, String> {
        self.out.line(format!("@{k} {}", op.proto()));
        let d = self.exec.apply(k, &op)?;
        self.out.line(format!("impl {}", d.line()));
        self.out.count("ops");
        // autosave bookkeeping (main slot only ever has autosave)
        if k == 0 {
            if let (Op::Cycle(_), Some(true)) = (&op, self.store) {
                if d.res == "ok" {
                    self.saved = Some(d.vars.iter().cloned().collect());
                }
            }
            if let (Op::Save, Some(_)) = (&op, self.store) {
                if d.res == "ok" {
                    self.saved = Some(d.vars.iter().cloned().collect());
                }
            }
        }
        self.last[k] = Some(d.clone());
        Ok(d)
    }

    /// What start-up does after the build: size the images, register the driver; the field keeps
    /// presenting what it presented.
    fn attach_driver(&mut self, k: usize) -> Result<(), String> {
        if let Some((ni, nq, nm)) = self.exec.case.driver {
            self.op(k, Op::Driver(ni, nq, nm))?;
            if !self.field.is_empty() {
                let f = self.field.clone();
                self.op(k, Op::Field(f))?;
            }
        }
        Ok(())
    }

    fn known(&mut self, sig: &str, detail: String) {
        if self.known.insert(sig.to_string()) {
            self.out.line(format!("#o known {sig} case={} {detail}", self.n));
        }
        self.out.count(&format!("known_{sig}"));
    }

    fn fail(&mut self, kind: &str, detail: String) {
        self.out.line(format!("#o fail {kind} case={} {detail}", self.n));
        self.fails.push(format!("{kind}: {detail}"));
        self.out.count(&format!("oraclefail_{kind}"));
    }

    /// Clauses "time, fault latch, cycle counter, frames, task state reset" after any restart.
    fn check_resets(&mut self, pre: &Dump, d: &Dump, mode: Mode) {
        if mode == Mode::Cold && (d.i != "-" || d.q != "-" || d.m != "-") {
            self.fail("cold-images", format!("I={} Q={} M={} after restart(Cold)", d.i, d.q, d.m));
        }
        if (d.li, d.lq, d.lm) != (pre.li, pre.lq, pre.lm) {
            // the image is sized once at start-up; drivers deliver as many bytes as it is long
            self.fail(
                "image-lengths",
                format!("lengths {:?} before, {:?} after the restart", (pre.li, pre.lq, pre.lm), (d.li, d.lq, d.lm)),
            );
        }
        if d.res != "ok" {
            self.fail("restart-error", d.res.clone());
            return;
        }
        if d.t != 0 || d.cc != 0 || d.f || d.lf != "-" || d.fr != 0 || d.ov.iter().any(|x| *x != 0) {
            self.fail("reset", format!("t={} cc={} f={} lf={} fr={} ov={:?}", d.t, d.cc, d.f, d.lf, d.fr, d.ov));
        }
        if d.dead > 0 {
            self.known("stale-binding", format!("dead={} after restart", d.dead));
            if !self.flags.inst_bindings {
                self.fail("bindings", format!("dead={} without instance bindings", d.dead));
            }
        }
    }

    /// Warm clause: exactly the RETAIN/PERSISTENT variables keep their value, every other variable
    /// has its declared initial value.
    fn check_warm(&mut self, pre: &Dump, post: &Dump) {
        for i in self.infos.clone() {
            let (Some(before), Some(after)) = (pre.var(&i.path), post.var(&i.path)) else {
                self.fail("warm-rule", format!("{} missing", i.path));
                continue;
            };
            let fresh = fresh_of(&self.infos, &i, Some(post));
            let expected = if i.retains() { before } else { fresh.as_str() };
            if after == expected {
                continue;
            }
            match i.kind {
                Kind::Global | Kind::Prog => {
                    if !i.retains() && i.cfg.is_some() && after == i.init {
                        self.known("config-init-lost", format!("{}: {} after warm restart, VAR_CONFIG value {}", i.path, after, expected));
                    } else {
                        self.fail("warm-rule", format!("{}: before={} after={} expected={}", i.path, before, after, expected));
                    }
                }
                _ => self.known(
                    "fb-member-retain",
                    format!("{}: before={} after={} expected={} (member {:?}, instance {:?})", i.path, before, after, expected, i.pol, i.owner_pol),
                ),
            }
        }
    }

    /// Save clause: whenever a save returned Ok, the storage medium holds the snapshot of the state
    /// at that call (every RETAIN/PERSISTENT global of retainable type, nothing else).
    fn check_store_holds_state(&mut self, d: &Dump, what: &str) {
        let expected: Vec<(String, String)> = self
            .infos
            .iter()
            .filter(|i| i.kind == Kind::Global && i.retains())
            .filter_map(|i| d.var(&i.path).map(|v| (i.path.clone(), v.to_string())))
            .collect();
        if d.store != expected {
            self.fail("save-ok-store", format!("after an Ok {what} the store holds {:?}, the state is {:?}", d.store, expected));
        }
    }

    /// Warm restart + `load_retain_store` (the resource loop's restart step): RETAIN/PERSISTENT
    /// globals must still have their pre-restart value.
    fn check_warm_after_load(&mut self, pre: &Dump, after: &Dump) {
        for i in self.infos.clone() {
            if i.kind != Kind::Global || !i.retains() {
                continue;
            }
            let (Some(before), Some(now)) = (pre.var(&i.path), after.var(&i.path)) else { continue };
            if now == before {
                continue;
            }
            let saved = self.saved.as_ref().and_then(|s| s.get(&i.path)).cloned();
            if saved.as_deref() == Some(now) {
                self.known("warm-rollback", format!("{}: before restart {} after restart+load {} (file content)", i.path, before, now));
            } else {
                self.fail("warm-reload", format!("{}: before={} after={} saved={:?}", i.path, before, now, saved));
            }
        }
    }

    /// Cold clause, variables: everything has its initial value.
    fn check_cold_vars(&mut self, post: &Dump) {
        for i in self.infos.clone() {
            let Some(after) = post.var(&i.path) else {
                self.fail("cold-vars", format!("{} missing", i.path));
                continue;
            };
            let fresh = fresh_of(&self.infos, &i, Some(post));
            if after == fresh {
                continue;
            }
            if i.cfg.is_some() && after == i.init {
                self.known("config-init-lost", format!("{}: {} after cold restart, VAR_CONFIG value {}", i.path, after, fresh));
            } else {
                self.fail("cold-vars", format!("{}: after={} expected={}", i.path, after, fresh));
            }
        }
    }

    /// `load_retain_store`: saved RETAIN/PERSISTENT globals take the saved value, nothing else moves.
    fn check_load(&mut self, pre: &Dump, post: &Dump) {
        for i in self.infos.clone() {
            let (Some(before), Some(after)) = (pre.var(&i.path), post.var(&i.path)) else { continue };
            let saved = self.saved.as_ref().and_then(|s| s.get(&i.path)).cloned();
            let expected = match (i.kind, i.pol.retains(), saved) {
                (Kind::Global, true, Some(s)) => s,
                _ => before.to_string(),
            };
            if after != expected {
                self.fail("load", format!("{}: before={} after={} expected={}", i.path, before, after, expected));
            }
        }
    }

    /// Power-cycle clause: the set of preserved variables is the warm-restart set.
    fn check_power(&mut self, post: &Dump, restarted: bool, at_restart: Option<&Dump>) {
        for i in self.infos.clone() {
            let Some(after) = post.var(&i.path) else { continue };
            let saved = self.saved.as_ref().and_then(|s| s.get(&i.path)).cloned();
            // initialiser expressions are evaluated when the instance is created: by the build
            // (globals at their declared values) or by the start-up restart (globals as that restart
            // leaves them), in both cases before the load
            let fresh = fresh_of(&self.infos, &i, at_restart);
            let expected = match (i.retains(), saved) {
                (true, Some(s)) => s,
                _ => fresh.clone(),
            };
            if after == expected {
                continue;
            }
            match i.kind {
                Kind::Global => {
                    if restarted && i.cfg.is_some() && after == i.init {
                        self.known("config-init-lost", format!("{}: {} after start-up restart", i.path, after));
                    } else {
                        self.fail("power-cycle", format!("{}: after={} expected={}", i.path, after, expected));
                    }
                }
                Kind::Prog => {
                    // the saved value is lost and the variable shows an initial value: the one the
                    // start-up restart computed, or the build's, kept by a warm start-up restart
                    if i.retains() && (after == fresh || after == fresh_of(&self.infos, &i, None)) {
                        self.known("power-program-retain", format!("{}: after={} saved={}", i.path, after, expected));
                    } else if restarted && i.cfg.is_some() && after == i.init {
                        self.known("config-init-lost", format!("{}: {} after start-up restart", i.path, after));
                    } else {
                        self.fail("power-cycle", format!("{}: after={} expected={}", i.path, after, expected));
                    }
                }
                _ => self.known("fb-member-retain", format!("{}: after={} expected={} (power cycle)", i.path, after, expected)),
            }
        }
    }

    /// Differential oracle: restarted runtime vs freshly built twin after the same operation.
    fn compare_twin(&mut self, what: &str) {
        let Some((q_nz, m_nz, reported)) = self.twin else { return };
        if reported {
            return;
        }
        let (Some(a), Some(b)) = (self.last[0].clone(), self.last[1].clone()) else { return };
        let mut diff: Vec<&str> = Vec::new();
        if a.res != b.res || a.f != b.f || a.lf != b.lf {
            diff.push("result");
        }
        if a.t != b.t || a.cc != b.cc || a.fr != b.fr {
            diff.push("clock");
        }
        if a.ov != b.ov {
            diff.push("overruns");
        }
        if a.i != b.i {
            diff.push("inputs");
        }
        if a.q != b.q {
            diff.push("Q");
        }
        if a.m != b.m {
            diff.push("M");
        }
        if a.dead != b.dead {
            diff.push("dead");
        }
        if self.exec.case.driver.is_some() {
            if (a.li, a.lq, a.lm) != (b.li, b.lq, b.lm) {
                diff.push("lengths");
            }
            if (a.di, a.dq) != (b.di, b.dq) {
                diff.push("driver");
            }
        }
        if a.acc != b.acc {
            diff.push("access");
        }
        if a.vars != b.vars {
            diff.push("vars");
        }
        if diff.is_empty() {
            self.out.count("twin_steps_equal");
            return;
        }
        let first_var = a
            .vars
            .iter()
            .zip(b.vars.iter())
            .find(|(x, y)| x != y)
            .map(|(x, y)| format!(" {}: restarted={} fresh={}", x.0, x.1, y.1))
            .unwrap_or_default();
        let detail = format!("after `{what}` differs in {}{first_var}", diff.join("+"));
        let only_images = diff.iter().all(|d| *d == "Q" || *d == "M");
        if only_images && !self.flags.inst_bindings {
            // the images are zeroed by a cold restart: a difference in %Q/%M alone can only come
            // from a stale binding publishing an orphaned instance
            self.twin = Some((q_nz, m_nz, true));
            self.fail("cold-fresh", detail);
            return;
        }
        self.twin = Some((q_nz, m_nz, true));
        self.out.count("twin_sessions_diverged");
        let mut explained = false;
        if self.flags.inst_bindings {
            self.known("stale-binding", detail.clone());
            explained = true;
        }
        if self.flags.cfg_init {
            self.known("config-init-lost", detail.clone());
            explained = true;
        }
        if !explained {
            self.fail("cold-fresh", detail);
        }
    }

    fn start_twin(&mut self, with_load: bool) -> Result<(), String> {
        if !self.exec.case.twin {
            return Ok(());
        }
        let d0 = self.last[0].clone().unwrap();
        self.op(1, Op::Build)?;
        self.attach_driver(1)?;
        if self.store.is_some() {
            self.op(1, Op::Store(false))?;
        }
        if with_load {
            self.op(1, Op::Load)?;
        }
        self.twin = Some((d0.q != "-", d0.m != "-", false));
        self.out.count("twins");
        self.compare_twin("restart cold");
        Ok(())
    }

    fn step(&mut self, step: &Step) -> Result<(), String> {
        match step {
            Step::Cycle(dt) => {
                let d = self.op(0, Op::Cycle(*dt))?;
                if d.res == "ok" && self.store == Some(true) {
                    self.check_store_holds_state(&d, "autosaving cycle");
                }
                if d.res == "e:RetainStore" {
                    // a storage fault is an input the twin (which never saves) does not receive:
                    // the two no longer see the same trace, the comparison ends here
                    self.twin = None;
                    self.out.count("twin_sessions_ended_by_storage_fault");
                }
                if self.twin.is_some() {
                    self.op(1, Op::Cycle(*dt))?;
                    self.compare_twin("cycle");
                }
            }
            Step::Io(a, raw) => {
                self.op(0, Op::Io(a.clone(), *raw))?;
                if self.twin.is_some() {
                    self.op(1, Op::Io(a.clone(), *raw))?;
                    self.compare_twin("io");
                }
            }
            Step::Fault => {
                self.op(0, Op::Fault)?;
                if self.twin.is_some() {
                    self.op(1, Op::Fault)?;
                    self.compare_twin("fault");
                }
            }
            Step::WAcc(n, v) => {
                self.op(0, Op::WAcc(n.clone(), v.clone()))?;
                if self.twin.is_some() {
                    self.op(1, Op::WAcc(n.clone(), v.clone()))?;
                    self.compare_twin("wacc");
                }
            }
            Step::Store(a) => {
                self.store = Some(*a);
                self.op(0, Op::Store(*a))?;
            }
            Step::Save => {
                let d = self.op(0, Op::Save)?;
                if d.res == "ok" {
                    self.check_store_holds_state(&d, "save");
                }
                self.out.count(if d.res == "ok" { "saves_ok" } else { "saves_failed" });
            }
            Step::EnvW(w) => {
                self.op(0, Op::EnvW(*w))?;
            }
            Step::Field(bytes) => {
                self.field = bytes.clone();
                self.op(0, Op::Field(bytes.clone()))?;
                if self.twin.is_some() {
                    self.op(1, Op::Field(bytes.clone()))?;
                    self.compare_twin("field");
                }
            }
            Step::Restart(m) | Step::Rwr(m) => {
                let with_load = matches!(step, Step::Rwr(_));
                self.twin = None;
                let pre = self.last[0].clone().unwrap();
                let post = self.op(0, Op::Restart(*m))?;
                self.out.count(if *m == Mode::Warm { "restart_warm" } else { "restart_cold" });
                self.check_resets(&pre, &post, *m);
                match m {
                    Mode::Warm => self.check_warm(&pre, &post),
                    Mode::Cold => self.check_cold_vars(&post),
                }
                if with_load {
                    let after = self.op(0, Op::Load)?;
                    self.check_load(&post, &after);
                    if *m == Mode::Warm {
                        self.check_warm_after_load(&pre, &after);
                    }
                }
                if *m == Mode::Cold {
                    self.start_twin(with_load)?;
                }
            }
            Step::Sched(script) => {
                self.twin = None;
                let d = self.op(0, Op::Sched(script.clone()))?;
                self.out.count("sched_tails");
                // every request is carried out unless a later one replaced it before the thread
                // took it (only possible before the thread starts): requests are never lost
                let pre = script.iter().filter(|(w, _)| *w == When::Pre).count();
                let expected = script.len() - pre + usize::from(pre > 0);
                if let Some((pending, loads)) = &d.sched {
                    if d.res != "ok" || pending != "-" || *loads != expected {
                        self.fail(
                            "sched-request-lost",
                            format!("res={} pending={pending} restarts carried out={loads} requested (not superseded)={expected}", d.res),
                        );
                    }
                }
                if script.iter().any(|(w, _)| *w == When::During) {
                    self.out.count("sched_request_during_restart");
                }
            }
            Step::Power(restart) => {
                self.twin = None;
                self.op(0, Op::Build)?;
                self.attach_driver(0)?;
                let auto = self.store.unwrap_or(false);
                self.op(0, Op::Store(auto))?;
                let mut at_restart = None;
                if let Some(m) = restart {
                    let before = self.last[0].clone().unwrap();
                    let d = self.op(0, Op::Restart(*m))?;
                    self.check_resets(&before, &d, *m);
                    at_restart = Some(d);
                }
                let post = self.op(0, Op::Load)?;
                self.out.count("power_cycles");
                self.check_power(&post, restart.is_some(), at_restart.as_ref());
            }
        }
        Ok(())
    }
}

/// Runs one case on the implementation and appends it to `out`.  Returns the known-finding
/// signatures it reproduced.
fn run_case(n: u64, case: &Case, profile: &str, out: &mut Out, tmp: &std::path::Path) -> Result<BTreeSet<String>, String> {
    let dir = tmp.join(format!("c09_{}_{n}", std::process::id()));
    let _ = std::fs::remove_dir_all(&dir);
    let medium = if case.scripted_store {
        exec::Medium::Scripted(std::sync::Arc::new(std::sync::Mutex::new(exec::ScriptedMedium {
            content: None,
            writable: !case.store_starts_unwritable,
        })))
    } else {
        if !case.store_starts_unwritable {
            std::fs::create_dir_all(&dir).map_err(|e| format!("mkdir: {e}"))?;
        }
        exec::Medium::File { dir: dir.clone(), path: dir.join("retain.bin") }
    };
    out.line(format!("case {n}"));
    for l in case.describe() {
        out.line(l);
    }
    let fl = flags(case);
    out.line(format!(
        "#flags profile={profile} inst_bindings={} single_true={} cfg_init={} m_bindings={}",
        fl.inst_bindings, fl.single_true, fl.cfg_init, fl.m_bindings
    ));
    let mut r = Runner {
        n,
        exec: Exec::new(case, medium),
        infos: infos(case),
        flags: fl,
        out,
        last: vec![None, None],
        twin: None,
        store: None,
        saved: None,
        known: BTreeSet::new(),
        fails: Vec::new(),
        field: Vec::new(),
    };
    let d0 = r.op(0, Op::Build)?;
    r.attach_driver(0)?;
    if case.store_starts_unwritable {
        r.op(0, Op::EnvW(false))?;
    }
    // the build itself: every variable has its declared (or VAR_CONFIG) initial value
    for i in r.infos.clone() {
        let fresh = fresh_of(&r.infos, &i, None);
        match d0.var(&i.path) {
            Some(v) if v == fresh => {}
            other => r.fail("build-init", format!("{}: built={:?} declared={}", i.path, other, fresh)),
        }
    }
    if d0.dead != 0 {
        r.fail("bindings", format!("dead={} after build", d0.dead));
    }
    let mut cycles_before_restart = false;
    let mut nontrivial = false;
    for step in &case.history {
        match step {
            Step::Cycle(_) => cycles_before_restart = true,
            Step::Restart(_) | Step::Rwr(_) | Step::Power(_) | Step::Sched(_) if cycles_before_restart => nontrivial = true,
            _ => {}
        }
        r.step(step)?;
    }
    let known = r.known.clone();
    let _ = std::fs::remove_dir_all(&dir);
    if nontrivial {
        out.line("tag nontrivial");
    }
    out.line(format!("tag {profile}"));
    out.line("end");
    Ok(known)
}

pub fn run(args: &Args) -> i32 {
    let mut out = Out::new();
    let steps = args.extra_usize("steps", 12);
    let tmp = std::env::temp_dir();
    let witnesses = witness::all();
    for n in args.case_numbers() {
        let (case, profile, expect) = if (n as usize) < witnesses.len() {
            let w = &witnesses[n as usize];
            (w.case.clone(), "witness".to_string(), Some(w.signature))
        } else {
            let mut rng = Rng::for_case(args.seed, n);
            let (case, p) = gen::gen_case(&mut rng, steps);
            (case, format!("{p:?}"), None)
        };
        if args.extra.contains_key("show") {
            eprintln!("---- case {n} ({profile})\n{}", case.render_source());
        }
        match run_case(n, &case, &profile, &mut out, &tmp) {
            Ok(known) => {
                if let Some(Some(sig)) = expect {
                    // replay of a recorded witness: say whether the finding still reproduces
                    let idx = out.buf.rfind("\nend\n").unwrap_or(out.buf.len());
                    let line = format!(
                        "\n#o witness {sig} {}",
                        if known.contains(sig) { "reproduced" } else { "NOT-reproduced" }
                    );
                    out.buf.insert_str(idx, &line);
                }
            }
            Err(e) => {
                eprintln!("case {n}: {e}\n{}", case.render_source());
                return 3;
            }
        }
        out.count("cases");
        out.count(&format!("profile_{profile}"));
    }
    out.finish(&args.out);
    0
}
