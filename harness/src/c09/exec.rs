//! C09 — runs primitive operations on the REAL runtime and produces canonical dumps.

use super::types::*;
use std::collections::HashSet;
use std::path::PathBuf;
use trust_runtime::error::RuntimeError;
use trust_runtime::harness::TestHarness;
use trust_runtime::io::{IoAddress, IoDriver, IoTarget};
use trust_runtime::memory::{InstanceId, MemoryLocation, VariableStorage};
use std::sync::{Arc, Mutex};
use trust_runtime::retain::{FileRetainStore, RetainStore};
use trust_runtime::RetainSnapshot;
use trust_runtime::value::{Duration, Value, ValueRef};
use trust_runtime::RestartMode;

#[derive(Clone, Debug)]
pub enum Op {
    Build,
    CopyIn(usize),
    Cycle(i64),
    Io(Addr, u64),
    Restart(Mode),
    Store(bool),
    Save,
    Load,
    Fault,
    WAcc(String, MVal),
    /// make the storage medium writable / unwritable
    EnvW(bool),
    /// size the process images and register a field driver
    Driver(usize, usize, usize),
    /// the field presents these input bytes
    Field(Vec<u8>),
    /// hand the runtime to a paused resource thread and queue restart requests (ends the slot)
    Sched(Vec<(When, Mode)>),
}

impl Op {
    pub fn proto(&self) -> String {
        match self {
            Op::Build => "build".into(),
            Op::CopyIn(j) => format!("copyin {j}"),
            Op::Cycle(dt) => format!("cycle {dt}"),
            Op::Io(a, raw) => format!("io {} {raw}", a.proto()),
            Op::Restart(m) => format!("restart {}", m.word()),
            Op::Store(a) => format!("store {}", u8::from(*a)),
            Op::Save => "save".into(),
            Op::Load => "load".into(),
            Op::Fault => "fault".into(),
            Op::WAcc(n, v) => format!("wacc {n} {}", v.show()),
            Op::EnvW(w) => format!("envw {}", u8::from(*w)),
            Op::Driver(i, q, m) => format!("driver {i} {q} {m}"),
            Op::Field(b) => format!("field {}", crate::util::hex(b)),
            Op::Sched(script) => format!(
                "sched {}",
                script.iter().map(|(w, m)| format!("{}:{}", w.word(), m.word())).collect::<Vec<_>>().join(",")
            ),
        }
    }
}

/// Everything observed after one operation.
#[derive(Clone, Debug, Default)]
pub struct Dump {
    pub res: String,
    pub t: i64,
    pub cc: u64,
    pub f: bool,
    pub lf: String,
    pub fr: usize,
    pub ov: Vec<u64>,
    pub i: String,
    pub q: String,
    pub m: String,
    /// image lengths
    pub li: usize,
    pub lq: usize,
    pub lm: usize,
    /// slice lengths the field driver was handed during this operation
    pub di: Option<usize>,
    pub dq: Option<usize>,
    pub dead: usize,
    pub acc: Vec<(String, String)>,
    /// content of the storage medium (`name=value` in stored order)
    pub store: Vec<(String, String)>,
    /// flattened `path -> canonical value` (FB instances expanded to their members)
    pub vars: Vec<(String, String)>,
    vline: String,
    /// `sched` operations: (request left pending, retain loads = restarts carried out)
    pub sched: Option<(String, usize)>,
}

impl Dump {
    pub fn line(&self) -> String {
        if let Some((pending, loads)) = &self.sched {
            return format!("res={} pending={pending} loads={loads} V {}", self.res, self.vline);
        }
        format!(
            "res={} t={} cc={} f={} lf={} fr={} ov={} I={} Q={} M={} LI={} LQ={} LM={} DI={} DQ={} dead={} acc={} S={} V {}",
            self.res,
            self.t,
            self.cc,
            u8::from(self.f),
            self.lf,
            self.fr,
            if self.ov.is_empty() { "-".to_string() } else { crate::util::join(self.ov.iter(), ",") },
            self.i,
            self.q,
            self.m,
            self.li,
            self.lq,
            self.lm,
            self.di.map(|n| n.to_string()).unwrap_or_else(|| "-".into()),
            self.dq.map(|n| n.to_string()).unwrap_or_else(|| "-".into()),
            self.dead,
            if self.acc.is_empty() {
                "-".to_string()
            } else {
                self.acc.iter().map(|(n, v)| format!("{n}={v}")).collect::<Vec<_>>().join(",")
            },
            if self.store.is_empty() {
                "-".to_string()
            } else {
                self.store.iter().map(|(n, v)| format!("{n}={v}")).collect::<Vec<_>>().join(",")
            },
            self.vline
        )
    }
    pub fn var(&self, path: &str) -> Option<&str> {
        self.vars.iter().find(|(p, _)| p == path).map(|(_, v)| v.as_str())
    }
}

pub fn err_class(e: &RuntimeError) -> String {
    let s = format!("{e:?}");
    s.split(|c: char| !c.is_alphanumeric()).next().unwrap_or("").to_string()
}

fn trimmed_hex(b: &[u8]) -> String {
    let n = b.iter().rposition(|x| *x != 0).map(|p| p + 1).unwrap_or(0);
    crate::util::hex(&b[..n])
}

/// Canonical rendering of a plain value (instances are `@id`, expanded by the callers).
pub fn canon(v: &Value) -> String {
    match v {
        Value::Bool(b) => format!("n1:{}", u8::from(*b)),
        Value::SInt(x) => format!("n2:{x}"),
        Value::Int(x) => format!("n3:{x}"),
        Value::DInt(x) => format!("n4:{x}"),
        Value::LInt(x) => format!("n5:{x}"),
        Value::USInt(x) => format!("n6:{x}"),
        Value::UInt(x) => format!("n7:{x}"),
        Value::UDInt(x) => format!("n8:{x}"),
        Value::ULInt(x) => format!("n9:{x}"),
        Value::Real(x) => format!("n10:{}", x.to_bits()),
        Value::LReal(x) => format!("n11:{}", x.to_bits()),
        Value::Byte(x) => format!("n12:{x}"),
        Value::Word(x) => format!("n13:{x}"),
        Value::DWord(x) => format!("n14:{x}"),
        Value::LWord(x) => format!("n15:{x}"),
        Value::Time(d) => format!("n16:{}", d.as_nanos()),
        Value::LTime(d) => format!("n17:{}", d.as_nanos()),
        Value::Date(d) => format!("n18:{}", d.ticks()),
        Value::LDate(d) => format!("n19:{}", d.nanos()),
        Value::Tod(d) => format!("n20:{}", d.ticks()),
        Value::LTod(d) => format!("n21:{}", d.nanos()),
        Value::Dt(d) => format!("n22:{}", d.ticks()),
        Value::Ldt(d) => format!("n23:{}", d.nanos()),
        Value::String(s) => format!("s24:{}", crate::util::hex(s.as_bytes())),
        Value::WString(s) => format!("s25:{}", crate::util::hex(s.as_bytes())),
        Value::Char(c) => format!("n26:{c}"),
        Value::WChar(c) => format!("n27:{c}"),
        Value::Array(a) => format!(
            "a{}[{}]",
            a.dimensions.iter().map(|(l, h)| format!("{l}_{h}")).collect::<Vec<_>>().join(";"),
            a.elements.iter().map(canon).collect::<Vec<_>>().join(",")
        ),
        Value::Struct(s) => format!(
            "r{{{}}}",
            s.fields.iter().map(|(n, v)| format!("{n}={}", canon(v))).collect::<Vec<_>>().join(",")
        ),
        Value::Enum(e) => format!("n30:{}", e.numeric_value),
        Value::Reference(_) => "&".into(),
        Value::Instance(id) => format!("@{}", id.0),
        Value::Null => "~".into(),
    }
}

fn show_var(st: &VariableStorage, v: &Value) -> String {
    match v {
        Value::Instance(id) => match st.get_instance(*id) {
            Some(inst) => format!(
                "<{}>",
                inst.variables.iter().map(|(n, v)| format!("{n}={}", canon(v))).collect::<Vec<_>>().join(",")
            ),
            None => "<?>".into(),
        },
        other => canon(other),
    }
}

fn flatten(st: &VariableStorage, path: &str, v: &Value, out: &mut Vec<(String, String)>) {
    match v {
        Value::Instance(id) => {
            if let Some(inst) = st.get_instance(*id) {
                for (n, v) in inst.variables.iter() {
                    out.push((format!("{path}.{n}"), canon(v)));
                }
            }
        }
        other => out.push((path.to_string(), canon(other))),
    }
}

fn live_ids(st: &VariableStorage) -> HashSet<InstanceId> {
    let mut live = HashSet::new();
    for v in st.globals().values() {
        if let Value::Instance(id) = v {
            live.insert(*id);
            if let Some(inst) = st.get_instance(*id) {
                for w in inst.variables.values() {
                    if let Value::Instance(j) = w {
                        live.insert(*j);
                    }
                }
            }
        }
    }
    live
}

fn ref_dead(live: &HashSet<InstanceId>, r: &ValueRef) -> bool {
    match r.location {
        MemoryLocation::Instance(id) => !live.contains(&id),
        _ => false,
    }
}

fn mval_to_value(v: &MVal) -> Value {
    match v {
        MVal::Num(1, x) => Value::Bool(*x != 0),
        MVal::Num(3, x) => Value::Int(*x as i16),
        MVal::Num(4, x) => Value::DInt(*x as i32),
        other => panic!("wacc value {other:?}"),
    }
}

fn io_value(a: &Addr, raw: u64) -> Value {
    match a.size {
        'X' => Value::Bool(raw != 0),
        'B' => Value::Byte(raw as u8),
        'W' => Value::Word(raw as u16),
        'D' => Value::DWord(raw as u32),
        _ => Value::LWord(raw),
    }
}

/// The field behind the driver: input bytes it delivers, and the slice lengths it was handed.
#[derive(Default)]
pub struct Field {
    pub inputs: Vec<u8>,
    pub seen_in: Option<usize>,
    pub seen_out: Option<usize>,
}

/// A driver of the kind every shipped driver is: it fills the whole input slice it is given.
pub struct FieldDriver(pub Arc<Mutex<Field>>);

impl IoDriver for FieldDriver {
    fn read_inputs(&mut self, inputs: &mut [u8]) -> Result<(), RuntimeError> {
        let mut f = self.0.lock().unwrap();
        for (i, b) in inputs.iter_mut().enumerate() {
            *b = f.inputs.get(i).copied().unwrap_or(0);
        }
        f.seen_in = Some(inputs.len());
        Ok(())
    }
    fn write_outputs(&mut self, outputs: &[u8]) -> Result<(), RuntimeError> {
        self.0.lock().unwrap().seen_out = Some(outputs.len());
        Ok(())
    }
}

/// A scripted storage medium: `store` fails while `writable` is false.
#[derive(Default)]
pub struct ScriptedMedium {
    pub content: Option<RetainSnapshot>,
    pub writable: bool,
}

pub struct ScriptedStore(pub Arc<Mutex<ScriptedMedium>>);

impl RetainStore for ScriptedStore {
    fn load(&self) -> Result<RetainSnapshot, RuntimeError> {
        Ok(self.0.lock().unwrap().content.clone().unwrap_or_default())
    }
    fn store(&self, snapshot: &RetainSnapshot) -> Result<(), RuntimeError> {
        let mut m = self.0.lock().unwrap();
        if !m.writable {
            return Err(RuntimeError::RetainStore("scripted write failure".into()));
        }
        m.content = Some(snapshot.clone());
        Ok(())
    }
}

/// The case's medium behind a gate: a `load` parks on a channel when `park` is set (so that the
/// controller can act at a known point in the middle of a restart) and counts the loads.
pub struct GateStore {
    pub inner: Box<dyn RetainStore>,
    pub loads: Arc<std::sync::atomic::AtomicUsize>,
    pub park: Arc<std::sync::atomic::AtomicBool>,
    pub entered: Mutex<std::sync::mpsc::Sender<()>>,
    pub go: Mutex<std::sync::mpsc::Receiver<()>>,
}

impl RetainStore for GateStore {
    fn load(&self) -> Result<RetainSnapshot, RuntimeError> {
        use std::sync::atomic::Ordering;
        self.loads.fetch_add(1, Ordering::SeqCst);
        if self.park.swap(false, Ordering::SeqCst) {
            let _ = self.entered.lock().unwrap().send(());
            let _ = self.go.lock().unwrap().recv_timeout(std::time::Duration::from_secs(30));
        }
        self.inner.load()
    }
    fn store(&self, snapshot: &RetainSnapshot) -> Result<(), RuntimeError> {
        self.inner.store(snapshot)
    }
}

/// The storage medium of a case: the real `FileRetainStore` inside a directory that may not
/// exist yet, or a scripted store.
pub enum Medium {
    File { dir: PathBuf, path: PathBuf },
    Scripted(Arc<Mutex<ScriptedMedium>>),
}

pub struct Exec<'a> {
    pub case: &'a Case,
    pub source: String,
    pub slots: Vec<Option<TestHarness>>,
    pub medium: Medium,
    /// field of each slot's driver (None = no driver registered)
    pub fields: Vec<Option<Arc<Mutex<Field>>>>,
}

impl<'a> Exec<'a> {
    pub fn new(case: &'a Case, medium: Medium) -> Self {
        Exec { case, source: case.render_source(), slots: vec![None, None], medium, fields: vec![None, None] }
    }

    fn medium_content(&self) -> Vec<(String, String)> {
        let snap = match &self.medium {
            Medium::File { path, .. } => FileRetainStore::new(path).load().unwrap_or_default(),
            Medium::Scripted(m) => m.lock().unwrap().content.clone().unwrap_or_default(),
        };
        snap.values().iter().map(|(n, v)| (n.to_string(), canon(v))).collect()
    }

    pub fn dump(&self, k: usize, res: Result<(), RuntimeError>) -> Dump {
        let h = self.slots[k].as_ref().expect("slot");
        let rt = h.runtime();
        let st = rt.storage();
        let mut d = Dump {
            res: match &res {
                Ok(()) => "ok".into(),
                Err(e) => format!("e:{}", err_class(e)),
            },
            t: rt.current_time().as_nanos(),
            cc: rt.cycle_counter(),
            f: rt.faulted(),
            lf: rt.last_fault().map(err_class).unwrap_or_else(|| "-".into()),
            fr: st.frames().len(),
            ov: self.case.tasks.iter().map(|t| rt.task_overrun_count(&t.name).unwrap_or(u64::MAX)).collect(),
            i: trimmed_hex(rt.io().inputs()),
            q: trimmed_hex(rt.io().outputs()),
            m: trimmed_hex(rt.io().memory()),
            li: rt.io().inputs().len(),
            lq: rt.io().outputs().len(),
            lm: rt.io().memory().len(),
            di: self.fields[k].as_ref().and_then(|f| f.lock().unwrap().seen_in),
            dq: self.fields[k].as_ref().and_then(|f| f.lock().unwrap().seen_out),
            ..Default::default()
        };
        // connectedness of every binding the runtime holds
        let live = live_ids(st);
        let mut dead = 0usize;
        for b in rt.io().bindings() {
            if let IoTarget::Reference(r) = &b.target {
                if ref_dead(&live, r) {
                    dead += 1;
                }
            }
        }
        for a in &self.case.access {
            if let Some(b) = rt.access_map().get(&a.name) {
                if ref_dead(&live, &b.reference) {
                    dead += 1;
                }
            }
        }
        for t in rt.tasks() {
            for r in &t.fb_instances {
                if ref_dead(&live, r) {
                    dead += 1;
                }
            }
        }
        d.dead = dead;
        d.store = self.medium_content();
        for a in &self.case.access {
            let v = match rt.access_map().get(&a.name).and_then(|b| st.read_by_ref(b.reference.clone())) {
                Some(v) => show_var(st, v),
                None => "?".into(),
            };
            d.acc.push((a.name.clone(), v));
        }
        let names: Vec<String> = rt.programs().keys().map(|n| n.to_string()).collect();
        self.fill_vars(st, &names, &mut d);
        d
    }

    /// The `V` part of a dump: every global and every variable of every program's live instance.
    fn fill_vars(&self, st: &VariableStorage, prog_names: &[String], d: &mut Dump) {
        let mut parts: Vec<String> = Vec::new();
        let mut pparts: Vec<String> = Vec::new();
        for g in &self.case.globals {
            match st.get_global(&g.name) {
                Some(v) => {
                    parts.push(format!("{}={}", g.name, show_var(st, v)));
                    flatten(st, &g.name, v, &mut d.vars);
                }
                None => parts.push(format!("{}=?", g.name)),
            }
        }
        for name in prog_names {
            let mut s = format!("| {name} ");
            match st.get_global(name.as_str()) {
                Some(Value::Instance(id)) => match st.get_instance(*id) {
                    Some(inst) => {
                        let mut vs = Vec::new();
                        for (n, v) in inst.variables.iter() {
                            vs.push(format!("{n}={}", show_var(st, v)));
                            flatten(st, &format!("{name}.{n}"), v, &mut d.vars);
                        }
                        s.push_str(&vs.join(" "));
                    }
                    None => s.push('?'),
                },
                _ => s.push('?'),
            }
            pparts.push(s);
        }
        d.vline = format!("{} {}", parts.join(" "), pparts.join(" "));
    }


    fn set_store(&mut self, k: usize, autosave: bool) {
        let store: Box<dyn RetainStore> = match &self.medium {
            Medium::File { path, .. } => Box::new(FileRetainStore::new(path)),
            Medium::Scripted(m) => Box::new(ScriptedStore(m.clone())),
        };
        let interval = if autosave { Some(Duration::ZERO) } else { None };
        self.slots[k].as_mut().unwrap().runtime_mut().set_retain_store(Some(store), interval);
    }

    /// The tail of a history through the REAL resource thread (scheduler.rs): the runtime of slot
    /// `k` is handed to `ResourceRunner::spawn` (paused, so that no cycle runs), restart requests
    /// are written to its restart signal exactly as the control endpoint does (lock, store), at
    /// scripted moments: before the thread starts, while it is idle, or while it is inside the
    /// retain load of the previous request's restart (the store parks there on a channel).
    fn run_sched(&mut self, k: usize, script: &[(When, Mode)]) -> Result<Dump, String> {
        use std::sync::atomic::{AtomicBool, AtomicUsize, Ordering};
        use std::sync::mpsc::channel;
        use std::time::{Duration as StdDuration, Instant};
        use trust_runtime::scheduler::{ResourceCommand, ResourceRunner, StartGate, StdClock};

        let h = self.slots[k].take().ok_or("sched: no runtime")?;
        self.fields[k] = None;
        let prog_names: Vec<String> = h.runtime().programs().keys().map(|n| n.to_string()).collect();
        let mut runtime = h.into_runtime();
        let inner: Box<dyn RetainStore> = match &self.medium {
            Medium::File { path, .. } => Box::new(FileRetainStore::new(path)),
            Medium::Scripted(m) => Box::new(ScriptedStore(m.clone())),
        };
        let loads = Arc::new(AtomicUsize::new(0));
        let park = Arc::new(AtomicBool::new(false));
        let (entered_tx, entered_rx) = channel::<()>();
        let (go_tx, go_rx) = channel::<()>();
        runtime.set_retain_store(
            Some(Box::new(GateStore {
                inner,
                loads: loads.clone(),
                park: park.clone(),
                entered: Mutex::new(entered_tx),
                go: Mutex::new(go_rx),
            })),
            None,
        );
        let signal: Arc<Mutex<Option<RestartMode>>> = Arc::new(Mutex::new(None));
        let gate = Arc::new(StartGate::new());
        let runner = ResourceRunner::new(runtime, StdClock::new(), Duration::from_millis(1))
            .with_restart_signal(signal.clone())
            .with_start_gate(gate.clone());
        let mut handle = runner.spawn("c09-sched").map_err(|e| format!("spawn: {e:?}"))?;
        let control = handle.control();
        control.pause().map_err(|e| format!("pause: {e:?}"))?;

        let rmode = |m: Mode| match m {
            Mode::Cold => RestartMode::Cold,
            Mode::Warm => RestartMode::Warm,
        };
        let next_during = |j: usize| j < script.len() && script[j].0 == When::During;
        // no request pending and the signal's lock free: nothing is being carried out
        let wait_idle = || -> bool {
            let deadline = Instant::now() + StdDuration::from_secs(20);
            loop {
                if signal.lock().map(|g| g.is_none()).unwrap_or(true) {
                    return true;
                }
                if Instant::now() > deadline {
                    return false;
                }
                std::thread::sleep(StdDuration::from_millis(1));
            }
        };
        let mut res = String::from("ok");
        let mut i = 0;
        while i < script.len() && script[i].0 == When::Pre {
            *signal.lock().unwrap() = Some(rmode(script[i].1));
            i += 1;
        }
        if i > 0 && next_during(i) {
            park.store(true, Ordering::SeqCst);
        }
        gate.open();
        while i < script.len() {
            let (when, m) = script[i];
            match when {
                When::Pre | When::Idle => {
                    if !wait_idle() {
                        res = "stuck-busy".into();
                    }
                    if next_during(i + 1) {
                        park.store(true, Ordering::SeqCst);
                    }
                    *signal.lock().unwrap() = Some(rmode(m));
                }
                When::During => {
                    // the resource thread is inside the retain load of the previous request
                    let parked = entered_rx.recv_timeout(StdDuration::from_secs(8)).is_ok();
                    if !parked {
                        res = "no-restart-in-progress".into();
                    }
                    if next_during(i + 1) {
                        park.store(true, Ordering::SeqCst);
                    }
                    // the control endpoint's `*signal.lock() = Some(mode)`, issued now: if the lock is
                    // held (a restart is running) the write waits for it
                    match signal.try_lock() {
                        Ok(mut g) => {
                            *g = Some(rmode(m));
                            drop(g);
                            let _ = go_tx.send(());
                        }
                        Err(_) => {
                            let _ = go_tx.send(());
                            *signal.lock().unwrap() = Some(rmode(m));
                        }
                    }
                }
            }
            i += 1;
        }
        if !wait_idle() {
            res = "stuck-busy".into();
        }
        // a parked load that nobody is waiting for any more must not hang the thread
        park.store(false, Ordering::SeqCst);
        let _ = go_tx.send(());
        let (tx, rx) = channel();
        let _ = control.send_command(ResourceCommand::Snapshot { respond_to: tx });
        let snap = rx.recv_timeout(StdDuration::from_secs(20));
        let pending = match *signal.lock().unwrap() {
            None => "-",
            Some(RestartMode::Cold) => "cold",
            Some(RestartMode::Warm) => "warm",
        };
        let n_loads = loads.load(Ordering::SeqCst);
        if let Some(e) = control.last_error() {
            res = format!("e:{}", err_class(&e));
        }
        handle.stop();
        let _ = handle.join();
        let mut d = Dump { res, sched: Some((pending.to_string(), n_loads)), ..Default::default() };
        match snap {
            Ok(s) => self.fill_vars(&s.storage, &prog_names, &mut d),
            Err(_) => {
                if d.res == "ok" {
                    d.res = "no-reply".into();
                }
            }
        }
        Ok(d)
    }

    /// Run one primitive operation on slot `k` of the real runtime.
    pub fn apply(&mut self, k: usize, op: &Op) -> Result<Dump, String> {
        if let Op::Sched(script) = op {
            return self.run_sched(k, script);
        }
        if let Some(f) = &self.fields[k] {
            let mut f = f.lock().unwrap();
            f.seen_in = None;
            f.seen_out = None;
        }
        let res: Result<(), RuntimeError> = match op {
            Op::Build => {
                let h = TestHarness::from_source(&self.source).map_err(|e| format!("compile: {e}"))?;
                self.slots[k] = Some(h);
                self.fields[k] = None;
                Ok(())
            }
            Op::CopyIn(j) => {
                let src: Vec<u8> = self.slots[*j].as_ref().unwrap().runtime().io().inputs().to_vec();
                let h = self.slots[k].as_mut().unwrap();
                let io = h.runtime_mut().io_mut();
                let (q, m) = (io.outputs().len(), io.memory().len());
                io.resize(src.len(), q, m);
                io.inputs_mut().copy_from_slice(&src);
                Ok(())
            }
            Op::Cycle(dt) => {
                let h = self.slots[k].as_mut().unwrap();
                h.advance_time(Duration::from_nanos(*dt));
                let r = h.cycle();
                match r.errors.into_iter().next() {
                    Some(e) => Err(e),
                    None => Ok(()),
                }
            }
            Op::Io(a, raw) => {
                let h = self.slots[k].as_mut().unwrap();
                let addr = IoAddress::parse(&a.st()).map_err(|e| format!("addr: {e}"))?;
                h.runtime_mut().io_mut().write(&addr, io_value(a, *raw))
            }
            Op::Restart(m) => {
                let mode = match m {
                    Mode::Cold => RestartMode::Cold,
                    Mode::Warm => RestartMode::Warm,
                };
                self.slots[k].as_mut().unwrap().restart(mode)
            }
            Op::Store(a) => {
                self.set_store(k, *a);
                Ok(())
            }
            Op::Save => self.slots[k].as_mut().unwrap().runtime_mut().save_retain_store(),
            Op::Load => self.slots[k].as_mut().unwrap().runtime_mut().load_retain_store(),
            Op::Fault => {
                let _ = self.slots[k].as_mut().unwrap().runtime_mut().simulation_fault("c09");
                Ok(())
            }
            Op::WAcc(n, v) => self.slots[k].as_mut().unwrap().set_access(n, mval_to_value(v)),
            Op::Driver(ni, nq, nm) => {
                let h = self.slots[k].as_mut().unwrap();
                h.runtime_mut().io_mut().resize(*ni, *nq, *nm);
                let field = Arc::new(Mutex::new(Field::default()));
                h.runtime_mut().add_io_driver("field", Box::new(FieldDriver(field.clone())));
                self.fields[k] = Some(field);
                Ok(())
            }
            Op::Field(bytes) => {
                if let Some(f) = &self.fields[k] {
                    f.lock().unwrap().inputs = bytes.clone();
                }
                Ok(())
            }
            Op::Sched(_) => unreachable!(),
            Op::EnvW(w) => {
                match &self.medium {
                    Medium::File { dir, .. } => {
                        if *w {
                            std::fs::create_dir_all(dir).map_err(|e| format!("mkdir: {e}"))?;
                        } else if dir.exists() {
                            return Err("the file medium only goes from missing to present".into());
                        }
                    }
                    Medium::Scripted(m) => m.lock().unwrap().writable = *w,
                }
                Ok(())
            }
        };
        Ok(self.dump(k, res))
    }
}
