//! C09 — case generator: projects with all mixes of RETAIN/NON_RETAIN/unqualified/PERSISTENT x
//! global/program/FB member x value shapes, plus histories.

use super::types::*;
use crate::rng::Rng;

/// Which guard of the `_partial` theorems a case is allowed to violate.
#[derive(Clone, Copy, Debug, PartialEq, Eq)]
pub enum Profile {
    /// no binding into instances, SINGLE initial values FALSE, no VAR_CONFIG values, no %M
    Clean,
    /// direct-address / access / task-FB bindings into program or FB instances
    InstBindings,
    /// a task whose SINGLE variable is initially TRUE
    SingleTrue,
    /// %M-bound variables and outputs that are not rewritten
    Images,
    /// VAR_CONFIG initial values
    ConfigInit,
    /// anything
    Mixed,
}

struct Alloc {
    next: [u32; 3],
}

impl Alloc {
    fn take(&mut self, area: char, size: char) -> Addr {
        let idx = match area {
            'I' => 0,
            'Q' => 1,
            _ => 2,
        };
        let n = match size {
            'X' | 'B' => 1,
            'W' => 2,
            'D' => 4,
            _ => 8,
        };
        // align like a real configuration would
        let byte = (self.next[idx] + n - 1) / n * n;
        self.next[idx] = byte + n;
        Addr { area, size, byte, bit: 0 }
    }
}

fn pick_pol(rng: &mut Rng) -> Pol {
    *rng.pick(&[Pol::R, Pol::R, Pol::N, Pol::U, Pol::U, Pol::P])
}

fn pick_value_ty(rng: &mut Rng) -> Ty {
    match rng.below(20) {
        0..=10 => Ty::S(rng.below(STYS.len() as u64) as usize),
        11 => Ty::Enum,
        12 | 13 => Ty::S1,
        14 => Ty::S2,
        15 | 16 => {
            let lo = rng.range(-2, 2);
            Ty::ArrInt(lo, lo + rng.range(0, 3))
        }
        17 => Ty::Arr2,
        18 => Ty::ArrS1,
        _ => Ty::S(ST_INT),
    }
}

fn pick_init(rng: &mut Rng, ty: &Ty) -> Option<usize> {
    let n = ty.lits().len();
    if n == 0 || rng.chance(1, 3) {
        None
    } else {
        Some(rng.below(n as u64) as usize)
    }
}

/// A statement that changes the variable `v` (declared in `scope`) every time it runs.
fn mutator(rng: &mut Rng, scope: &Scope, v: &Var, siblings: &[Var]) -> Option<Stmt> {
    let base = Tgt::var(scope.clone(), &v.name);
    let with = |path: Vec<Seg>| Tgt { path, ..base.clone() };
    let s = match &v.ty {
        Ty::S(i) => match STYS[*i].class {
            Class::Bool => SStmt::Tog(base),
            Class::Int => {
                let k = if STYS[*i].io == Some('B') { 1 } else { rng.range(1, 3) };
                // untyped literal: SINT/INT operands are computed in DINT and the result is stored
                // as it is, so the variable holds a DINT afterwards (not for AT-bound variables:
                // the image coercion of a drifted value is outside the model)
                let narrow = STYS[*i].tag == 2 || STYS[*i].tag == 3;
                if (!narrow || v.at.is_none()) && rng.chance(if narrow { 1 } else { 0 } + 1, 4) {
                    SStmt::IncU(base, k)
                } else {
                    SStmt::Inc(base, k, *i)
                }
            }
            Class::Lit => {
                let ls = lits(*i);
                let mut j = rng.below(ls.len() as u64) as usize;
                if Some(j) == v.init && ls.len() >= 2 {
                    j = (j + 1) % ls.len();
                }
                SStmt::Set(base, ls[j].0.clone(), ls[j].1.clone())
            }
        },
        Ty::Enum => {
            let ls = enum_lits();
            let j = rng.below(2) as usize;
            SStmt::Set(base, ls[j].0.clone(), ls[j].1.clone())
        }
        Ty::S1 => match rng.below(4) {
            0 if rng.chance(1, 3) => SStmt::IncU(with(vec![Seg::F("a".into())]), rng.range(1, 3)),
            0 => SStmt::Inc(with(vec![Seg::F("a".into())]), rng.range(1, 3), ST_INT),
            1 => SStmt::Tog(with(vec![Seg::F("b".into())])),
            2 => {
                let ls = lits(ST_STRING);
                let j = rng.below(ls.len() as u64) as usize;
                SStmt::Set(with(vec![Seg::F("s".into())]), ls[j].0.clone(), ls[j].1.clone())
            }
            _ => {
                let ls = enum_lits();
                SStmt::Set(with(vec![Seg::F("e".into())]), ls[1].0.clone(), ls[1].1.clone())
            }
        },
        Ty::S2 => SStmt::Inc(with(vec![Seg::F("x".into())]), rng.range(1, 3), ST_LINT),
        Ty::ArrInt(lo, hi) if rng.chance(1, 3) => SStmt::IncU(with(vec![Seg::I(vec![rng.range(*lo, *hi)])]), rng.range(1, 3)),
        Ty::ArrInt(lo, hi) => SStmt::Inc(with(vec![Seg::I(vec![rng.range(*lo, *hi)])]), rng.range(1, 3), ST_INT),
        Ty::Arr2 => SStmt::Inc(with(vec![Seg::I(vec![rng.range(0, 1), rng.range(0, 2)])]), rng.range(1, 3), ST_DINT),
        Ty::ArrS1 => {
            let src = siblings.iter().find(|s| s.ty == Ty::S1)?;
            SStmt::Cpy(with(vec![Seg::I(vec![rng.range(1, 2)])]), Tgt::var(scope.clone(), &src.name))
        }
        Ty::Fb(_) => {
            let k = rng.range(1, 9);
            return Some(Stmt::Call(base, vec![("inc".into(), format!("INT#{k}"), MVal::Num(3, k as i128))]));
        }
    };
    Some(Stmt::S(s))
}

fn gen_fb(rng: &mut Rng, idx: usize, alloc: &mut Alloc, allow_at: bool) -> FbType {
    let mut members = vec![
        Var { name: "inc".into(), ty: Ty::S(ST_INT), pol: Pol::U, init: None, at: None, block: "VAR_INPUT", init_expr: None },
        Var { name: "tot".into(), ty: Ty::S(ST_INT), pol: Pol::U, init: None, at: None, block: "VAR_OUTPUT", init_expr: None },
    ];
    let nvars = 1 + rng.below(3) as usize;
    for k in 0..nvars {
        let ty = if rng.chance(2, 3) { Ty::S(*rng.pick(&[1usize, 2, 3, 0, 6, 15, 23])) } else { pick_value_ty(rng) };
        let ty = if ty == Ty::ArrS1 { Ty::S1 } else { ty };
        let init = pick_init(rng, &ty);
        members.push(Var { name: format!("m{k}"), ty, pol: pick_pol(rng), init, at: None, block: "VAR", init_expr: None });
    }
    if allow_at && rng.chance(1, 2) {
        let (sty, size) = *rng.pick(&[(ST_INT, 'W'), (ST_BOOL, 'X'), (ST_DINT, 'D')]);
        let area = *rng.pick(&['Q', 'Q', 'M']);
        members.push(Var {
            name: "q".into(),
            ty: Ty::S(sty),
            pol: Pol::U,
            init: None,
            at: Some(alloc.take(area, size)),
            block: "VAR", init_expr: None });
    }
    let mut body = Vec::new();
    let vars: Vec<Var> = members[2..].to_vec();
    for m in &vars {
        if let Some(Stmt::S(s)) = mutator(rng, &Scope::L, m, &vars) {
            body.push(s);
        }
    }
    body.push(SStmt::Cpy(Tgt::var(Scope::L, "tot"), Tgt::var(Scope::L, "inc")));
    FbType { name: format!("Fb{idx}"), members, body }
}

pub fn pick_profile(rng: &mut Rng) -> Profile {
    match rng.below(20) {
        0..=6 => Profile::Clean,
        7..=10 => Profile::InstBindings,
        11 | 12 => Profile::SingleTrue,
        13 | 14 => Profile::Images,
        15 | 16 => Profile::ConfigInit,
        _ => Profile::Mixed,
    }
}

pub fn gen_case(rng: &mut Rng, steps: usize) -> (Case, Profile) {
    let profile = pick_profile(rng);
    let inst_bind = matches!(profile, Profile::InstBindings | Profile::Mixed);
    let single_true = matches!(profile, Profile::SingleTrue | Profile::Mixed);
    let use_m = matches!(profile, Profile::Images | Profile::Mixed);
    let cfg_init = matches!(profile, Profile::ConfigInit | Profile::Mixed);
    let config_mode = cfg_init || single_true || rng.chance(3, 4);
    let mut alloc = Alloc { next: [0; 3] };

    let nfb = rng.below(3) as usize;
    let fbs: Vec<FbType> = (0..nfb).map(|i| gen_fb(rng, i, &mut alloc, inst_bind)).collect();

    // ---- globals
    let mut globals: Vec<Var> = Vec::new();
    let nglob = 1 + rng.below(6) as usize;
    for k in 0..nglob {
        let ty = if !fbs.is_empty() && rng.chance(1, 6) {
            Ty::Fb(rng.below(fbs.len() as u64) as usize)
        } else {
            pick_value_ty(rng)
        };
        let ty = if ty == Ty::ArrS1 { Ty::S1 } else { ty };
        let init = pick_init(rng, &ty);
        globals.push(Var { name: format!("g{k}"), ty, pol: pick_pol(rng), init, at: None, block: "VAR_GLOBAL", init_expr: None });
    }
    // direct-address globals (bindings with Global location: stay connected)
    let nio = rng.below(4) as usize;
    for k in 0..nio {
        let (sty, size) = *rng.pick(&[(ST_BOOL, 'X'), (ST_INT, 'W'), (ST_DINT, 'D'), (1usize, 'B'), (6usize, 'W'), (4usize, 'L')]);
        let area = if use_m { *rng.pick(&['I', 'Q', 'M', 'M']) } else { *rng.pick(&['I', 'Q', 'Q']) };
        let init = if rng.chance(1, 4) { pick_init(rng, &Ty::S(sty)) } else { None };
        globals.push(Var {
            name: format!("io{k}"),
            ty: Ty::S(sty),
            pol: pick_pol(rng),
            init,
            at: Some(alloc.take(area, size)),
            block: "VAR_GLOBAL",
            init_expr: None,
        });
    }
    // tasks and their SINGLE variables
    let mut tasks: Vec<TaskD> = Vec::new();
    if config_mode {
        let ntasks = if single_true { 1 + rng.below(2) } else { rng.below(3) } as usize;
        for t in 0..ntasks {
            let want_single = (single_true && t == 0) || rng.chance(1, 2);
            let single = if want_single {
                let init_true = if single_true && t == 0 { true } else { single_true && rng.chance(1, 3) };
                // optionally driven by an input bit
                let at = if rng.chance(1, 3) { Some(alloc.take('I', 'X')) } else { None };
                globals.push(Var {
                    name: format!("trig{t}"),
                    ty: Ty::S(ST_BOOL),
                    pol: Pol::U,
                    // literal 0 = TRUE, 1 = FALSE
                    init: if init_true { Some(0) } else if rng.bool() { Some(1) } else { None },
                    at,
                    block: "VAR_GLOBAL",
                    init_expr: None,
                });
                Some(globals.len() - 1)
            } else {
                None
            };
            tasks.push(TaskD {
                name: format!("T{t}"),
                interval_ms: if single.is_some() { *rng.pick(&[0i64, 0, 10]) } else { *rng.pick(&[5i64, 10, 20]) },
                single,
                prio: rng.below(3) as u32,
            });
        }
    }

    // ---- programs
    let nprogs = if config_mode { 1 + rng.below(3) as usize } else { 1 };
    let mut progs: Vec<Prog> = Vec::new();
    // globals an initialiser expression may read: plain INT/DINT/LINT without a direct address
    let expr_srcs: Vec<usize> = globals
        .iter()
        .enumerate()
        .filter(|(_, g)| g.at.is_none() && matches!(g.ty, Ty::S(i) if i == ST_INT || i == ST_DINT || i == ST_LINT))
        .map(|(i, _)| i)
        .collect();
    let mut expr_uses: Vec<Vec<usize>> = Vec::new();
    for pi in 0..nprogs {
        let inst = if config_mode { format!("P{pi}") } else { format!("Prog{pi}") };
        let mut vars: Vec<Var> = Vec::new();
        let nvars = 1 + rng.below(6) as usize;
        for k in 0..nvars {
            let ty = if !fbs.is_empty() && rng.chance(1, 5) {
                Ty::Fb(rng.below(fbs.len() as u64) as usize)
            } else {
                pick_value_ty(rng)
            };
            let init = pick_init(rng, &ty);
            let block = if ty.is_fb() { "VAR" } else { *rng.pick(&["VAR", "VAR", "VAR", "VAR", "VAR", "VAR_OUTPUT", "VAR_OUTPUT", "VAR_INPUT"]) };
            vars.push(Var { name: format!("v{pi}_{k}"), ty, pol: pick_pol(rng), init, at: None, block, init_expr: None });
        }
        if inst_bind {
            // program-level direct-address variables: bindings with Instance location
            for k in 0..1 + rng.below(3) as usize {
                let (sty, size) = *rng.pick(&[(ST_BOOL, 'X'), (ST_INT, 'W'), (ST_DINT, 'D')]);
                let area = if use_m { *rng.pick(&['I', 'Q', 'M']) } else { *rng.pick(&['I', 'Q']) };
                vars.push(Var {
                    name: format!("d{pi}_{k}"),
                    ty: Ty::S(sty),
                    pol: pick_pol(rng),
                    init: None,
                    at: Some(alloc.take(area, size)),
                    block: "VAR",
                    init_expr: None,
                });
            }
        }
        // initialisers that are expressions over globals, earlier variables and typed literals
        let mut uses: Vec<usize> = Vec::new();
        if !expr_srcs.is_empty() && rng.chance(1, 2) {
            for k in 0..1 + rng.below(2) as usize {
                let gi = *rng.pick(&expr_srcs);
                let Ty::S(sty) = globals[gi].ty.clone() else { continue };
                let g = || Box::new(IExpr::G(globals[gi].name.clone()));
                let earlier: Vec<String> = vars
                    .iter()
                    .filter(|u| u.ty == Ty::S(sty) && u.at.is_none())
                    .map(|u| u.name.clone())
                    .collect();
                let other: Vec<usize> = expr_srcs.iter().copied().filter(|o| *o != gi && globals[*o].ty == Ty::S(sty)).collect();
                let e = match rng.below(6) {
                    0 => *g(),
                    1 => IExpr::Add(g(), Box::new(IExpr::K(rng.range(1, 9)))),
                    2 => IExpr::Mul(g(), Box::new(IExpr::K(rng.range(2, 3)))),
                    3 if !earlier.is_empty() => IExpr::Add(g(), Box::new(IExpr::L(rng.pick(&earlier).clone()))),
                    4 if !other.is_empty() => {
                        let o = *rng.pick(&other);
                        uses.push(o);
                        IExpr::Add(Box::new(IExpr::Mul(g(), Box::new(IExpr::K(2)))), Box::new(IExpr::G(globals[o].name.clone())))
                    }
                    5 if !earlier.is_empty() => IExpr::Add(Box::new(IExpr::L(rng.pick(&earlier).clone())), Box::new(IExpr::K(rng.range(1, 9)))),
                    _ => IExpr::Mul(g(), Box::new(IExpr::K(2))),
                };
                let mut gs = Vec::new();
                e.globals(&mut gs);
                if !gs.is_empty() {
                    uses.push(gi);
                }
                vars.push(Var {
                    name: format!("x{pi}_{k}"),
                    ty: Ty::S(sty),
                    pol: pick_pol(rng),
                    init: None,
                    at: None,
                    block: *rng.pick(&["VAR", "VAR", "VAR_OUTPUT"]),
                    init_expr: Some(e),
                });
            }
        }
        uses.sort();
        uses.dedup();
        expr_uses.push(uses);
        progs.push(Prog {
            ty_name: format!("Prog{pi}"),
            inst,
            inst_pol: if config_mode && rng.chance(1, 4) { Some(*rng.pick(&[Pol::R, Pol::N])) } else { None },
            vars,
            externals: Vec::new(),
            body: Vec::new(),
            task: if !tasks.is_empty() && rng.chance(2, 3) { Some(rng.below(tasks.len() as u64) as usize) } else { None },
            fb_tasks: Vec::new(),
            owns_globals: !config_mode && pi == 0,
        });
    }
    // every task with a SINGLE variable gets at least one program so that activations are visible
    for (ti, t) in tasks.iter().enumerate() {
        if t.single.is_some() && !progs.iter().any(|p| p.task == Some(ti)) {
            let k = rng.below(progs.len() as u64) as usize;
            progs[k].task = Some(ti);
        }
    }
    // bodies
    let single_globals: Vec<usize> = tasks.iter().filter_map(|t| t.single).collect();
    for pi in 0..progs.len() {
        let mut body: Vec<Stmt> = Vec::new();
        let own = progs[pi].vars.clone();
        for v in &own {
            if v.at.as_ref().map(|a| a.area == 'I').unwrap_or(false) || v.block == "VAR_INPUT" {
                continue;
            }
            if rng.chance(5, 6) {
                if let Some(s) = mutator(rng, &Scope::L, v, &own) {
                    body.push(s);
                }
            }
        }
        // copy an input-bound variable to an output-bound one of the same type when both exist
        for v in &own {
            if let Some(a) = &v.at {
                if a.area != 'I' {
                    if let Some(src) = own.iter().find(|s| s.ty == v.ty && s.at.as_ref().map(|x| x.area == 'I').unwrap_or(false)) {
                        if rng.chance(2, 3) {
                            body.push(Stmt::S(SStmt::Cpy(Tgt::var(Scope::L, &v.name), Tgt::var(Scope::L, &src.name))));
                        }
                    }
                }
            }
        }
        // read an FB output
        for v in &own {
            if v.ty.is_fb() {
                if let Some(dst) = own.iter().find(|d| d.ty == Ty::S(ST_INT) && d.at.is_none() && d.block != "VAR_INPUT") {
                    if rng.chance(1, 2) {
                        body.push(Stmt::S(SStmt::Cpy(
                            Tgt::var(Scope::L, &dst.name),
                            Tgt { member: Some("tot".into()), ..Tgt::var(Scope::L, &v.name) },
                        )));
                    }
                }
            }
        }
        // globals
        let mut ext = Vec::new();
        for (gi, g) in globals.iter().enumerate() {
            let is_single = single_globals.contains(&gi);
            let is_input = g.at.as_ref().map(|a| a.area == 'I').unwrap_or(false);
            let p_use = if is_single { 2 } else { 3 };
            let read_by_init = expr_uses[pi].contains(&gi);
            if read_by_init {
                // declared VAR_EXTERNAL in any case; mostly also changed at run time
                ext.push(gi);
            }
            if !(read_by_init && rng.chance(3, 4)) && !rng.chance(1, p_use) {
                continue;
            }
            if is_input {
                // copy to a same-typed output global if there is one
                if let Some(dst) = globals.iter().find(|d| d.ty == g.ty && d.at.as_ref().map(|a| a.area != 'I').unwrap_or(false)) {
                    let di = globals.iter().position(|d| d.name == dst.name).unwrap();
                    body.push(Stmt::S(SStmt::Cpy(Tgt::var(Scope::G, &dst.name), Tgt::var(Scope::G, &g.name))));
                    ext.push(gi);
                    ext.push(di);
                }
                continue;
            }
            if let Some(s) = mutator(rng, &Scope::G, g, &globals) {
                if let Stmt::S(SStmt::Cpy(_, src)) = &s {
                    if let Some(si) = globals.iter().position(|d| d.name == src.name) {
                        ext.push(si);
                    }
                }
                body.push(s);
                ext.push(gi);
            }
        }
        ext.sort();
        ext.dedup();
        // a few extra copies between same-typed own variables
        if own.len() >= 2 && rng.chance(1, 3) {
            let a = rng.pick(&own).clone();
            if let Some(b) = own.iter().find(|b| b.name != a.name && b.ty == a.ty && !a.ty.is_fb() && b.at.is_none() && b.block != "VAR_INPUT") {
                body.push(Stmt::S(SStmt::Cpy(Tgt::var(Scope::L, &b.name), Tgt::var(Scope::L, &a.name))));
            }
        }
        progs[pi].externals = ext;
        progs[pi].body = body;
    }
    // FB task bindings
    if inst_bind && !tasks.is_empty() {
        for p in progs.iter_mut() {
            let fbv: Vec<String> = p.vars.iter().filter(|v| v.ty.is_fb()).map(|v| v.name.clone()).collect();
            for v in fbv {
                if rng.chance(1, 2) {
                    p.fb_tasks.push((v, rng.below(tasks.len() as u64) as usize));
                }
            }
        }
    }

    // ---- VAR_ACCESS
    let mut access: Vec<AccessD> = Vec::new();
    if config_mode {
        let want = rng.below(3) as usize + if inst_bind { 1 } else { 0 };
        for k in 0..want {
            // candidates: global scalar INT/DINT/BOOL; with instance bindings also program paths
            let mut cands: Vec<(Tgt, Ty)> = Vec::new();
            for g in &globals {
                match &g.ty {
                    Ty::S(i) if [ST_INT, ST_DINT, ST_BOOL].contains(i) => cands.push((Tgt::var(Scope::G, &g.name), g.ty.clone())),
                    Ty::ArrInt(lo, _) => cands.push((
                        Tgt { path: vec![Seg::I(vec![*lo])], ..Tgt::var(Scope::G, &g.name) },
                        Ty::S(ST_INT),
                    )),
                    Ty::S1 => cands.push((
                        Tgt { path: vec![Seg::F("a".into())], ..Tgt::var(Scope::G, &g.name) },
                        Ty::S(ST_INT),
                    )),
                    Ty::Fb(_) if inst_bind => cands.push((
                        Tgt { member: Some("tot".into()), ..Tgt::var(Scope::G, &g.name) },
                        Ty::S(ST_INT),
                    )),
                    _ => {}
                }
            }
            if inst_bind {
                for p in &progs {
                    for v in &p.vars {
                        let sc = Scope::P(p.inst.clone());
                        match &v.ty {
                            Ty::S(i) if [ST_INT, ST_DINT, ST_BOOL].contains(i) => cands.push((Tgt::var(sc, &v.name), v.ty.clone())),
                            Ty::ArrInt(lo, _) => cands.push((
                                Tgt { path: vec![Seg::I(vec![*lo])], ..Tgt::var(sc, &v.name) },
                                Ty::S(ST_INT),
                            )),
                            Ty::S1 => cands.push((
                                Tgt { path: vec![Seg::F("a".into())], ..Tgt::var(sc, &v.name) },
                                Ty::S(ST_INT),
                            )),
                            Ty::Fb(_) => cands.push((
                                Tgt { member: Some("tot".into()), ..Tgt::var(sc, &v.name) },
                                Ty::S(ST_INT),
                            )),
                            _ => {}
                        }
                    }
                }
            }
            if cands.is_empty() {
                break;
            }
            // prefer instance paths in the instance-binding profile
            let inst_c: Vec<&(Tgt, Ty)> = cands.iter().filter(|c| c.0.scope != Scope::G || c.0.member.is_some()).collect();
            let (tgt, ty) = if inst_bind && !inst_c.is_empty() && rng.chance(3, 4) {
                (*rng.pick(&inst_c)).clone()
            } else {
                let glob: Vec<&(Tgt, Ty)> = cands.iter().filter(|c| c.0.scope == Scope::G && c.0.member.is_none()).collect();
                if glob.is_empty() {
                    if inst_bind { rng.pick(&cands).clone() } else { break }
                } else {
                    (*rng.pick(&glob)).clone()
                }
            };
            access.push(AccessD { name: format!("A{k}"), tgt, ty });
        }
    }

    // ---- VAR_CONFIG initial values
    let mut cfg_inits: Vec<CfgInit> = Vec::new();
    if cfg_init {
        let mut cands: Vec<(Tgt, Ty)> = Vec::new();
        for p in &progs {
            for v in &p.vars {
                if let Ty::S(i) = &v.ty {
                    if v.at.is_none() && v.init_expr.is_none() && lits(*i).len() >= 2 {
                        cands.push((Tgt::var(Scope::P(p.inst.clone()), &v.name), v.ty.clone()));
                    }
                }
            }
        }
        for g in &globals {
            if let Ty::S(i) = &g.ty {
                if g.at.is_none() && !single_globals.iter().any(|s| globals[*s].name == g.name) && lits(*i).len() >= 2 {
                    cands.push((Tgt::var(Scope::G, &g.name), g.ty.clone()));
                }
            }
        }
        let n = 1 + rng.below(2) as usize;
        for _ in 0..n {
            if cands.is_empty() {
                break;
            }
            let k = rng.below(cands.len() as u64) as usize;
            let (tgt, ty) = cands.remove(k);
            // choose a literal different from the declared initial value
            let declared = find_var(&globals, &progs, &tgt).and_then(|v| v.init);
            let nl = ty.lits().len();
            let mut lit = rng.below(nl as u64) as usize;
            if Some(lit) == declared {
                lit = (lit + 1) % nl;
            }
            cfg_inits.push(CfgInit { tgt, ty, lit });
        }
    }

    // ---- history
    let mut history: Vec<Step> = Vec::new();
    let in_addrs: Vec<Addr> = all_addrs(&globals, &progs, &fbs).into_iter().filter(|a| a.area == 'I').collect();
    let m_addrs: Vec<Addr> = all_addrs(&globals, &progs, &fbs).into_iter().filter(|a| a.area == 'M').collect();
    // sized process images with a field driver: the sizes cover every declared address, so that no
    // write ever grows an image (the image is sized once at start-up, as `trust-runtime run` does)
    let all = all_addrs(&globals, &progs, &fbs);
    let extent = |area: char| all.iter().filter(|a| a.area == area).map(|a| (a.byte + a.nbytes()) as usize).max().unwrap_or(0);
    let driver = if rng.chance(1, 2) {
        Some((extent('I') + rng.below(3) as usize, extent('Q') + rng.below(3) as usize, extent('M') + rng.below(2) as usize))
    } else {
        None
    };
    let store = rng.chance(1, 2);
    let scripted_store = store && rng.chance(1, 3);
    let store_starts_unwritable = store && rng.chance(1, 4);
    let mut writable = !store_starts_unwritable;
    if store {
        history.push(Step::Store(rng.chance(1, 2)));
    }
    let dts = [0i64, 5, 10, 10, 20, 35];
    history.push(Step::Cycle(*rng.pick(&dts) * 1_000_000));
    for _ in 0..steps {
        let r = rng.below(if store { 112 } else { 100 });
        let step = match r {
            0..=41 => Step::Cycle(*rng.pick(&dts) * 1_000_000),
            42..=55 if driver.is_some() && !in_addrs.is_empty() && rng.chance(2, 3) => {
                // the field presents a new input image (safe boundary patterns at every %I address)
                let mut bytes = vec![0u8; driver.unwrap().0];
                for a in &in_addrs {
                    if rng.chance(3, 4) {
                        let raw = io_raw(rng, a);
                        if a.size == 'X' {
                            if raw != 0 {
                                bytes[a.byte as usize] |= 1 << a.bit;
                            }
                        } else {
                            for k in 0..a.nbytes() as usize {
                                bytes[a.byte as usize + k] = (raw >> (8 * k)) as u8;
                            }
                        }
                    }
                }
                Step::Field(bytes)
            }
            42..=55 => {
                if let Some(a) = pick_opt(rng, &in_addrs) {
                    Step::Io(a.clone(), io_raw(rng, &a))
                } else if let Some(a) = pick_opt(rng, &m_addrs) {
                    Step::Io(a.clone(), io_raw(rng, &a))
                } else {
                    Step::Cycle(10_000_000)
                }
            }
            56..=66 => Step::Restart(Mode::Warm),
            67..=77 => Step::Restart(Mode::Cold),
            78..=80 => Step::Fault,
            81..=85 => {
                if let Some(a) = pick_opt(rng, &access) {
                    let v = match a.ty {
                        Ty::S(i) if i == ST_BOOL => MVal::Num(1, rng.below(2) as i128),
                        Ty::S(i) => MVal::Num(STYS[i].tag, rng.range(-50, 50) as i128),
                        _ => MVal::Num(3, 1),
                    };
                    Step::WAcc(a.name.clone(), v)
                } else {
                    Step::Cycle(10_000_000)
                }
            }
            86..=89 if store => Step::Save,
            90..=94 if store => Step::Power(*rng.pick(&[None, None, Some(Mode::Warm), Some(Mode::Cold)])),
            95..=99 if store => Step::Rwr(*rng.pick(&[Mode::Warm, Mode::Cold])),
            100..=103 if store => {
                // the medium changes state (the file medium only ever appears)
                if !writable {
                    writable = true;
                    Step::EnvW(true)
                } else if scripted_store {
                    writable = false;
                    Step::EnvW(false)
                } else {
                    Step::Save
                }
            }
            104..=111 if store => {
                // failing-store episode: a save that fails, the medium recovers, the retry with
                // unchanged retained values, and (often) a new process that loads the result
                if writable && scripted_store {
                    history.push(Step::EnvW(false));
                    writable = false;
                }
                if !writable {
                    history.push(Step::Save);
                    history.push(Step::EnvW(true));
                    writable = true;
                }
                history.push(Step::Save);
                if rng.chance(1, 2) {
                    Step::Power(*rng.pick(&[None, None, Some(Mode::Warm)]))
                } else {
                    Step::Restart(Mode::Warm)
                }
            }
            _ => Step::Cycle(*rng.pick(&dts) * 1_000_000),
        };
        history.push(step);
    }
    history.push(Step::Cycle(10_000_000));
    if rng.chance(1, 5) {
        // the tail of the history runs through a resource thread: restart requests reach its
        // restart signal before it starts, while it is idle, or while it carries out a restart
        let mut script: Vec<(When, Mode)> = Vec::new();
        for _ in 0..rng.below(3) {
            script.push((When::Pre, *rng.pick(&[Mode::Warm, Mode::Cold])));
        }
        for _ in 0..1 + rng.below(3) {
            let when = if script.is_empty() || rng.chance(1, 3) { When::Idle } else { When::During };
            script.push((when, *rng.pick(&[Mode::Warm, Mode::Cold])));
        }
        history.push(Step::Sched(script));
    }

    (
        Case {
            config_mode,
            fbs,
            globals,
            progs,
            tasks,
            access,
            cfg_inits,
            history,
            twin: true,
            scripted_store,
            store_starts_unwritable,
            driver,
        },
        profile,
    )
}

fn pick_opt<'a, T>(rng: &mut Rng, xs: &'a [T]) -> Option<&'a T> {
    if xs.is_empty() {
        None
    } else {
        Some(&xs[rng.below(xs.len() as u64) as usize])
    }
}

fn io_raw(rng: &mut Rng, a: &Addr) -> u64 {
    // boundary patterns for the sign reinterpretation of `coerce_from_io`, chosen so that the
    // typed increments of the generated programs cannot overflow within one history
    match a.size {
        'X' => rng.below(2),
        'B' => *rng.pick(&[0u64, 1, 30, 128, 130]),
        'W' => *rng.pick(&[0u64, 1, 300, 32768, 40000]),
        'D' => *rng.pick(&[0u64, 7, 70000, 0x8000_0000, 0x8000_0010]),
        _ => *rng.pick(&[0u64, 9, 5_000_000_000, 0x8000_0000_0000_0000]),
    }
}

pub fn find_var<'a>(globals: &'a [Var], progs: &'a [Prog], t: &Tgt) -> Option<&'a Var> {
    match &t.scope {
        Scope::G => globals.iter().find(|g| g.name == t.name),
        Scope::P(p) => progs.iter().find(|q| &q.inst == p).and_then(|q| q.vars.iter().find(|v| v.name == t.name)),
        Scope::L => None,
    }
}

/// Every direct address declared anywhere (FB members only when the FB type is instantiated).
pub fn all_addrs(globals: &[Var], progs: &[Prog], fbs: &[FbType]) -> Vec<Addr> {
    let mut out = Vec::new();
    let mut fb_used = vec![false; fbs.len()];
    for v in globals.iter().chain(progs.iter().flat_map(|p| p.vars.iter())) {
        if let Some(a) = &v.at {
            out.push(a.clone());
        }
        if let Ty::Fb(i) = v.ty {
            fb_used[i] = true;
        }
    }
    for (i, fb) in fbs.iter().enumerate() {
        if fb_used[i] {
            for m in &fb.members {
                if let Some(a) = &m.at {
                    out.push(a.clone());
                }
            }
        }
    }
    out
}
