//! C09 — structured description of a generated project: types, variables, statements, and their
//! rendering as ST source and as the description lines read by the Lean driver.

use std::fmt::Write as _;

/// Mirror of the model's `Val` (what the generator itself knows about a value).
#[derive(Clone, Debug, PartialEq)]
pub enum MVal {
    Num(u32, i128),
    Str(u32, Vec<u8>),
    Arr(Vec<(i64, i64)>, Vec<MVal>),
    Rec(Vec<(String, MVal)>),
}

impl MVal {
    pub fn show(&self) -> String {
        match self {
            MVal::Num(ty, v) => format!("n{ty}:{v}"),
            MVal::Str(ty, bs) => format!("s{ty}:{}", crate::util::hex(bs)),
            MVal::Arr(dims, xs) => format!(
                "a{}[{}]",
                dims.iter().map(|(l, h)| format!("{l}_{h}")).collect::<Vec<_>>().join(";"),
                xs.iter().map(|x| x.show()).collect::<Vec<_>>().join(",")
            ),
            MVal::Rec(fs) => format!(
                "r{{{}}}",
                fs.iter().map(|(n, v)| format!("{n}={}", v.show())).collect::<Vec<_>>().join(",")
            ),
        }
    }
}

#[derive(Clone, Copy, Debug, PartialEq, Eq)]
pub enum Pol {
    R,
    N,
    U,
    P,
}

impl Pol {
    pub fn code(self) -> &'static str {
        match self {
            Pol::R => "r",
            Pol::N => "n",
            Pol::U => "u",
            Pol::P => "p",
        }
    }
    pub fn kw(self) -> &'static str {
        match self {
            Pol::R => " RETAIN",
            Pol::N => " NON_RETAIN",
            Pol::U => "",
            Pol::P => " PERSISTENT",
        }
    }
    pub fn retains(self) -> bool {
        matches!(self, Pol::R | Pol::P)
    }
}

#[derive(Clone, Copy, Debug, PartialEq, Eq)]
pub enum Class {
    Bool,
    Int,
    Lit,
}

/// Elementary types: ST name, value tag (retain.rs `ValueTag`), class, I/O size letter.
pub struct STy {
    pub st: &'static str,
    pub tag: u32,
    pub class: Class,
    pub io: Option<char>,
    pub signed: bool,
}

pub const STYS: &[STy] = &[
    STy { st: "BOOL", tag: 1, class: Class::Bool, io: Some('X'), signed: false },
    STy { st: "SINT", tag: 2, class: Class::Int, io: Some('B'), signed: true },
    STy { st: "INT", tag: 3, class: Class::Int, io: Some('W'), signed: true },
    STy { st: "DINT", tag: 4, class: Class::Int, io: Some('D'), signed: true },
    STy { st: "LINT", tag: 5, class: Class::Int, io: Some('L'), signed: true },
    STy { st: "USINT", tag: 6, class: Class::Int, io: Some('B'), signed: false },
    STy { st: "UINT", tag: 7, class: Class::Int, io: Some('W'), signed: false },
    STy { st: "UDINT", tag: 8, class: Class::Int, io: Some('D'), signed: false },
    STy { st: "ULINT", tag: 9, class: Class::Int, io: Some('L'), signed: false },
    STy { st: "REAL", tag: 10, class: Class::Lit, io: None, signed: false },
    STy { st: "LREAL", tag: 11, class: Class::Lit, io: None, signed: false },
    STy { st: "BYTE", tag: 12, class: Class::Lit, io: Some('B'), signed: false },
    STy { st: "WORD", tag: 13, class: Class::Lit, io: Some('W'), signed: false },
    STy { st: "DWORD", tag: 14, class: Class::Lit, io: Some('D'), signed: false },
    STy { st: "LWORD", tag: 15, class: Class::Lit, io: None, signed: false },
    STy { st: "TIME", tag: 16, class: Class::Lit, io: None, signed: false },
    STy { st: "LTIME", tag: 17, class: Class::Lit, io: None, signed: false },
    STy { st: "DATE", tag: 18, class: Class::Lit, io: None, signed: false },
    STy { st: "LDATE", tag: 19, class: Class::Lit, io: None, signed: false },
    STy { st: "TOD", tag: 20, class: Class::Lit, io: None, signed: false },
    STy { st: "LTOD", tag: 21, class: Class::Lit, io: None, signed: false },
    STy { st: "DT", tag: 22, class: Class::Lit, io: None, signed: false },
    STy { st: "LDT", tag: 23, class: Class::Lit, io: None, signed: false },
    STy { st: "STRING", tag: 24, class: Class::Lit, io: None, signed: false },
    STy { st: "WSTRING", tag: 25, class: Class::Lit, io: None, signed: false },
    STy { st: "CHAR", tag: 26, class: Class::Lit, io: None, signed: false },
    STy { st: "WCHAR", tag: 27, class: Class::Lit, io: None, signed: false },
];

pub const ST_BOOL: usize = 0;
pub const ST_INT: usize = 2;
pub const ST_DINT: usize = 3;
pub const ST_LINT: usize = 4;
pub const ST_STRING: usize = 23;

/// Literal table of an elementary type: (ST text, value the generator expects).  The payloads
/// of date/time/real literals are fixed constants, independent of the implementation under test.
pub fn lits(sty: usize) -> Vec<(String, MVal)> {
    let t = &STYS[sty];
    let n = |v: i128| MVal::Num(t.tag, v);
    let s = |b: &[u8]| MVal::Str(t.tag, b.to_vec());
    let own = |xs: Vec<(&str, MVal)>| xs.into_iter().map(|(a, b)| (a.to_string(), b)).collect::<Vec<_>>();
    match t.st {
        "BOOL" => own(vec![("TRUE", n(1)), ("FALSE", n(0))]),
        "SINT" => own(vec![("SINT#-3", n(-3)), ("SINT#5", n(5)), ("SINT#-20", n(-20))]),
        "INT" => own(vec![("INT#7", n(7)), ("INT#-12", n(-12)), ("INT#300", n(300))]),
        "DINT" => own(vec![("DINT#70000", n(70000)), ("DINT#-1", n(-1)), ("DINT#9", n(9))]),
        "LINT" => own(vec![("LINT#-5000000000", n(-5_000_000_000)), ("LINT#42", n(42))]),
        "USINT" => own(vec![("USINT#7", n(7)), ("USINT#20", n(20))]),
        "UINT" => own(vec![("UINT#40000", n(40000)), ("UINT#3", n(3))]),
        "UDINT" => own(vec![("UDINT#3000000000", n(3_000_000_000)), ("UDINT#11", n(11))]),
        "ULINT" => own(vec![("ULINT#10000000000", n(10_000_000_000)), ("ULINT#1", n(1))]),
        "REAL" => own(vec![
            ("REAL#1.5", n(0x3FC0_0000)),
            ("REAL#2.5", n(0x4020_0000)),
            ("REAL#-0.25", n(0xBE80_0000)),
        ]),
        "LREAL" => own(vec![
            ("LREAL#1.5", n(0x3FF8_0000_0000_0000)),
            ("LREAL#-2.0", n(0xC000_0000_0000_0000)),
            ("LREAL#0.125", n(0x3FC0_0000_0000_0000)),
        ]),
        "BYTE" => own(vec![("BYTE#16#A5", n(0xA5)), ("BYTE#16#5A", n(0x5A))]),
        "WORD" => own(vec![("WORD#16#1234", n(0x1234)), ("WORD#16#FFFF", n(0xFFFF))]),
        "DWORD" => own(vec![("DWORD#16#DEADBEEF", n(0xDEAD_BEEF)), ("DWORD#16#1", n(1))]),
        "LWORD" => own(vec![
            ("LWORD#16#1122334455667788", n(0x1122_3344_5566_7788)),
            ("LWORD#16#7FFFFFFFFFFFFFF0", n(0x7FFF_FFFF_FFFF_FFF0)),
        ]),
        "TIME" => own(vec![("T#1s", n(1_000_000_000)), ("T#2s500ms", n(2_500_000_000)), ("T#5ms", n(5_000_000))]),
        "LTIME" => own(vec![("LTIME#3us", n(3000)), ("LTIME#1s", n(1_000_000_000))]),
        "DATE" => own(vec![("D#2024-01-02", n(1_704_153_600_000)), ("D#2025-02-03", n(1_738_540_800_000))]),
        "LDATE" => own(vec![("LDATE#2024-01-02", n(1_704_153_600_000_000_000))]),
        "TOD" => own(vec![("TOD#01:02:03", n(3_723_000)), ("TOD#10:11:12", n(36_672_000))]),
        "LTOD" => own(vec![("LTOD#01:02:03", n(3_723_000_000_000))]),
        "DT" => own(vec![
            ("DT#2024-01-02-03:04:05", n(1_704_164_645_000)),
            ("DT#2025-02-03-04:05:06", n(1_738_555_506_000)),
        ]),
        "LDT" => own(vec![("LDT#2024-01-02-03:04:05", n(1_704_164_645_000_000_000))]),
        "STRING" => own(vec![("'ab'", s(b"ab")), ("'hello w'", s(b"hello w")), ("'zz'", s(b"zz"))]),
        "WSTRING" => own(vec![("\"wide\"", s(b"wide")), ("\"x\"", s(b"x"))]),
        "CHAR" => own(vec![("CHAR#'z'", n(122)), ("CHAR#'A'", n(65))]),
        "WCHAR" => own(vec![("WCHAR#\"y\"", n(121)), ("WCHAR#\"B\"", n(66))]),
        other => panic!("no literal table for {other}"),
    }
}

pub const ENUM_TAG: u32 = 30;
pub fn enum_lits() -> Vec<(String, MVal)> {
    vec![
        ("Col#green".into(), MVal::Num(ENUM_TAG, 1)),
        ("Col#blue".into(), MVal::Num(ENUM_TAG, 2)),
        ("Col#red".into(), MVal::Num(ENUM_TAG, 0)),
    ]
}

pub const TYPE_DECLS: &str = "TYPE\n    Col : (red, green, blue);\n    S1 : STRUCT a : INT; b : BOOL; s : STRING; e : Col; END_STRUCT;\n    S2 : STRUCT x : LINT; n : ARRAY[0..1] OF INT; inner : S1; END_STRUCT;\nEND_TYPE\n\n";

#[derive(Clone, Debug, PartialEq)]
pub enum Ty {
    S(usize),
    Enum,
    S1,
    S2,
    ArrInt(i64, i64),
    Arr2,
    ArrS1,
    Fb(usize),
}

impl Ty {
    pub fn st(&self, fbs: &[FbType]) -> String {
        match self {
            Ty::S(i) => STYS[*i].st.to_string(),
            Ty::Enum => "Col".into(),
            Ty::S1 => "S1".into(),
            Ty::S2 => "S2".into(),
            Ty::ArrInt(lo, hi) => format!("ARRAY[{lo}..{hi}] OF INT"),
            Ty::Arr2 => "ARRAY[0..1, 0..2] OF DINT".into(),
            Ty::ArrS1 => "ARRAY[1..2] OF S1".into(),
            Ty::Fb(i) => fbs[*i].name.clone(),
        }
    }
    pub fn is_fb(&self) -> bool {
        matches!(self, Ty::Fb(_))
    }
    /// `default_value_for_type_id`.
    pub fn default(&self) -> MVal {
        let s1 = || {
            MVal::Rec(vec![
                ("a".into(), MVal::Num(3, 0)),
                ("b".into(), MVal::Num(1, 0)),
                ("s".into(), MVal::Str(24, vec![])),
                ("e".into(), MVal::Num(ENUM_TAG, 0)),
            ])
        };
        match self {
            Ty::S(i) => {
                let t = &STYS[*i];
                if t.st == "STRING" || t.st == "WSTRING" {
                    MVal::Str(t.tag, vec![])
                } else {
                    MVal::Num(t.tag, 0)
                }
            }
            Ty::Enum => MVal::Num(ENUM_TAG, 0),
            Ty::S1 => s1(),
            Ty::S2 => MVal::Rec(vec![
                ("x".into(), MVal::Num(5, 0)),
                ("n".into(), MVal::Arr(vec![(0, 1)], vec![MVal::Num(3, 0); 2])),
                ("inner".into(), s1()),
            ]),
            Ty::ArrInt(lo, hi) => MVal::Arr(vec![(*lo, *hi)], vec![MVal::Num(3, 0); (*hi - *lo + 1) as usize]),
            Ty::Arr2 => MVal::Arr(vec![(0, 1), (0, 2)], vec![MVal::Num(4, 0); 6]),
            Ty::ArrS1 => MVal::Arr(vec![(1, 2)], vec![s1(), s1()]),
            Ty::Fb(_) => panic!("FB has no value default"),
        }
    }
    pub fn lits(&self) -> Vec<(String, MVal)> {
        match self {
            Ty::S(i) => lits(*i),
            Ty::Enum => enum_lits(),
            _ => vec![],
        }
    }
}

#[derive(Clone, Debug, PartialEq)]
pub struct Addr {
    pub area: char,
    pub size: char,
    pub byte: u32,
    pub bit: u32,
}

impl Addr {
    pub fn st(&self) -> String {
        if self.size == 'X' {
            format!("%{}X{}.{}", self.area, self.byte, self.bit)
        } else {
            format!("%{}{}{}", self.area, self.size, self.byte)
        }
    }
    pub fn proto(&self) -> String {
        format!("{} {} {} {}", self.area, self.size, self.byte, self.bit)
    }
    pub fn nbytes(&self) -> u32 {
        match self.size {
            'X' | 'B' => 1,
            'W' => 2,
            'D' => 4,
            _ => 8,
        }
    }
}

#[derive(Clone, Debug)]
pub struct Var {
    pub name: String,
    pub ty: Ty,
    pub pol: Pol,
    /// index into `ty.lits()` of the declared initial value
    pub init: Option<usize>,
    pub at: Option<Addr>,
    /// declaration block keyword (`VAR`, `VAR_INPUT`, `VAR_OUTPUT`, `VAR_GLOBAL`)
    pub block: &'static str,
    /// program variables only: the initialiser is an EXPRESSION over globals, earlier variables of
    /// the same program and typed literals (`init` is `None` then); evaluated by
    /// `create_program_instance` every time the instance is (re)created
    pub init_expr: Option<IExpr>,
}

/// Initialiser expression of a program variable (integer types only).
#[derive(Clone, Debug, PartialEq)]
pub enum IExpr {
    K(i64),
    G(String),
    L(String),
    Add(Box<IExpr>, Box<IExpr>),
    Mul(Box<IExpr>, Box<IExpr>),
}

impl IExpr {
    /// ST text; literals are typed with the variable's own type.
    pub fn st(&self, sty: usize) -> String {
        match self {
            IExpr::K(k) => format!("{}#{k}", STYS[sty].st),
            IExpr::G(n) | IExpr::L(n) => n.clone(),
            IExpr::Add(a, b) => format!("({} + {})", a.st(sty), b.st(sty)),
            IExpr::Mul(a, b) => format!("({} * {})", a.st(sty), b.st(sty)),
        }
    }
    /// Reverse Polish, comma separated: `g:<name>` `l:<name>` `k:<int>` `+` `*`.
    pub fn proto(&self) -> String {
        match self {
            IExpr::K(k) => format!("k:{k}"),
            IExpr::G(n) => format!("g:{n}"),
            IExpr::L(n) => format!("l:{n}"),
            IExpr::Add(a, b) => format!("{},{},+", a.proto(), b.proto()),
            IExpr::Mul(a, b) => format!("{},{},*", a.proto(), b.proto()),
        }
    }
    pub fn globals(&self, out: &mut Vec<String>) {
        match self {
            IExpr::G(n) => out.push(n.clone()),
            IExpr::Add(a, b) | IExpr::Mul(a, b) => {
                a.globals(out);
                b.globals(out);
            }
            _ => {}
        }
    }
    /// The property's reading of "declared initial value": the expression over the values `g`
    /// gives for globals and `l` for (earlier) variables of the same program.
    pub fn eval(&self, g: &dyn Fn(&str) -> Option<i128>, l: &dyn Fn(&str) -> Option<i128>) -> Option<i128> {
        Some(match self {
            IExpr::K(k) => *k as i128,
            IExpr::G(n) => g(n)?,
            IExpr::L(n) => l(n)?,
            IExpr::Add(a, b) => a.eval(g, l)? + b.eval(g, l)?,
            IExpr::Mul(a, b) => a.eval(g, l)? * b.eval(g, l)?,
        })
    }
}

impl Var {
    pub fn init_val(&self) -> MVal {
        match self.init {
            Some(i) => self.ty.lits()[i].1.clone(),
            None => self.ty.default(),
        }
    }
    pub fn decl(&self, fbs: &[FbType]) -> String {
        let at = self.at.as_ref().map(|a| format!(" AT {}", a.st())).unwrap_or_default();
        let mut init = self.init.map(|i| format!(" := {}", self.ty.lits()[i].0)).unwrap_or_default();
        if let (Some(e), Ty::S(sty)) = (&self.init_expr, &self.ty) {
            init = format!(" := {}", e.st(*sty));
        }
        format!("{}{}\n    {}{} : {}{};\nEND_VAR\n", self.block, self.pol.kw(), self.name, at, self.ty.st(fbs), init)
    }
}

#[derive(Clone, Debug, PartialEq)]
pub enum Scope {
    G,
    L,
    P(String),
}

#[derive(Clone, Debug, PartialEq)]
pub enum Seg {
    F(String),
    I(Vec<i64>),
}

#[derive(Clone, Debug, PartialEq)]
pub struct Tgt {
    pub scope: Scope,
    pub name: String,
    pub member: Option<String>,
    pub path: Vec<Seg>,
}

impl Tgt {
    pub fn var(scope: Scope, name: &str) -> Tgt {
        Tgt { scope, name: name.into(), member: None, path: vec![] }
    }
    pub fn proto(&self) -> String {
        let mut s = match &self.scope {
            Scope::G => format!("g:{}", self.name),
            Scope::L => format!("l:{}", self.name),
            Scope::P(p) => format!("p:{p}:{}", self.name),
        };
        if let Some(m) = &self.member {
            let _ = write!(s, "/m={m}");
        }
        for seg in &self.path {
            match seg {
                Seg::F(f) => {
                    let _ = write!(s, "/f={f}");
                }
                Seg::I(is) => {
                    let _ = write!(s, "/i={}", is.iter().map(|i| i.to_string()).collect::<Vec<_>>().join(","));
                }
            }
        }
        s
    }
    /// ST text (inside a POU for `G`/`L`, configuration path for `P`).
    pub fn st(&self) -> String {
        let mut s = match &self.scope {
            Scope::P(p) => format!("{p}.{}", self.name),
            _ => self.name.clone(),
        };
        if let Some(m) = &self.member {
            let _ = write!(s, ".{m}");
        }
        for seg in &self.path {
            match seg {
                Seg::F(f) => {
                    let _ = write!(s, ".{f}");
                }
                Seg::I(is) => {
                    let _ = write!(s, "[{}]", is.iter().map(|i| i.to_string()).collect::<Vec<_>>().join(", "));
                }
            }
        }
        s
    }
    /// Flat oracle path of the variable (or FB member) that owns the target.
    pub fn owner_path(&self, cur_prog: &str) -> String {
        let base = match &self.scope {
            Scope::G => self.name.clone(),
            Scope::L => format!("{cur_prog}.{}", self.name),
            Scope::P(p) => format!("{p}.{}", self.name),
        };
        match &self.member {
            Some(m) => format!("{base}.{m}"),
            None => base,
        }
    }
}

#[derive(Clone, Debug)]
pub enum SStmt {
    /// target, increment, elementary type of the literal
    Inc(Tgt, i64, usize),
    /// target, increment written as an UNTYPED literal (`t := t + 1`): the evaluator computes in
    /// DINT for SINT/INT operands and stores the result as it is (tag drift)
    IncU(Tgt, i64),
    Tog(Tgt),
    /// target, ST literal, value
    Set(Tgt, String, MVal),
    Cpy(Tgt, Tgt),
}

impl SStmt {
    pub fn st(&self) -> String {
        match self {
            SStmt::Inc(t, k, sty) => format!("{0} := {0} + {1}#{2};", t.st(), STYS[*sty].st, k),
            SStmt::IncU(t, k) => format!("{0} := {0} + {1};", t.st(), k),
            SStmt::Tog(t) => format!("{0} := NOT {0};", t.st()),
            SStmt::Set(t, lit, _) => format!("{} := {};", t.st(), lit),
            SStmt::Cpy(d, s) => format!("{} := {};", d.st(), s.st()),
        }
    }
    pub fn proto(&self) -> String {
        match self {
            SStmt::Inc(t, k, _) => format!("inc {} {k}", t.proto()),
            SStmt::IncU(t, k) => format!("incu {} {k}", t.proto()),
            SStmt::Tog(t) => format!("tog {}", t.proto()),
            SStmt::Set(t, _, v) => format!("set {} {}", t.proto(), v.show()),
            SStmt::Cpy(d, s) => format!("cpy {} {}", d.proto(), s.proto()),
        }
    }
}

#[derive(Clone, Debug)]
pub enum Stmt {
    S(SStmt),
    /// FB variable (scope G or L), arguments (name, ST literal, value)
    Call(Tgt, Vec<(String, String, MVal)>),
}

impl Stmt {
    pub fn st(&self) -> String {
        match self {
            Stmt::S(s) => s.st(),
            Stmt::Call(t, args) => format!(
                "{}({});",
                t.st(),
                args.iter().map(|(n, l, _)| format!("{n} := {l}")).collect::<Vec<_>>().join(", ")
            ),
        }
    }
    pub fn proto(&self) -> String {
        match self {
            Stmt::S(s) => s.proto(),
            Stmt::Call(t, args) => format!(
                "call {} {}",
                t.proto(),
                if args.is_empty() {
                    "-".to_string()
                } else {
                    args.iter().map(|(n, _, v)| format!("{n}={}", v.show())).collect::<Vec<_>>().join(",")
                }
            ),
        }
    }
}

#[derive(Clone, Debug)]
pub struct FbType {
    pub name: String,
    /// VAR_INPUT then VAR_OUTPUT then VAR, in storage order
    pub members: Vec<Var>,
    pub body: Vec<SStmt>,
}

#[derive(Clone, Debug)]
pub struct Prog {
    pub ty_name: String,
    pub inst: String,
    pub inst_pol: Option<Pol>,
    pub vars: Vec<Var>,
    /// indices of the globals used (VAR_EXTERNAL)
    pub externals: Vec<usize>,
    pub body: Vec<Stmt>,
    pub task: Option<usize>,
    pub fb_tasks: Vec<(String, usize)>,
    /// VAR_GLOBAL blocks declared inside this program (no-configuration mode)
    pub owns_globals: bool,
}

impl Prog {
    pub fn effective_pol(&self, v: &Var) -> Pol {
        match (v.pol, self.inst_pol) {
            (Pol::U, Some(p)) => p,
            (p, _) => p,
        }
    }
}

#[derive(Clone, Debug)]
pub struct TaskD {
    pub name: String,
    pub interval_ms: i64,
    pub single: Option<usize>,
    pub prio: u32,
}

#[derive(Clone, Debug)]
pub struct AccessD {
    pub name: String,
    pub tgt: Tgt,
    pub ty: Ty,
}

#[derive(Clone, Debug)]
pub struct CfgInit {
    pub tgt: Tgt,
    pub ty: Ty,
    pub lit: usize,
}

#[derive(Clone, Copy, Debug, PartialEq, Eq)]
pub enum Mode {
    Cold,
    Warm,
}

impl Mode {
    pub fn word(self) -> &'static str {
        match self {
            Mode::Cold => "cold",
            Mode::Warm => "warm",
        }
    }
}

/// History steps (composite; the executor expands them into primitive operations).
#[derive(Clone, Debug)]
pub enum Step {
    Cycle(i64),
    Io(Addr, u64),
    Restart(Mode),
    /// restart + load_retain_store (what the resource loop does on a restart signal)
    Rwr(Mode),
    Fault,
    WAcc(String, MVal),
    Store(bool),
    Save,
    /// the storage medium becomes writable / unwritable
    EnvW(bool),
    /// the field behind the I/O driver presents these input bytes
    Field(Vec<u8>),
    /// new process: build, set store, optional `restart(mode)` as run.rs does, load
    Power(Option<Mode>),
    /// hand the runtime to a resource THREAD (scheduler.rs `ResourceRunner::spawn`, paused) and
    /// queue these restart requests through its restart signal; last step of a history
    Sched(Vec<(When, Mode)>),
}

/// When a restart request reaches the restart signal of the resource thread.
#[derive(Clone, Copy, Debug, PartialEq, Eq)]
pub enum When {
    /// before the resource thread starts (start gate still closed)
    Pre,
    /// while the resource thread is idle (every earlier request has been carried out)
    Idle,
    /// while the resource thread is carrying out the previous request (inside its retain load)
    During,
}

impl When {
    pub fn word(self) -> &'static str {
        match self {
            When::Pre => "pre",
            When::Idle => "idle",
            When::During => "during",
        }
    }
}

#[derive(Clone, Debug)]
pub struct Case {
    pub config_mode: bool,
    pub fbs: Vec<FbType>,
    pub globals: Vec<Var>,
    pub progs: Vec<Prog>,
    pub tasks: Vec<TaskD>,
    pub access: Vec<AccessD>,
    pub cfg_inits: Vec<CfgInit>,
    pub history: Vec<Step>,
    pub twin: bool,
    /// storage medium: scripted store (true) or the real FileRetainStore (false)
    pub scripted_store: bool,
    /// the medium is unwritable at the start (file store: the directory does not exist yet)
    pub store_starts_unwritable: bool,
    /// sized process images (inputs, outputs, memory) with a registered field driver
    pub driver: Option<(usize, usize, usize)>,
}

impl Case {
    pub fn render_source(&self) -> String {
        let mut s = String::from(TYPE_DECLS);
        for fb in &self.fbs {
            let _ = writeln!(s, "FUNCTION_BLOCK {}", fb.name);
            for m in &fb.members {
                s.push_str(&m.decl(&self.fbs));
            }
            for st in &fb.body {
                let _ = writeln!(s, "{}", st.st());
            }
            s.push_str("END_FUNCTION_BLOCK\n\n");
        }
        for p in &self.progs {
            let _ = writeln!(s, "PROGRAM {}", p.ty_name);
            if p.owns_globals {
                for g in &self.globals {
                    s.push_str(&g.decl(&self.fbs));
                }
            } else if !p.externals.is_empty() {
                s.push_str("VAR_EXTERNAL\n");
                for gi in &p.externals {
                    let g = &self.globals[*gi];
                    let _ = writeln!(s, "    {} : {};", g.name, g.ty.st(&self.fbs));
                }
                s.push_str("END_VAR\n");
            }
            for v in &p.vars {
                s.push_str(&v.decl(&self.fbs));
            }
            for st in &p.body {
                let _ = writeln!(s, "{}", st.st());
            }
            s.push_str("END_PROGRAM\n\n");
        }
        if self.config_mode {
            s.push_str("CONFIGURATION Conf\n");
            for g in &self.globals {
                s.push_str(&g.decl(&self.fbs));
            }
            for t in &self.tasks {
                let single = t.single.map(|g| format!("SINGLE := {}, ", self.globals[g].name)).unwrap_or_default();
                let _ = writeln!(s, "TASK {} ({single}INTERVAL := T#{}ms, PRIORITY := {});", t.name, t.interval_ms, t.prio);
            }
            for p in &self.progs {
                let pol = p.inst_pol.map(|p| p.kw()).unwrap_or("");
                let with = p.task.map(|t| format!(" WITH {}", self.tasks[t].name)).unwrap_or_default();
                let fbt = if p.fb_tasks.is_empty() {
                    String::new()
                } else {
                    format!(
                        " ({})",
                        p.fb_tasks.iter().map(|(v, t)| format!("{v} WITH {}", self.tasks[*t].name)).collect::<Vec<_>>().join(", ")
                    )
                };
                let _ = writeln!(s, "PROGRAM{pol} {}{with} : {}{fbt};", p.inst, p.ty_name);
            }
            if !self.access.is_empty() {
                s.push_str("VAR_ACCESS\n");
                for a in &self.access {
                    let _ = writeln!(s, "    {} : {} : {} READ_WRITE;", a.name, a.tgt.st(), a.ty.st(&self.fbs));
                }
                s.push_str("END_VAR\n");
            }
            if !self.cfg_inits.is_empty() {
                s.push_str("VAR_CONFIG\n");
                for c in &self.cfg_inits {
                    let _ = writeln!(s, "    {} : {} := {};", c.tgt.st(), c.ty.st(&self.fbs), c.ty.lits()[c.lit].0);
                }
                s.push_str("END_VAR\n");
            }
            s.push_str("END_CONFIGURATION\n");
        }
        s
    }

    /// Description lines for the Lean driver — computed from the generator's own knowledge only.
    pub fn describe(&self) -> Vec<String> {
        let mut out = Vec::new();
        for fb in &self.fbs {
            out.push(format!("fb {}", fb.name));
            for m in &fb.members {
                // FB inputs/outputs get the type default (`init_param_defaults`), vars their initial value
                out.push(format!("fbm {} {} {}", fb.name, m.name, m.init_val().show()));
                if let (Some(a), Ty::S(i)) = (&m.at, &m.ty) {
                    out.push(format!("fbat {} {} {} {}", fb.name, m.name, a.proto(), STYS[*i].tag));
                }
            }
            for st in &fb.body {
                out.push(format!("fbs {} {}", fb.name, st.proto()));
            }
        }
        for g in &self.globals {
            match &g.ty {
                Ty::Fb(i) => out.push(format!("g {} {} fb {}", g.name, g.pol.code(), self.fbs[*i].name)),
                _ => out.push(format!("g {} {} v {}", g.name, g.pol.code(), g.init_val().show())),
            }
            if let (Some(a), Ty::S(i)) = (&g.at, &g.ty) {
                out.push(format!("gat {} {} {}", g.name, a.proto(), STYS[*i].tag));
            }
        }
        for p in &self.progs {
            out.push(format!("p {}", p.inst));
            for v in &p.vars {
                let pol = p.effective_pol(v).code();
                match (&v.ty, &v.init_expr) {
                    (Ty::S(i), Some(e)) => out.push(format!("pv {} {} {} x {} {}", p.inst, v.name, pol, STYS[*i].tag, e.proto())),
                    (Ty::Fb(i), _) => out.push(format!("pv {} {} {} fb {}", p.inst, v.name, pol, self.fbs[*i].name)),
                    _ => out.push(format!("pv {} {} {} v {}", p.inst, v.name, pol, v.init_val().show())),
                }
                if let (Some(a), Ty::S(i)) = (&v.at, &v.ty) {
                    out.push(format!("pat {} {} {} {}", p.inst, v.name, a.proto(), STYS[*i].tag));
                }
            }
            for st in &p.body {
                out.push(format!("ps {} {}", p.inst, st.proto()));
            }
        }
        for t in &self.tasks {
            out.push(format!(
                "task {} {} {} {}",
                t.name,
                t.interval_ms * 1_000_000,
                t.single.map(|g| self.globals[g].name.clone()).unwrap_or_else(|| "-".into()),
                t.prio
            ));
        }
        for p in &self.progs {
            if let Some(t) = p.task {
                out.push(format!("pt {} {}", p.inst, self.tasks[t].name));
            }
            for (v, t) in &p.fb_tasks {
                out.push(format!("ft {} {} {}", p.inst, v, self.tasks[*t].name));
            }
        }
        for a in &self.access {
            out.push(format!("acc {} {}", a.name, a.tgt.proto()));
        }
        for c in &self.cfg_inits {
            out.push(format!("ci {} {}", c.tgt.proto(), c.ty.lits()[c.lit].1.show()));
        }
        out
    }
}
