//! C09 — the recorded witnesses of the known findings (known_findings.json), replayed on the real
//! runtime at the start of every run (cases 0..).

use super::types::*;

pub struct Witness {
    /// signature of the OPEN finding the case reproduces; `None` = regression case of a fixed
    /// finding (any divergence is a violation)
    pub signature: Option<&'static str>,
    pub case: Case,
}

fn var(name: &str, ty: Ty, pol: Pol, init: Option<usize>, at: Option<Addr>, block: &'static str) -> Var {
    Var { name: name.into(), ty, pol, init, at, block, init_expr: None }
}

fn prog(inst: &str, ty_name: &str, vars: Vec<Var>, externals: Vec<usize>, body: Vec<Stmt>) -> Prog {
    Prog {
        ty_name: ty_name.into(),
        inst: inst.into(),
        inst_pol: None,
        vars,
        externals,
        body,
        task: None,
        fb_tasks: vec![],
        owns_globals: false,
    }
}

fn l(name: &str) -> Tgt {
    Tgt::var(Scope::L, name)
}
fn g(name: &str) -> Tgt {
    Tgt::var(Scope::G, name)
}

fn base(config_mode: bool) -> Case {
    Case {
        config_mode,
        fbs: vec![],
        globals: vec![],
        progs: vec![],
        tasks: vec![],
        access: vec![],
        cfg_inits: vec![],
        history: vec![],
        twin: true,
        scripted_store: false,
        store_starts_unwritable: false,
        driver: None,
    }
}

const MS: i64 = 1_000_000;

pub fn all() -> Vec<Witness> {
    let mut out = Vec::new();

    // 0: `inp AT %IX0.0 : BOOL; outp AT %QX0.0 : BOOL; outp := inp;` — after any restart the output
    // no longer follows the input (I/O bindings point at the old program instance).
    {
        let mut c = base(false);
        let inp = Addr { area: 'I', size: 'X', byte: 0, bit: 0 };
        let outp = Addr { area: 'Q', size: 'X', byte: 0, bit: 0 };
        let mut p = prog(
            "Main",
            "Main",
            vec![
                var("inp", Ty::S(ST_BOOL), Pol::U, None, Some(inp.clone()), "VAR"),
                var("outp", Ty::S(ST_BOOL), Pol::U, None, Some(outp), "VAR"),
            ],
            vec![],
            vec![Stmt::S(SStmt::Cpy(l("outp"), l("inp")))],
        );
        p.owns_globals = true;
        c.progs.push(p);
        c.history = vec![
            Step::Io(inp.clone(), 1),
            Step::Cycle(10 * MS),
            Step::Restart(Mode::Cold),
            Step::Io(inp.clone(), 0),
            Step::Cycle(10 * MS),
            Step::Io(inp, 1),
            Step::Cycle(10 * MS),
        ];
        out.push(Witness { signature: Some("stale-binding"), case: c });
    }

    // 1 (regression, fixed by /repo 5436414): SINGLE variable initially TRUE: a fresh runtime seeds
    // last_single = TRUE (no edge); before the fix a restart set last_single = FALSE and the event
    // task fired once spuriously.
    {
        let mut c = base(true);
        c.globals.push(var("trig", Ty::S(ST_BOOL), Pol::U, Some(0), None, "VAR_GLOBAL"));
        c.tasks.push(TaskD { name: "T0".into(), interval_ms: 0, single: Some(0), prio: 1 });
        let mut p = prog(
            "P0",
            "Prog0",
            vec![var("runs", Ty::S(ST_INT), Pol::U, None, None, "VAR")],
            vec![],
            vec![Stmt::S(SStmt::Inc(l("runs"), 1, ST_INT))],
        );
        p.task = Some(0);
        c.progs.push(p);
        c.history = vec![Step::Cycle(10 * MS), Step::Restart(Mode::Cold), Step::Cycle(10 * MS), Step::Cycle(10 * MS)];
        out.push(Witness { signature: None, case: c });
    }

    // 2 (regression, fixed by /repo d6c1b45): the %M image survived a cold restart: a marker-bound
    // counter continued instead of restarting.
    {
        let mut c = base(true);
        c.globals.push(var(
            "gm",
            Ty::S(ST_INT),
            Pol::U,
            None,
            Some(Addr { area: 'M', size: 'W', byte: 0, bit: 0 }),
            "VAR_GLOBAL",
        ));
        c.progs.push(prog("P0", "Prog0", vec![], vec![0], vec![Stmt::S(SStmt::Inc(g("gm"), 1, ST_INT))]));
        c.history = vec![
            Step::Cycle(10 * MS),
            Step::Cycle(10 * MS),
            Step::Cycle(10 * MS),
            Step::Restart(Mode::Cold),
            Step::Cycle(10 * MS),
        ];
        out.push(Witness { signature: None, case: c });
    }

    // 3: power cycle: a program-level RETAIN variable survives a warm restart but not save + new
    // process + load (the retain snapshot covers globals only).
    {
        let mut c = base(true);
        c.globals.push(var("gr", Ty::S(ST_INT), Pol::R, None, None, "VAR_GLOBAL"));
        c.progs.push(prog(
            "P0",
            "Prog0",
            vec![var("r", Ty::S(ST_INT), Pol::R, Some(0), None, "VAR")],
            vec![0],
            vec![Stmt::S(SStmt::Inc(l("r"), 1, ST_INT)), Stmt::S(SStmt::Inc(g("gr"), 1, ST_INT))],
        ));
        c.history = vec![
            Step::Store(false),
            Step::Cycle(10 * MS),
            Step::Cycle(10 * MS),
            Step::Restart(Mode::Warm),
            Step::Cycle(10 * MS),
            Step::Save,
            Step::Power(None),
            Step::Cycle(10 * MS),
        ];
        out.push(Witness { signature: Some("power-program-retain"), case: c });
    }

    // 4: FB members: RETAIN inside a program-level FB instance (and RETAIN on the instance
    // variable) is ignored by a warm restart; a RETAIN global FB instance keeps even NON_RETAIN
    // members.
    {
        let mut c = base(true);
        c.fbs.push(FbType {
            name: "Fb0".into(),
            members: vec![
                var("inc", Ty::S(ST_INT), Pol::U, None, None, "VAR_INPUT"),
                var("tot", Ty::S(ST_INT), Pol::U, None, None, "VAR_OUTPUT"),
                var("kept", Ty::S(ST_INT), Pol::R, Some(0), None, "VAR"),
                var("nr", Ty::S(ST_INT), Pol::N, None, None, "VAR"),
            ],
            body: vec![
                SStmt::Inc(l("kept"), 1, ST_INT),
                SStmt::Inc(l("nr"), 1, ST_INT),
                SStmt::Cpy(l("tot"), l("inc")),
            ],
        });
        c.globals.push(var("gfb", Ty::Fb(0), Pol::R, None, None, "VAR_GLOBAL"));
        let call = |t: Tgt| Stmt::Call(t, vec![("inc".into(), "INT#2".into(), MVal::Num(3, 2))]);
        c.progs.push(prog(
            "P0",
            "Prog0",
            vec![var("rfb", Ty::Fb(0), Pol::R, None, None, "VAR"), var("ufb", Ty::Fb(0), Pol::U, None, None, "VAR")],
            vec![0],
            vec![call(l("rfb")), call(l("ufb")), call(g("gfb"))],
        ));
        c.history = vec![Step::Cycle(10 * MS), Step::Cycle(10 * MS), Step::Restart(Mode::Warm), Step::Cycle(10 * MS)];
        out.push(Witness { signature: Some("fb-member-retain"), case: c });
    }

    // 5: VAR_CONFIG initial value is applied by the build only: any restart re-initialises the
    // variable to the value declared in the POU.
    {
        let mut c = base(true);
        c.progs.push(prog(
            "P0",
            "Prog0",
            vec![var("w", Ty::S(ST_INT), Pol::U, None, None, "VAR"), var("k", Ty::S(ST_INT), Pol::U, None, None, "VAR")],
            vec![],
            vec![Stmt::S(SStmt::Inc(l("k"), 1, ST_INT))],
        ));
        c.cfg_inits.push(CfgInit { tgt: Tgt::var(Scope::P("P0".into()), "w"), ty: Ty::S(ST_INT), lit: 2 });
        c.history = vec![Step::Cycle(10 * MS), Step::Restart(Mode::Cold), Step::Cycle(10 * MS)];
        out.push(Witness { signature: Some("config-init-lost"), case: c });
    }

    // 6: the resource loop's restart step (`restart(mode)` then `load_retain_store()`, no save in
    // between; `TestHarness::restart_with_retain`): a warm restart rolls RETAIN globals back to the
    // last saved snapshot.
    {
        let mut c = base(true);
        c.globals.push(var("gr", Ty::S(ST_INT), Pol::R, None, None, "VAR_GLOBAL"));
        c.progs.push(prog("P0", "Prog0", vec![], vec![0], vec![Stmt::S(SStmt::Inc(g("gr"), 1, ST_INT))]));
        c.history = vec![
            Step::Store(false),
            Step::Cycle(10 * MS),
            Step::Save,
            Step::Cycle(10 * MS),
            Step::Cycle(10 * MS),
            Step::Cycle(10 * MS),
            Step::Rwr(Mode::Warm),
            Step::Cycle(10 * MS),
        ];
        out.push(Witness { signature: Some("warm-rollback"), case: c });
    }

    // 7 (regression): a write that fails must not be remembered as written.  The retain directory
    // does not exist at first: save fails; the directory appears; the retry — with UNCHANGED retained
    // values — must write; a new process then loads the saved value.
    {
        let mut c = base(true);
        c.globals.push(var("gr", Ty::S(ST_INT), Pol::R, None, None, "VAR_GLOBAL"));
        c.progs.push(prog("P0", "Prog0", vec![], vec![0], vec![Stmt::S(SStmt::Inc(g("gr"), 1, ST_INT))]));
        c.store_starts_unwritable = true;
        c.history = vec![
            Step::Store(false),
            Step::Cycle(10 * MS),
            Step::Cycle(10 * MS),
            Step::Save,
            Step::EnvW(true),
            Step::Save,
            Step::Power(None),
            Step::Cycle(10 * MS),
        ];
        out.push(Witness { signature: None, case: c });
    }
    // 8 (regression): the same with the scripted store and an autosaving manager: the failing cycle
    // faults the resource, the warm restart clears the latch, the explicit retry must write.
    {
        let mut c = base(true);
        c.globals.push(var("gr", Ty::S(ST_INT), Pol::R, None, None, "VAR_GLOBAL"));
        c.progs.push(prog("P0", "Prog0", vec![], vec![0], vec![Stmt::S(SStmt::Inc(g("gr"), 1, ST_INT))]));
        c.scripted_store = true;
        c.history = vec![
            Step::Store(true),
            Step::Cycle(10 * MS),
            Step::EnvW(false),
            Step::Cycle(10 * MS),
            Step::Save,
            Step::EnvW(true),
            Step::Save,
            Step::Power(None),
        ];
        out.push(Witness { signature: None, case: c });
    }

    // 9 (regression): a cold restart zero-fills the process images and PRESERVES their lengths: the
    // image is sized once at start-up and an I/O driver delivers as many input bytes as the slice it
    // is handed is long.  Truncating the images would leave driver-fed %I variables at zero forever.
    {
        let mut c = base(true);
        let ix = Addr { area: 'I', size: 'X', byte: 0, bit: 0 };
        let ib = Addr { area: 'I', size: 'B', byte: 1, bit: 0 };
        let qx = Addr { area: 'Q', size: 'X', byte: 0, bit: 0 };
        let qb = Addr { area: 'Q', size: 'B', byte: 1, bit: 0 };
        c.globals.push(var("start", Ty::S(ST_BOOL), Pol::U, None, Some(ix), "VAR_GLOBAL"));
        c.globals.push(var("level", Ty::S(11), Pol::U, None, Some(ib), "VAR_GLOBAL"));
        c.globals.push(var("lamp", Ty::S(ST_BOOL), Pol::U, None, Some(qx), "VAR_GLOBAL"));
        c.globals.push(var("echo", Ty::S(11), Pol::U, None, Some(qb), "VAR_GLOBAL"));
        c.progs.push(prog(
            "P0",
            "Prog0",
            vec![],
            vec![0, 1, 2, 3],
            vec![Stmt::S(SStmt::Cpy(g("lamp"), g("start"))), Stmt::S(SStmt::Cpy(g("echo"), g("level")))],
        ));
        c.driver = Some((2, 2, 0));
        c.history = vec![
            Step::Field(vec![1, 42]),
            Step::Cycle(10 * MS),
            Step::Restart(Mode::Cold),
            Step::Cycle(10 * MS),
            Step::Field(vec![0, 7]),
            Step::Cycle(10 * MS),
        ];
        out.push(Witness { signature: None, case: c });
    }

    out
}
