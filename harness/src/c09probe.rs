//! `vharness c09probe --src <file.st> --script "cycle;in %IX0.0 1;cycle;restart cold;dump"`:
//! developer tool for C09 witness replays on the real runtime (not a check).
//!
//! script steps (separated by `;`):
//!   cycle | adv <ms> | in <addr> <0|1|int> | out <addr> | restart cold|warm | rwr cold|warm |
//!   store <path> | save | power <path> | powerrun <path> cold|warm | fault | access <name> |
//!   setaccess <name> <int> | dump

use crate::Args;
use trust_runtime::harness::TestHarness;
use trust_runtime::io::{IoAddress, IoSize};
use trust_runtime::retain::FileRetainStore;
use trust_runtime::value::{Duration, Value};
use trust_runtime::RestartMode;

fn mode(s: &str) -> RestartMode {
    if s == "cold" {
        RestartMode::Cold
    } else {
        RestartMode::Warm
    }
}

fn dump(h: &TestHarness) {
    let rt = h.runtime();
    println!(
        "  time={} cycles={} faulted={} frames={} instances={} inputs={:?} outputs={:?} memory={:?}",
        rt.current_time().as_nanos(),
        rt.cycle_counter(),
        rt.faulted(),
        rt.storage().frames().len(),
        rt.storage().instances().len(),
        rt.io().inputs(),
        rt.io().outputs(),
        rt.io().memory()
    );
    for (name, value) in rt.storage().globals() {
        println!("  global {name} = {value:?}");
    }
    let mut ids: Vec<_> = rt.storage().instances().keys().copied().collect();
    ids.sort_by_key(|id| id.0);
    for id in ids {
        let inst = &rt.storage().instances()[&id];
        for (name, value) in inst.variables.iter() {
            println!("  instance {} {} {name} = {value:?}", id.0, inst.type_name);
        }
    }
    for b in rt.io().bindings() {
        println!("  binding {:?} -> {:?} {:?}", b.display_name, b.target, b.address);
    }
    for t in rt.tasks() {
        println!("  task {} single={:?} programs={:?} fb={:?}", t.name, t.single, t.programs, t.fb_instances);
    }
}

pub fn run(args: &Args) -> i32 {
    let Some(path) = args.extra.get("src") else {
        eprintln!("--src <file.st> required");
        return 2;
    };
    let source = std::fs::read_to_string(path).expect("read source");
    let script = args.extra.get("script").cloned().unwrap_or_else(|| "cycle;dump".into());
    let mut h = match TestHarness::from_source(&source) {
        Ok(h) => h,
        Err(e) => {
            println!("compile-error {e}");
            return 1;
        }
    };
    let mut store_path: Option<String> = None;
    for step in script.split(';') {
        let w: Vec<&str> = step.split_whitespace().collect();
        if w.is_empty() {
            continue;
        }
        println!("> {step}");
        match w[0] {
            "cycle" => {
                let r = h.cycle();
                println!("  errors={:?}", r.errors);
            }
            "adv" => h.advance_time(Duration::from_millis(w[1].parse().unwrap())),
            "in" => {
                let addr = IoAddress::parse(w[1]).expect("addr");
                let n: i64 = w[2].parse().unwrap();
                let v = match addr.size {
                    IoSize::Bit => Value::Bool(n != 0),
                    IoSize::Byte => Value::Byte(n as u8),
                    IoSize::Word => Value::Word(n as u16),
                    IoSize::DWord => Value::DWord(n as u32),
                    IoSize::LWord => Value::LWord(n as u64),
                };
                println!("  {:?}", h.set_direct_input(w[1], v));
            }
            "out" => println!("  {:?}", h.get_direct_output(w[1])),
            "restart" => println!("  {:?}", h.restart(mode(w[1]))),
            "rwr" => println!("  {:?}", h.restart_with_retain(mode(w[1]))),
            "store" => {
                store_path = Some(w[1].to_string());
                h.runtime_mut()
                    .set_retain_store(Some(Box::new(FileRetainStore::new(w[1]))), None);
            }
            "save" => println!("  {:?}", h.runtime_mut().save_retain_store()),
            "power" | "powerrun" => {
                let p = w[1].to_string();
                let mut n = TestHarness::from_source(&source).expect("rebuild");
                n.runtime_mut()
                    .set_retain_store(Some(Box::new(FileRetainStore::new(&p))), None);
                if w[0] == "powerrun" {
                    println!("  restart {:?}", n.restart(mode(w[2])));
                }
                println!("  load {:?}", n.runtime_mut().load_retain_store());
                store_path = Some(p);
                h = n;
            }
            "fault" => {
                let e = h.runtime_mut().simulation_fault("probe");
                println!("  {e:?}");
            }
            "access" => println!("  {:?}", h.get_access(w[1])),
            "setaccess" => {
                let n: i16 = w[2].parse().unwrap();
                println!("  {:?}", h.set_access(w[1], Value::Int(n)));
            }
            "dump" => dump(&h),
            other => {
                eprintln!("unknown step {other}");
                return 2;
            }
        }
    }
    let _ = store_path;
    0
}
