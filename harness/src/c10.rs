//! C10 — retain file: lossless codec and crash-atomic save.
//!
//! Three kinds of operations, all through the public API `FileRetainStore::{store, load}`:
//!   rt <snapshot>      store a generated snapshot, read the file bytes, load it back (in process)
//!   dec <hex>          put arbitrary / mutated bytes into the retain file and `load` it in a CHILD
//!                      process that runs under RLIMIT_AS (an abort is an observable) and reports how
//!                      much its address space grew (the allocation oracle)
//!   crash ...          a child runs `store(new)` over an existing file under
//!                      `strace -e inject=<syscall>:signal=KILL:when=k` for every system call of the
//!                      traced sequence on the retain path; the parent then calls `load`
//!
//! Snapshot text (shared with the Lean driver): `<n> (<name-hex> <value>)*` where a value is
//! `<kind> <payload>`; scalars print their bit pattern as an unsigned decimal number.

use crate::rng::Rng;
use crate::util::{hex, Out};
use crate::Args;
use indexmap::IndexMap;
use smol_str::SmolStr;
use std::io::{BufRead, BufReader, Write};
use std::os::unix::process::ExitStatusExt;
use std::path::{Path, PathBuf};
use std::process::{Child, ChildStdin, ChildStdout, Command, Stdio};
use trust_runtime::error::RuntimeError;
use trust_runtime::memory::InstanceId;
use trust_runtime::retain::{FileRetainStore, RetainStore};
use trust_runtime::value::{
    ArrayValue, DateTimeValue, DateValue, Duration, EnumValue, LDateTimeValue, LDateValue,
    LTimeOfDayValue, StructValue, TimeOfDayValue, Value,
};
use trust_runtime::RetainSnapshot;

// ------------------------------------------------------------------------------------------------
// canonical text
// ------------------------------------------------------------------------------------------------

fn show_value(v: &Value, out: &mut String) {
    use std::fmt::Write as _;
    match v {
        Value::Bool(b) => write!(out, "bool {}", u8::from(*b)),
        Value::SInt(x) => write!(out, "sint {}", *x as u8),
        Value::Int(x) => write!(out, "int {}", *x as u16),
        Value::DInt(x) => write!(out, "dint {}", *x as u32),
        Value::LInt(x) => write!(out, "lint {}", *x as u64),
        Value::USInt(x) => write!(out, "usint {x}"),
        Value::UInt(x) => write!(out, "uint {x}"),
        Value::UDInt(x) => write!(out, "udint {x}"),
        Value::ULInt(x) => write!(out, "ulint {x}"),
        Value::Real(x) => write!(out, "real {}", x.to_bits()),
        Value::LReal(x) => write!(out, "lreal {}", x.to_bits()),
        Value::Byte(x) => write!(out, "byte {x}"),
        Value::Word(x) => write!(out, "word {x}"),
        Value::DWord(x) => write!(out, "dword {x}"),
        Value::LWord(x) => write!(out, "lword {x}"),
        Value::Time(x) => write!(out, "time {}", x.as_nanos() as u64),
        Value::LTime(x) => write!(out, "ltime {}", x.as_nanos() as u64),
        Value::Date(x) => write!(out, "date {}", x.ticks() as u64),
        Value::LDate(x) => write!(out, "ldate {}", x.nanos() as u64),
        Value::Tod(x) => write!(out, "tod {}", x.ticks() as u64),
        Value::LTod(x) => write!(out, "ltod {}", x.nanos() as u64),
        Value::Dt(x) => write!(out, "dt {}", x.ticks() as u64),
        Value::Ldt(x) => write!(out, "ldt {}", x.nanos() as u64),
        Value::String(s) => write!(out, "string {}", hex(s.as_bytes())),
        Value::WString(s) => write!(out, "wstring {}", hex(s.as_bytes())),
        Value::Char(x) => write!(out, "char {x}"),
        Value::WChar(x) => write!(out, "wchar {x}"),
        Value::Array(a) => {
            let _ = write!(out, "array {}", a.dimensions.len());
            for (lo, hi) in &a.dimensions {
                let _ = write!(out, " {} {}", *lo as u64, *hi as u64);
            }
            let _ = write!(out, " {}", a.elements.len());
            for e in &a.elements {
                out.push(' ');
                show_value(e, out);
            }
            Ok(())
        }
        Value::Struct(s) => {
            let _ = write!(out, "struct {} {}", hex(s.type_name.as_bytes()), s.fields.len());
            for (n, f) in &s.fields {
                let _ = write!(out, " {} ", hex(n.as_bytes()));
                show_value(f, out);
            }
            Ok(())
        }
        Value::Enum(e) => write!(
            out,
            "enum {} {} {}",
            hex(e.type_name.as_bytes()),
            hex(e.variant_name.as_bytes()),
            e.numeric_value as u64
        ),
        Value::Null => write!(out, "null"),
        Value::Reference(_) => write!(out, "reference"),
        Value::Instance(_) => write!(out, "instance"),
    }
    .expect("fmt");
}

fn show_snapshot(s: &RetainSnapshot) -> String {
    let mut out = format!("{}", s.values().len());
    for (n, v) in s.values() {
        out.push(' ');
        out.push_str(&hex(n.as_bytes()));
        out.push(' ');
        show_value(v, &mut out);
    }
    out
}

/// Error class of a `RuntimeError` on the retain paths (the model's `Err`).
fn err_class(e: &RuntimeError) -> String {
    match e {
        RuntimeError::RetainStore(msg) => {
            let m = msg.as_str();
            let c = if m.contains("truncated") {
                "truncated"
            } else if m.contains("magic") {
                "magic"
            } else if m.contains("version") {
                "version"
            } else if m.contains("utf-8") {
                "utf8"
            } else if m.contains("unknown retain value tag") {
                "tag"
            } else if m.contains("nested too deeply") {
                "depth"
            } else if m.contains("cannot retain") {
                "unretainable"
            } else if m.starts_with("open ")
                || m.starts_with("read ")
                || m.starts_with("create ")
                || m.starts_with("write ")
                || m.starts_with("sync ")
                || m.starts_with("rename ")
            {
                "io"
            } else {
                "other"
            };
            c.to_string()
        }
        _ => "other-error-kind".to_string(),
    }
}

fn show_load(r: &Result<RetainSnapshot, RuntimeError>) -> String {
    match r {
        Ok(s) => format!("ok {}", show_snapshot(s)),
        Err(e) => format!("err {}", err_class(e)),
    }
}

// ------------------------------------------------------------------------------------------------
// generators
// ------------------------------------------------------------------------------------------------

const STRS: &[&str] = &[
    "", "a", "x", "Counter", "g_total", "Änderung", "€", "日本語", "😀", "\u{7f}", "\u{80}",
    "\u{7ff}", "\u{800}", "\u{d7ff}", "\u{e000}", "\u{ffff}", "\u{10000}", "\u{10ffff}", "a b", "\0",
    "MOTOR_T", "State.Running", "\u{feff}bom",
];

fn gen_string(rng: &mut Rng) -> String {
    match rng.below(10) {
        0..=5 => rng.pick(STRS).to_string(),
        6 | 7 => {
            let n = rng.below(12) as usize;
            (0..n)
                .map(|_| char::from(b'a' + rng.below(26) as u8))
                .collect()
        }
        8 => {
            let n = rng.below(6) as usize;
            (0..n).map(|_| rng.pick(STRS).to_string()).collect()
        }
        _ => {
            // long; now and then longer than a u16 can count
            let n = if rng.chance(1, 120) {
                65_530 + rng.below(40) as usize
            } else {
                200 + rng.below(400) as usize
            };
            (0..n)
                .map(|i| if i % 37 == 5 { 'é' } else { char::from(b'A' + (i % 26) as u8) })
                .collect()
        }
    }
}

fn gen_u64(rng: &mut Rng) -> u64 {
    match rng.below(12) {
        0 => 0,
        1 => 1,
        2 => u64::MAX,
        3 => i64::MAX as u64,
        4 => i64::MIN as u64,
        5 => 0xFF,
        6 => 0x100,
        7 => 0xFFFF_FFFF,
        8 => 0x1_0000_0000,
        9 => rng.below(1000),
        _ => rng.next(),
    }
}

const F32S: &[u32] = &[
    0, 0x8000_0000, 0x3F80_0000, 0x7F80_0000, 0xFF80_0000, 0x7FC0_0000, 0xFFC0_0001, 0x7F80_0001,
    0x7FFF_FFFF, 0x0000_0001, 0x0080_0000, 0x7F7F_FFFF,
];
const F64S: &[u64] = &[
    0,
    0x8000_0000_0000_0000,
    0x3FF0_0000_0000_0000,
    0x7FF0_0000_0000_0000,
    0xFFF0_0000_0000_0000,
    0x7FF8_0000_0000_0000,
    0xFFF8_0000_0000_0001,
    0x7FF0_0000_0000_0001,
    0x7FFF_FFFF_FFFF_FFFF,
    1,
];

fn gen_scalar(rng: &mut Rng) -> Value {
    let x = gen_u64(rng);
    match rng.below(29) {
        0 => Value::Bool(x & 1 == 1),
        1 => Value::SInt(x as i8),
        2 => Value::Int(x as i16),
        3 => Value::DInt(x as i32),
        4 => Value::LInt(x as i64),
        5 => Value::USInt(x as u8),
        6 => Value::UInt(x as u16),
        7 => Value::UDInt(x as u32),
        8 => Value::ULInt(x),
        9 => Value::Real(f32::from_bits(if rng.bool() { *rng.pick(F32S) } else { x as u32 })),
        10 => Value::LReal(f64::from_bits(if rng.bool() { *rng.pick(F64S) } else { x })),
        11 => Value::Byte(x as u8),
        12 => Value::Word(x as u16),
        13 => Value::DWord(x as u32),
        14 => Value::LWord(x),
        15 => Value::Time(Duration::from_nanos(x as i64)),
        16 => Value::LTime(Duration::from_nanos(x as i64)),
        17 => Value::Date(DateValue::new(x as i64)),
        18 => Value::LDate(LDateValue::new(x as i64)),
        19 => Value::Tod(TimeOfDayValue::new(x as i64)),
        20 => Value::LTod(LTimeOfDayValue::new(x as i64)),
        21 => Value::Dt(DateTimeValue::new(x as i64)),
        22 => Value::Ldt(LDateTimeValue::new(x as i64)),
        23 => Value::String(SmolStr::new(gen_string(rng))),
        24 => Value::WString(gen_string(rng)),
        25 => Value::Char(x as u8),
        26 => Value::WChar(x as u16),
        27 => Value::Enum(EnumValue {
            type_name: SmolStr::new(gen_string(rng)),
            variant_name: SmolStr::new(gen_string(rng)),
            numeric_value: x as i64,
        }),
        _ => Value::Null,
    }
}

fn gen_fields(rng: &mut Rng, n: usize, depth: u32) -> IndexMap<SmolStr, Value> {
    let mut fields = IndexMap::new();
    for i in 0..n {
        let mut name = gen_string(rng);
        if fields.contains_key(name.as_str()) {
            name = format!("{name}#{i}");
        }
        fields.insert(SmolStr::new(name), gen_value(rng, depth));
    }
    fields
}

/// `depth` = how many more container levels may be generated below this value.
fn gen_value(rng: &mut Rng, depth: u32) -> Value {
    let r = rng.below(100);
    if depth == 0 || r < 55 {
        if rng.chance(1, 80) {
            return if rng.bool() {
                Value::Reference(None)
            } else {
                Value::Instance(InstanceId(rng.below(9) as u32))
            };
        }
        return gen_scalar(rng);
    }
    if r < 80 {
        let ndims = *rng.pick(&[0usize, 1, 1, 1, 2, 3]);
        let dimensions = (0..ndims)
            .map(|_| (gen_u64(rng) as i64, gen_u64(rng) as i64))
            .collect();
        let n = match rng.below(20) {
            0 => 0,
            1 => {
                if rng.chance(1, 40) {
                    65_530 + rng.below(40) as usize // more than a u16 can count
                } else {
                    40 + rng.below(300) as usize
                }
            }
            _ => rng.below(6) as usize,
        };
        // big arrays hold scalars of one kind (as real arrays do), small ones anything
        let elements = if n >= 1000 {
            let kind = rng.below(4);
            (0..n)
                .map(|i| match kind {
                    0 => Value::Bool(i % 3 == 0),
                    1 => Value::Int(i as i16),
                    2 => Value::Null,
                    _ => Value::USInt(i as u8),
                })
                .collect()
        } else if n >= 40 {
            let proto = gen_scalar(rng);
            (0..n)
                .map(|_| {
                    let mut v = gen_scalar(rng);
                    while std::mem::discriminant(&v) != std::mem::discriminant(&proto) {
                        v = gen_scalar(rng);
                    }
                    v
                })
                .collect()
        } else {
            (0..n).map(|_| gen_value(rng, depth - 1)).collect()
        };
        Value::Array(ArrayValue {
            elements,
            dimensions,
        })
    } else {
        let n = match rng.below(12) {
            0 => 0,
            1 => 12 + rng.below(20) as usize,
            _ => 1 + rng.below(5) as usize,
        };
        Value::Struct(StructValue {
            type_name: SmolStr::new(gen_string(rng)),
            fields: gen_fields(rng, n, depth - 1),
        })
    }
}

/// A chain of `levels` single-element containers around a leaf: the leaf sits at depth `levels`.
fn gen_nest(rng: &mut Rng, levels: usize) -> Value {
    let mut v = if rng.chance(1, 4) {
        // an empty container at the bottom: it passes the depth test where a non-empty one fails
        if rng.bool() {
            Value::Array(ArrayValue {
                elements: vec![],
                dimensions: vec![],
            })
        } else {
            Value::Struct(StructValue {
                type_name: SmolStr::new("E"),
                fields: IndexMap::new(),
            })
        }
    } else {
        gen_scalar(rng)
    };
    for _ in 0..levels {
        v = if rng.chance(2, 3) {
            Value::Array(ArrayValue {
                elements: vec![v],
                dimensions: if rng.chance(1, 5) { vec![(0, 0)] } else { vec![] },
            })
        } else {
            let mut fields = IndexMap::new();
            fields.insert(SmolStr::new("f"), v);
            Value::Struct(StructValue {
                type_name: SmolStr::new("T"),
                fields,
            })
        };
    }
    v
}

fn gen_snapshot(rng: &mut Rng) -> RetainSnapshot {
    let mut s = RetainSnapshot::default();
    let n = match rng.below(16) {
        0 => 0,
        1 => 8 + rng.below(20) as usize,
        _ => 1 + rng.below(4) as usize,
    };
    for i in 0..n {
        let mut name = gen_string(rng);
        if s.values().contains_key(name.as_str()) {
            name = format!("{name}~{i}");
        }
        let v = if rng.chance(1, 12) {
            // around the nesting limit (64): 62..=67 levels
            let levels = 62 + rng.below(6) as usize;
            gen_nest(rng, levels)
        } else {
            gen_value(rng, 4)
        };
        s.insert(name, v);
    }
    s
}

fn has_container(s: &RetainSnapshot) -> bool {
    s.values()
        .values()
        .any(|v| matches!(v, Value::Array(_) | Value::Struct(_)))
}

// ---- layout marks of an encoded snapshot (where the length / count / tag fields are) ------------

#[derive(Clone, Copy, PartialEq, Debug)]
enum Mark {
    Tag(usize),
    StrLen(usize, usize), // offset of the u32, length of the body
    Count(usize),         // array element count / struct field count / snapshot count
    Dims(usize),
    Bool(usize),
}

fn mark_str(s: &str, off: &mut usize, m: &mut Vec<Mark>) {
    m.push(Mark::StrLen(*off, s.len()));
    *off += 4 + s.len();
}

fn mark_value(v: &Value, off: &mut usize, m: &mut Vec<Mark>) {
    m.push(Mark::Tag(*off));
    *off += 1;
    match v {
        Value::Bool(_) => {
            m.push(Mark::Bool(*off));
            *off += 1
        }
        Value::SInt(_) | Value::USInt(_) | Value::Byte(_) | Value::Char(_) => *off += 1,
        Value::Int(_) | Value::UInt(_) | Value::Word(_) | Value::WChar(_) => *off += 2,
        Value::DInt(_) | Value::UDInt(_) | Value::DWord(_) | Value::Real(_) => *off += 4,
        Value::String(s) => mark_str(s.as_str(), off, m),
        Value::WString(s) => mark_str(s.as_str(), off, m),
        Value::Array(a) => {
            m.push(Mark::Count(*off));
            *off += 4;
            m.push(Mark::Dims(*off));
            *off += 4 + 16 * a.dimensions.len();
            for e in &a.elements {
                mark_value(e, off, m);
            }
        }
        Value::Struct(s) => {
            mark_str(s.type_name.as_str(), off, m);
            m.push(Mark::Count(*off));
            *off += 4;
            for (n, f) in &s.fields {
                mark_str(n.as_str(), off, m);
                mark_value(f, off, m);
            }
        }
        Value::Enum(e) => {
            mark_str(e.type_name.as_str(), off, m);
            mark_str(e.variant_name.as_str(), off, m);
            *off += 8;
        }
        Value::Null | Value::Reference(_) | Value::Instance(_) => {}
        _ => *off += 8,
    }
}

fn marks_of(s: &RetainSnapshot) -> Vec<Mark> {
    let mut m = vec![Mark::Count(6)];
    let mut off = 10usize;
    for (n, v) in s.values() {
        mark_str(n.as_str(), &mut off, &mut m);
        mark_value(v, &mut off, &mut m);
    }
    m
}

const BIG32: &[u32] = &[
    0xFFFF_FFFF, 0xFFFF_FFFE, 0x8000_0000, 0x7FFF_FFFF, 0x1000_0000, 0x0100_0000, 0x0010_0000, 0x0004_0000,
    0x0001_0000, 0x1000, 0x100,
];

fn put_u32(b: &mut [u8], off: usize, v: u32) {
    if off + 4 <= b.len() {
        b[off..off + 4].copy_from_slice(&v.to_le_bytes());
    }
}
fn get_u32(b: &[u8], off: usize) -> u32 {
    if off + 4 <= b.len() {
        u32::from_le_bytes([b[off], b[off + 1], b[off + 2], b[off + 3]])
    } else {
        0
    }
}

const BAD_UTF8: &[&[u8]] = &[
    &[0xFF], &[0x80], &[0xC0, 0x80], &[0xC1, 0xBF], &[0xE0, 0x80, 0x80], &[0xE0, 0x9F, 0xBF],
    &[0xED, 0xA0, 0x80], &[0xED, 0xBF, 0xBF], &[0xF0, 0x80, 0x80, 0x80], &[0xF0, 0x8F, 0xBF, 0xBF],
    &[0xF4, 0x90, 0x80, 0x80], &[0xF5, 0x80, 0x80, 0x80], &[0xC2], &[0xE2, 0x82], &[0xF0, 0x9F, 0x98],
    &[0xC2, 0x41], &[0xEF, 0xBF, 0xBF], &[0xED, 0x9F, 0xBF], &[0xF4, 0x8F, 0xBF, 0xBF], &[0xC2, 0x80],
    &[0xE0, 0xA0, 0x80], &[0xF0, 0x90, 0x80, 0x80], &[0xEE, 0x80, 0x80],
];

/// Mutate a valid encoding (structure aware: the marks say where counts, lengths and tags are).
fn mutate(rng: &mut Rng, bytes: &mut Vec<u8>, marks: &[Mark], out: &mut Out) {
    let rounds = 1 + rng.below(3);
    for _ in 0..rounds {
        let kind = rng.below(12);
        match kind {
            0 | 1 | 2 => {
                // a count / dims field
                let cands: Vec<&Mark> = marks
                    .iter()
                    .filter(|m| matches!(m, Mark::Count(_) | Mark::Dims(_)))
                    .collect();
                if let Some(m) = (!cands.is_empty()).then(|| **rng.pick(&cands)) {
                    let off = match m {
                        Mark::Count(o) | Mark::Dims(o) => o,
                        _ => 0,
                    };
                    let cur = get_u32(bytes, off);
                    let v = match rng.below(6) {
                        0 => cur.wrapping_add(1),
                        1 => cur.wrapping_sub(1),
                        2 => 0,
                        3 => rng.below(64) as u32,
                        _ => *rng.pick(BIG32),
                    };
                    put_u32(bytes, off, v);
                    out.count(if matches!(m, Mark::Dims(_)) { "mut:dims" } else { "mut:count" });
                }
            }
            3 | 4 => {
                // a string length, or the string body
                let cands: Vec<&Mark> = marks.iter().filter(|m| matches!(m, Mark::StrLen(..))).collect();
                if let Some(Mark::StrLen(off, len)) = (!cands.is_empty()).then(|| **rng.pick(&cands)) {
                    if rng.bool() || len == 0 {
                        let cur = get_u32(bytes, off);
                        let v = match rng.below(5) {
                            0 => cur.wrapping_add(1),
                            1 => cur.wrapping_sub(1),
                            2 => 0,
                            _ => *rng.pick(BIG32),
                        };
                        put_u32(bytes, off, v);
                        out.count("mut:strlen");
                    } else {
                        // overwrite part of the body with an interesting UTF-8 sequence (same length)
                        let seq = *rng.pick(BAD_UTF8);
                        let at = off + 4 + rng.below(len as u64) as usize;
                        for (i, b) in seq.iter().enumerate() {
                            if at + i < off + 4 + len && at + i < bytes.len() {
                                bytes[at + i] = *b;
                            }
                        }
                        out.count("mut:utf8");
                    }
                }
            }
            5 | 6 => {
                let cands: Vec<&Mark> = marks
                    .iter()
                    .filter(|m| matches!(m, Mark::Tag(_) | Mark::Bool(_)))
                    .collect();
                if let Some(m) = (!cands.is_empty()).then(|| **rng.pick(&cands)) {
                    match m {
                        Mark::Tag(o) if o < bytes.len() => {
                            bytes[o] = match rng.below(4) {
                                0 => 0,
                                1 => 32 + rng.below(224) as u8,
                                _ => 1 + rng.below(31) as u8,
                            };
                            out.count("mut:tag");
                        }
                        Mark::Bool(o) if o < bytes.len() => {
                            bytes[o] = *rng.pick(&[0u8, 1, 2, 255, 128]);
                            out.count("mut:bool");
                        }
                        _ => {}
                    }
                }
            }
            7 => {
                if !bytes.is_empty() {
                    let at = rng.below(bytes.len() as u64) as usize;
                    bytes[at] ^= 1 << rng.below(8);
                    out.count("mut:bitflip");
                }
            }
            8 => {
                let at = rng.below(bytes.len() as u64 + 1) as usize;
                bytes.truncate(at);
                out.count("mut:truncate");
            }
            9 => {
                let n = 1 + rng.below(8);
                for _ in 0..n {
                    bytes.push(rng.next() as u8);
                }
                out.count("mut:append");
            }
            10 => {
                // header
                if bytes.len() >= 6 {
                    let at = rng.below(6) as usize;
                    bytes[at] = bytes[at].wrapping_add(1 + rng.below(3) as u8);
                    out.count("mut:header");
                }
            }
            _ => {
                let cands: Vec<&Mark> = marks.iter().filter(|m| matches!(m, Mark::Bool(_))).collect();
                if let Some(Mark::Bool(o)) = (!cands.is_empty()).then(|| **rng.pick(&cands)) {
                    if o < bytes.len() {
                        bytes[o] = *rng.pick(&[2u8, 3, 255, 128, 0x10, 0xFE]);
                        out.count("mut:bool");
                    }
                } else {
                    out.count("mut:none");
                }
            }
        }
    }
}

fn header(count: u32) -> Vec<u8> {
    let mut b = b"STRN".to_vec();
    b.extend_from_slice(&1u16.to_le_bytes());
    b.extend_from_slice(&count.to_le_bytes());
    b
}

fn raw_str(b: &mut Vec<u8>, s: &[u8]) {
    b.extend_from_slice(&(s.len() as u32).to_le_bytes());
    b.extend_from_slice(s);
}

/// Hand-assembled files (independent of the encoder under test).
fn handmade(rng: &mut Rng, out: &mut Out) -> Vec<u8> {
    match rng.below(8) {
        0 => {
            // nested containers, `levels` deep, properly terminated or not
            out.count("hand:nest");
            let levels = *rng.pick(&[1usize, 2, 63, 64, 65, 66, 67, 70, 100, 300, 2000]);
            let mut b = header(1);
            raw_str(&mut b, b"n");
            let arrays = rng.chance(2, 3);
            for _ in 0..levels {
                if arrays {
                    b.push(28);
                    b.extend_from_slice(&1u32.to_le_bytes());
                    b.extend_from_slice(&0u32.to_le_bytes());
                } else {
                    b.push(29);
                    raw_str(&mut b, b"T");
                    b.extend_from_slice(&1u32.to_le_bytes());
                    raw_str(&mut b, b"f");
                }
            }
            match rng.below(4) {
                0 => {}                                        // truncated at the bottom
                1 => b.extend_from_slice(&[28, 0, 0, 0, 0, 0, 0, 0, 0]), // empty array at the bottom
                _ => b.extend_from_slice(&[1, 1]),
            }
            b
        }
        1 => {
            // array with a huge element / dimension count and little data
            out.count("hand:hugecount");
            let mut b = header(1);
            raw_str(&mut b, b"");
            b.push(28);
            let len = if rng.bool() { *rng.pick(BIG32) } else { rng.below(40) as u32 };
            let dims = if rng.bool() { *rng.pick(BIG32) } else { rng.below(3) as u32 };
            b.extend_from_slice(&len.to_le_bytes());
            b.extend_from_slice(&dims.to_le_bytes());
            let extra = rng.below(80);
            for _ in 0..extra {
                b.push(if rng.bool() { 31 } else { rng.next() as u8 });
            }
            b
        }
        2 => {
            // duplicate names at the top level and inside a struct (IndexMap::insert semantics)
            out.count("hand:dupnames");
            let names: [&[u8]; 3] = [b"a", b"b", b""];
            let n = 2 + rng.below(4) as u32;
            let mut b = header(n);
            for i in 0..n {
                raw_str(&mut b, names[rng.below(3) as usize]);
                if rng.chance(1, 3) {
                    b.push(29);
                    raw_str(&mut b, b"S");
                    let k = 2 + rng.below(3) as u32;
                    b.extend_from_slice(&k.to_le_bytes());
                    for j in 0..k {
                        raw_str(&mut b, names[rng.below(3) as usize]);
                        b.extend_from_slice(&[6, (10 * i + j) as u8]);
                    }
                } else {
                    b.extend_from_slice(&[6, i as u8]);
                }
            }
            b
        }
        3 => {
            // snapshot count larger / smaller than the entries present
            out.count("hand:count");
            let present = rng.below(4) as u32;
            let claimed = match rng.below(4) {
                0 => present + 1,
                1 => present.saturating_sub(1),
                2 => *rng.pick(BIG32),
                _ => present,
            };
            let mut b = header(claimed);
            for i in 0..present {
                raw_str(&mut b, format!("v{i}").as_bytes());
                b.extend_from_slice(&[3, i as u8, 0]);
            }
            b
        }
        4 => {
            // strings with interesting UTF-8
            out.count("hand:utf8");
            let mut b = header(1);
            let mut s = b"ab".to_vec();
            s.extend_from_slice(*rng.pick(BAD_UTF8));
            if rng.bool() {
                s.extend_from_slice(b"z");
            }
            if rng.bool() {
                raw_str(&mut b, &s);
                b.push(31);
            } else {
                raw_str(&mut b, b"k");
                b.push(*rng.pick(&[24u8, 25, 30, 29]));
                raw_str(&mut b, &s);
                raw_str(&mut b, b"v");
                b.extend_from_slice(&[0; 8]);
            }
            b
        }
        5 => {
            out.count("hand:random");
            let n = rng.below(40) as usize;
            let mut b: Vec<u8> = (0..n).map(|_| rng.next() as u8).collect();
            if rng.bool() {
                let mut h = header(rng.below(3) as u32);
                h.append(&mut b);
                b = h;
            }
            b
        }
        6 => {
            // every tag once, with a short / exact / long payload
            out.count("hand:tags");
            let tag = rng.below(34) as u8;
            let mut b = header(1);
            raw_str(&mut b, b"t");
            b.push(tag);
            let n = rng.below(20);
            for _ in 0..n {
                b.push(if rng.chance(1, 3) { 0 } else { rng.next() as u8 });
            }
            b
        }
        _ => {
            out.count("hand:header");
            let mut b = header(0);
            match rng.below(5) {
                0 => b.truncate(rng.below(10) as usize),
                1 => b[4] = 2,
                2 => b[5] = 1,
                3 => b[0] = b's',
                _ => b.push(7),
            }
            b
        }
    }
}

/// Fixed regression corpus: the witnesses of the defects repaired in /repo.
fn corpus(idx: u64, deep_levels: usize) -> Option<(&'static str, Vec<u8>)> {
    match idx {
        0 => {
            // 23 bytes: header, count 1, empty name, Array, len 0xFFFFFFFF, dims 0
            let mut b = header(1);
            raw_str(&mut b, b"");
            b.push(28);
            b.extend_from_slice(&0xFFFF_FFFFu32.to_le_bytes());
            b.extend_from_slice(&0u32.to_le_bytes());
            Some(("alloc-elements", b))
        }
        1 => {
            let mut b = header(1);
            raw_str(&mut b, b"");
            b.push(28);
            b.extend_from_slice(&0u32.to_le_bytes());
            b.extend_from_slice(&0xFFFF_FFFFu32.to_le_bytes());
            Some(("alloc-dims", b))
        }
        2 => {
            // deeply nested arrays (the stack-overflow witness), not terminated
            let mut b = header(1);
            raw_str(&mut b, b"deep");
            for _ in 0..deep_levels {
                b.push(28);
                b.extend_from_slice(&1u32.to_le_bytes());
                b.extend_from_slice(&0u32.to_le_bytes());
            }
            Some(("deep-arrays", b))
        }
        3 => {
            let mut b = header(1);
            raw_str(&mut b, b"deep");
            for _ in 0..deep_levels / 2 {
                b.push(29);
                raw_str(&mut b, b"");
                b.extend_from_slice(&1u32.to_le_bytes());
                raw_str(&mut b, b"");
            }
            Some(("deep-structs", b))
        }
        4 => Some(("empty-file", vec![])),
        5 => Some(("header-only", header(0))),
        6 => Some(("golden-v1", crate::util::unhex(GOLDEN_V1_HEX))),
        _ => None,
    }
}
const CORPUS_LEN: u64 = 8;

/// A hand-assembled STRN v1 image with one value of each of the 31 tags (literal tag numbers,
/// independent of the encoder under test) and what `load` must return for it: files written by
/// earlier builds stay readable as long as RETAIN_VERSION is 1.
const GOLDEN_V1_HEX: &str = "5354524e01001f000000030000007630310101030000007630320280030000007630330334120300000076303404efcdab89030000007630350501000000000000800300000076303606ff0300000076303707feff0300000076303808feffffff0300000076303909feffffffffffffff030000007631300a0100c07f030000007631310b0000000000000080030000007631320ca5030000007631330d5aa5030000007631340eefbeadde030000007631350fefcdab8967452301030000007631361000ffffffffffffff03000000763137110e94357700000000030000007631381202ffffffffffffff03000000763139131c286bee00000000030000007632301404ffffffffffffff03000000763231152abca06501000000030000007632321606ffffffffffffff03000000763233173850d6dc0100000003000000763234180600000068c3a96c6c6f030000007632351907000000e282acf09f9880030000007632361ae9030000007632371bac20030000007632381c0200000001000000ffffffffffffffff0100000000000000030100030200030000007632391d05000000504f494e54020000000100000078040700000001000000791f030000007633301e05000000434f4c4f5203000000524544feffffffffffffff030000007633311f";
const GOLDEN_V1_TEXT: &str = "ok 31 763031 bool 1 763032 sint 128 763033 int 4660 763034 dint 2309737967 763035 lint 9223372036854775809 763036 usint 255 763037 uint 65534 763038 udint 4294967294 763039 ulint 18446744073709551614 763130 real 2143289345 763131 lreal 9223372036854775808 763132 byte 165 763133 word 42330 763134 dword 3735928559 763135 lword 81985529216486895 763136 time 18446744073709551360 763137 ltime 2000000014 763138 date 18446744073709551362 763139 ldate 4000000028 763230 tod 18446744073709551364 763231 ltod 6000000042 763232 dt 18446744073709551366 763233 ldt 8000000056 763234 string 68c3a96c6c6f 763235 wstring e282acf09f9880 763236 char 233 763237 wchar 8364 763238 array 1 18446744073709551615 1 2 int 1 int 2 763239 struct 504f494e54 2 78 dint 7 79 null 763330 enum 434f4c4f52 524544 18446744073709551614 763331 null";

// ------------------------------------------------------------------------------------------------
// child: decode arbitrary bytes under RLIMIT_AS
// ------------------------------------------------------------------------------------------------

fn proc_status_kb(key: &str) -> u64 {
    let s = std::fs::read_to_string("/proc/self/status").unwrap_or_default();
    for line in s.lines() {
        if let Some(rest) = line.strip_prefix(key) {
            return rest
                .trim_start_matches(':')
                .trim()
                .trim_end_matches("kB")
                .trim()
                .parse()
                .unwrap_or(0);
        }
    }
    0
}

const AS_MARGIN: u64 = 384 << 20;

fn dec_child(args: &Args) -> i32 {
    let dir = PathBuf::from(args.extra.get("dir").expect("--dir"));
    let path = dir.join("dec.retain");
    std::panic::set_hook(Box::new(|_| {}));
    let vm_now = proc_status_kb("VmSize") * 1024;
    let lim = libc::rlimit {
        rlim_cur: vm_now + AS_MARGIN,
        rlim_max: vm_now + AS_MARGIN,
    };
    unsafe {
        libc::setrlimit(libc::RLIMIT_AS, &lim);
    }
    let stdin = std::io::stdin();
    let stdout = std::io::stdout();
    let mut line = String::new();
    loop {
        line.clear();
        if stdin.lock().read_line(&mut line).unwrap_or(0) == 0 {
            return 0;
        }
        let bytes = crate::util::unhex(line.trim());
        std::fs::write(&path, &bytes).expect("write dec file");
        let before = proc_status_kb("VmPeak");
        let store = FileRetainStore::new(path.clone());
        let r = std::panic::catch_unwind(|| store.load());
        let after = proc_status_kb("VmPeak");
        let ans = match &r {
            Ok(r) => show_load(r),
            Err(_) => "panic".to_string(),
        };
        drop(r);
        let mut o = stdout.lock();
        let _ = writeln!(o, "{} {}", after.saturating_sub(before), ans);
        let _ = o.flush();
    }
}

struct DecChild {
    child: Child,
    stdin: ChildStdin,
    stdout: BufReader<ChildStdout>,
}

struct Decoder {
    dir: PathBuf,
    cur: Option<DecChild>,
    pub spawned: u64,
}

impl Decoder {
    fn new(dir: &Path) -> Self {
        Decoder {
            dir: dir.to_path_buf(),
            cur: None,
            spawned: 0,
        }
    }
    fn spawn(&mut self) {
        let exe = std::env::current_exe().expect("current_exe");
        let mut child = Command::new(exe)
            .args(["c10", "--mode", "decchild", "--dir"])
            .arg(&self.dir)
            .stdin(Stdio::piped())
            .stdout(Stdio::piped())
            .stderr(Stdio::null())
            .spawn()
            .expect("spawn decode child");
        let stdin = child.stdin.take().unwrap();
        let stdout = BufReader::new(child.stdout.take().unwrap());
        self.cur = Some(DecChild {
            child,
            stdin,
            stdout,
        });
        self.spawned += 1;
    }
    fn kill(&mut self) {
        if let Some(mut c) = self.cur.take() {
            drop(c.stdin);
            let _ = c.child.kill();
            let _ = c.child.wait();
        }
    }
    /// (answer, growth of the child's peak address space in kB)
    fn decode(&mut self, bytes: &[u8]) -> (String, u64) {
        if self.cur.is_none() {
            self.spawn();
        }
        let c = self.cur.as_mut().unwrap();
        let ok = writeln!(c.stdin, "{}", hex(bytes)).is_ok() && c.stdin.flush().is_ok();
        let mut line = String::new();
        let n = if ok { c.stdout.read_line(&mut line).unwrap_or(0) } else { 0 };
        if n == 0 {
            // the child died: abort (allocation failure), stack overflow, ...
            let mut c = self.cur.take().unwrap();
            drop(c.stdin);
            let st = c.child.wait().ok();
            let sig = st.and_then(|s| s.signal()).unwrap_or(0);
            return (format!("abort signal={sig}"), 0);
        }
        let line = line.trim_end();
        let (kb, ans) = line.split_once(' ').unwrap_or(("0", line));
        let kb = kb.parse().unwrap_or(0);
        // a large input legitimately raises the peak: start the next input from a fresh child so
        // that the growth figure stays meaningful
        if bytes.len() > (32 << 10) {
            self.kill();
        }
        (ans.to_string(), kb)
    }
}

// ------------------------------------------------------------------------------------------------
// child: store(new) (run under strace by the parent)
// ------------------------------------------------------------------------------------------------

struct CrashCase {
    stale: Option<Vec<u8>>,
    old: Option<RetainSnapshot>,
    new: RetainSnapshot,
}

fn gen_encodable_snapshot(rng: &mut Rng) -> RetainSnapshot {
    // the crash experiment wants snapshots that `store` accepts (most generated ones are)
    for _ in 0..50 {
        let s = gen_snapshot(rng);
        let text = show_snapshot(&s);
        if !text.contains("reference") && !text.contains("instance") && !s.values().is_empty() {
            let deep = s.values().values().any(|v| depth_of(v) > 60);
            if !deep {
                return s;
            }
        }
    }
    let mut s = RetainSnapshot::default();
    s.insert("x", Value::Int(1));
    s
}

fn depth_of(v: &Value) -> usize {
    match v {
        Value::Array(a) => 1 + a.elements.iter().map(depth_of).max().unwrap_or(0),
        Value::Struct(s) => 1 + s.fields.values().map(depth_of).max().unwrap_or(0),
        _ => 0,
    }
}

fn gen_crash_case(seed: u64, n: u64) -> CrashCase {
    let mut rng = Rng::for_case(seed, n);
    let old = if rng.chance(1, 6) {
        None
    } else {
        Some(gen_encodable_snapshot(&mut rng))
    };
    let new = if rng.chance(1, 12) {
        // a snapshot `store` rejects: nothing may touch the disk
        let mut s = gen_encodable_snapshot(&mut rng);
        s.insert("bad", Value::Reference(None));
        s
    } else if rng.chance(1, 10) && old.is_some() {
        old.clone().unwrap()
    } else {
        gen_encodable_snapshot(&mut rng)
    };
    let stale = match rng.below(4) {
        0 => Some(vec![]),
        1 => {
            let n = 1 + rng.below(300) as usize;
            Some((0..n).map(|_| rng.next() as u8).collect())
        }
        _ => None,
    };
    CrashCase { stale, old, new }
}

fn store_child(args: &Args) -> i32 {
    let path = PathBuf::from(args.extra.get("path").expect("--path"));
    let n = args.only.expect("--only");
    let case = gen_crash_case(args.seed, n);
    if let Some(k) = args.extra.get("fsize").and_then(|v| v.parse::<u64>().ok()) {
        // a REAL partial write: the kernel completes the first `k` bytes of the write and kills the
        // process with SIGXFSZ when `write_all` asks for the rest
        let lim = libc::rlimit {
            rlim_cur: k,
            rlim_max: k,
        };
        unsafe {
            libc::setrlimit(libc::RLIMIT_FSIZE, &lim);
        }
    }
    let store = FileRetainStore::new(path);
    match store.store(&case.new) {
        Ok(()) => 0,
        Err(_) => 3,
    }
}

const TRACE_SET: &str = "trace=open,openat,openat2,creat,write,pwrite64,writev,pwritev,pwritev2,fsync,fdatasync,\
sync_file_range,close,rename,renameat,renameat2,unlink,unlinkat,truncate,ftruncate,link,linkat,symlink,symlinkat,\
sendfile,copy_file_range,fallocate";

#[derive(Clone, Debug)]
struct TracedOp {
    syscall: String,
    /// index among the traced calls of the same name (1-based), for `when=`
    nth: usize,
    text: String,
}

fn classify_path(s: &str, main: &str, tmp: &str) -> String {
    if s == main {
        "main".into()
    } else if s == tmp {
        "tmp".into()
    } else {
        format!("other({s})")
    }
}

/// Parse `strace -y` output lines of the child into normalised operations.
fn parse_trace(text: &str, main: &str, tmp: &str) -> Vec<TracedOp> {
    let mut ops = Vec::new();
    let mut counts: std::collections::HashMap<String, usize> = Default::default();
    // unfinished/resumed pairs cannot occur: the child is single threaded
    for line in text.lines() {
        let line = line.trim();
        // "<pid> syscall(args) = ret" (with -f and -o the pid is always printed)
        let rest = match line.split_once(' ') {
            Some((pid, rest)) if pid.chars().all(|c| c.is_ascii_digit()) => rest.trim(),
            _ => line,
        };
        if rest.starts_with("+++") || rest.starts_with("---") {
            continue;
        }
        let Some(par) = rest.find('(') else { continue };
        let syscall = rest[..par].to_string();
        let args = &rest[par + 1..];
        let c = counts.entry(syscall.clone()).or_insert(0);
        *c += 1;
        let nth = *c;
        let quoted: Vec<&str> = args.split('"').collect(); // odd indices are quoted strings
        let fd_path = |a: &str| -> String {
            // first "<...>" annotation
            match (a.find('<'), a.find('>')) {
                (Some(i), Some(j)) if i < j => a[i + 1..j].to_string(),
                _ => "?".into(),
            }
        };
        let ret = rest.rsplit_once(" = ").map(|(_, r)| r.trim()).unwrap_or("?");
        let text = match syscall.as_str() {
            "openat" | "open" | "creat" | "openat2" => {
                let p = quoted.get(1).copied().unwrap_or("?");
                let flags = quoted.get(2).copied().unwrap_or("");
                let which = classify_path(p, main, tmp);
                if flags.contains("O_WRONLY") && flags.contains("O_CREAT") && flags.contains("O_TRUNC")
                    && !flags.contains("O_APPEND")
                {
                    format!("create:{which}")
                } else {
                    let f: String = flags
                        .split(',')
                        .nth(1)
                        .unwrap_or("")
                        .trim()
                        .replace("|O_CLOEXEC", "");
                    format!("open:{which}:{f}")
                }
            }
            "write" | "pwrite64" | "writev" | "pwritev" | "pwritev2" => {
                let which = classify_path(&fd_path(args), main, tmp);
                let n = ret.split_whitespace().next().unwrap_or("?");
                format!("{}:{which}:{n}", if syscall == "write" { "write" } else { syscall.as_str() })
            }
            "fsync" => format!("fsync:{}", classify_path(&fd_path(args), main, tmp)),
            "fdatasync" => format!("fdatasync:{}", classify_path(&fd_path(args), main, tmp)),
            "close" => format!("close:{}", classify_path(&fd_path(args), main, tmp)),
            "rename" | "renameat" | "renameat2" => {
                let a = quoted.get(1).copied().unwrap_or("?");
                let b = quoted.get(3).copied().unwrap_or("?");
                format!("rename:{}:{}", classify_path(a, main, tmp), classify_path(b, main, tmp))
            }
            other => {
                let p = quoted.get(1).map(|p| classify_path(p, main, tmp)).unwrap_or_else(|| {
                    classify_path(&fd_path(args), main, tmp)
                });
                format!("{other}:{p}")
            }
        };
        ops.push(TracedOp {
            syscall,
            nth,
            text,
        });
    }
    ops
}

struct CrashRig {
    dir: PathBuf,
    main: PathBuf,
    tmp: PathBuf,
    seed: u64,
}

impl CrashRig {
    fn prepare(&self, case: &CrashCase) {
        let _ = std::fs::remove_file(&self.main);
        let _ = std::fs::remove_file(&self.tmp);
        if let Some(old) = &case.old {
            FileRetainStore::new(self.main.clone())
                .store(old)
                .expect("store(old) in the parent");
        }
        if let Some(st) = &case.stale {
            std::fs::write(&self.tmp, st).expect("write stale tmp");
        }
    }

    /// Run the store child under strace; `inject` = Some((syscall, nth)) kills it before that call.
    fn run_child(&self, n: u64, inject: Option<(&str, usize)>) -> (Option<i32>, Option<i32>, String) {
        let trace = self.dir.join("trace.txt");
        let _ = std::fs::remove_file(&trace);
        let exe = std::env::current_exe().expect("current_exe");
        let mut cmd = Command::new("strace");
        cmd.arg("-f").arg("-y").arg("-o").arg(&trace).arg("-e").arg(TRACE_SET);
        if let Some((sc, nth)) = inject {
            cmd.arg("-e").arg(format!("inject={sc}:signal=KILL:when={nth}"));
        }
        cmd.arg("-P").arg(&self.main).arg("-P").arg(&self.tmp);
        cmd.arg(exe)
            .args(["c10", "--mode", "storechild", "--seed", &self.seed.to_string(), "--only", &n.to_string(), "--path"])
            .arg(&self.main)
            .stdin(Stdio::null())
            .stdout(Stdio::null())
            .stderr(Stdio::null());
        let st = cmd.status().expect("strace must be installed (C10 crash experiment)");
        let text = std::fs::read_to_string(&trace).unwrap_or_default();
        (st.code(), st.signal(), text)
    }

    fn load_class(&self, old_text: &str, new_text: &str) -> String {
        let r = std::panic::catch_unwind(|| FileRetainStore::new(self.main.clone()).load());
        match r {
            Err(_) => "panic".into(),
            Ok(r) => {
                let t = show_load(&r);
                if t == new_text {
                    "new".into()
                } else if t == old_text {
                    "old".into()
                } else if let Err(e) = &r {
                    format!("err:{}", err_class(e))
                } else {
                    "other".into()
                }
            }
        }
    }
}

// ------------------------------------------------------------------------------------------------
// RetainManager::save_snapshot sequences (change detection)
// ------------------------------------------------------------------------------------------------

fn gen_floaty(rng: &mut Rng) -> Value {
    match rng.below(4) {
        0 => Value::Real(f32::from_bits(*rng.pick(F32S))),
        1 => Value::LReal(f64::from_bits(*rng.pick(F64S))),
        2 => Value::Array(ArrayValue {
            elements: (0..3).map(|_| Value::Real(f32::from_bits(*rng.pick(F32S)))).collect(),
            dimensions: vec![(0, 2)],
        }),
        _ => {
            let mut fields = IndexMap::new();
            fields.insert(SmolStr::new("gain"), Value::LReal(f64::from_bits(*rng.pick(F64S))));
            fields.insert(SmolStr::new("n"), Value::Int(rng.below(4) as i16));
            Value::Struct(StructValue {
                type_name: SmolStr::new("PID"),
                fields,
            })
        }
    }
}

/// What a PLC cycle may do to a retained value between two saves.
fn evolve(rng: &mut Rng, v: &Value) -> Value {
    match v {
        Value::Real(x) => {
            let b = x.to_bits();
            if b & 0x7FFF_FFFF == 0 && rng.bool() {
                Value::Real(f32::from_bits(b ^ 0x8000_0000)) // the sign of zero flips
            } else {
                Value::Real(f32::from_bits(*rng.pick(F32S)))
            }
        }
        Value::LReal(x) => {
            let b = x.to_bits();
            if b & 0x7FFF_FFFF_FFFF_FFFF == 0 && rng.bool() {
                Value::LReal(f64::from_bits(b ^ 0x8000_0000_0000_0000))
            } else {
                Value::LReal(f64::from_bits(*rng.pick(F64S)))
            }
        }
        Value::Array(a) => Value::Array(ArrayValue {
            elements: a
                .elements
                .iter()
                .map(|e| if rng.bool() { evolve(rng, e) } else { e.clone() })
                .collect(),
            dimensions: a.dimensions.clone(),
        }),
        Value::Struct(st) => Value::Struct(StructValue {
            type_name: st.type_name.clone(),
            fields: st
                .fields
                .iter()
                .map(|(k, f)| (k.clone(), if rng.bool() { evolve(rng, f) } else { f.clone() }))
                .collect(),
        }),
        Value::Int(x) => Value::Int(x.wrapping_add(1)),
        Value::Bool(b) => Value::Bool(!b),
        other => {
            if rng.chance(1, 3) {
                gen_value(rng, 1)
            } else {
                other.clone()
            }
        }
    }
}

/// Flip the sign of some floating-point zeros and change nothing else.
fn flip_zeros(rng: &mut Rng, v: &Value) -> Value {
    match v {
        Value::Real(x) if x.to_bits() & 0x7FFF_FFFF == 0 && rng.bool() => {
            Value::Real(f32::from_bits(x.to_bits() ^ 0x8000_0000))
        }
        Value::LReal(x) if x.to_bits() & 0x7FFF_FFFF_FFFF_FFFF == 0 && rng.bool() => {
            Value::LReal(f64::from_bits(x.to_bits() ^ 0x8000_0000_0000_0000))
        }
        Value::Array(a) => Value::Array(ArrayValue {
            elements: a.elements.iter().map(|e| flip_zeros(rng, e)).collect(),
            dimensions: a.dimensions.clone(),
        }),
        Value::Struct(st) => Value::Struct(StructValue {
            type_name: st.type_name.clone(),
            fields: st.fields.iter().map(|(k, f)| (k.clone(), flip_zeros(rng, f))).collect(),
        }),
        other => other.clone(),
    }
}

fn gen_mgr_seq(rng: &mut Rng) -> Vec<RetainSnapshot> {
    let n = 1 + rng.below(4) as usize;
    let mut cur: Vec<(String, Value)> = (0..n)
        .map(|i| {
            let v = if rng.chance(3, 5) { gen_floaty(rng) } else { gen_value(rng, 2) };
            (format!("g{i}"), v)
        })
        .collect();
    let steps = 2 + rng.below(4) as usize;
    let bad_from = rng.chance(1, 6).then(|| rng.below(steps as u64) as usize);
    let mut seq = Vec::new();
    for step in 0..steps {
        if step > 0 && step + 1 == steps && rng.chance(1, 3) {
            for (_, v) in cur.iter_mut() {
                *v = flip_zeros(rng, v);
            }
        } else if step > 0 && !rng.chance(1, 5) {
            for (_, v) in cur.iter_mut() {
                if rng.chance(1, 2) {
                    *v = evolve(rng, v);
                }
            }
        }
        let mut s = RetainSnapshot::default();
        for (k, v) in &cur {
            s.insert(k.as_str(), v.clone());
        }
        if let Some(j) = bad_from {
            // an unretainable global appears for two consecutive saves (both must fail)
            if step == j || step == j + 1 {
                s.insert("bad", Value::Reference(None));
            }
        }
        seq.push(s);
    }
    seq
}

fn negzero_witness() -> Vec<RetainSnapshot> {
    let mut s1 = RetainSnapshot::default();
    s1.insert("x", Value::Real(0.0));
    let mut s2 = RetainSnapshot::default();
    s2.insert("x", Value::Real(-0.0));
    vec![s1, s2]
}

fn do_mgr(seq: &[RetainSnapshot], path: &Path, out: &mut Out) {
    use trust_runtime::retain::RetainManager;
    let mut line = format!("mgr {}", seq.len());
    for s in seq {
        line.push(' ');
        line.push_str(&show_snapshot(s));
    }
    out.line(line);
    let _ = std::fs::remove_file(path);
    let mut mgr = RetainManager::default();
    mgr.configure(
        Some(Box::new(FileRetainStore::new(path.to_path_buf()))),
        Some(Duration::from_millis(0)),
        Duration::ZERO,
    );
    let mut res = Vec::new();
    let mut last_ok = "ok 0".to_string();
    for (i, s) in seq.iter().enumerate() {
        mgr.mark_dirty();
        let now = Duration::from_millis(i as i64 + 1);
        let r = std::panic::catch_unwind(std::panic::AssertUnwindSafe(|| mgr.save_snapshot(s.clone(), now)));
        res.push(match r {
            Err(_) => "panic".to_string(),
            Ok(Ok(())) => {
                last_ok = format!("ok {}", show_snapshot(s));
                "ok".to_string()
            }
            Ok(Err(e)) => format!("err:{}", err_class(&e)),
        });
    }
    // the next process: a fresh store on the same path
    let l = std::panic::catch_unwind(|| FileRetainStore::new(path.to_path_buf()).load());
    let l = match l {
        Err(_) => "panic".to_string(),
        Ok(r) => show_load(&r),
    };
    out.line(format!("impl res={} load={}", res.join(","), l));
    out.line(format!("# mgr last={last_ok}"));
    out.count("mgr:sequences");
    out.add("mgr:saves", seq.len() as u64);
    if l != last_ok {
        out.count("mgr:load-differs-from-last-saved");
    }
}

// ------------------------------------------------------------------------------------------------
// main
// ------------------------------------------------------------------------------------------------

fn work_dir() -> PathBuf {
    let base = if Path::new("/dev/shm").is_dir() {
        PathBuf::from("/dev/shm")
    } else {
        std::env::temp_dir()
    };
    let d = base.join(format!("vharness-c10-{}", std::process::id()));
    std::fs::create_dir_all(&d).expect("work dir");
    d
}

fn do_rt(s: &RetainSnapshot, path: &Path, out: &mut Out) {
    out.line(format!("rt {}", show_snapshot(s)));
    let _ = std::fs::remove_file(path);
    let store = FileRetainStore::new(path.to_path_buf());
    let r = std::panic::catch_unwind(|| store.store(s));
    let ans = match r {
        Err(_) => "panic".to_string(),
        Ok(Err(e)) => {
            out.count(&format!("rt:err:{}", err_class(&e)));
            let exists = path.exists();
            format!("enc=err:{} load={}", err_class(&e), if exists { "file-left-behind" } else { "-" })
        }
        Ok(Ok(())) => {
            let bytes = std::fs::read(path).unwrap_or_default();
            out.add("rt:bytes", bytes.len() as u64);
            let l = std::panic::catch_unwind(|| store.load());
            let l = match l {
                Err(_) => "panic".to_string(),
                Ok(r) => show_load(&r),
            };
            out.count("rt:ok");
            format!("enc={} load={}", hex(&bytes), l)
        }
    };
    out.line(format!("impl {ans}"));
}

fn do_dec(bytes: &[u8], dec: &mut Decoder, out: &mut Out) -> bool {
    out.line(format!("dec {}", hex(bytes)));
    let (ans, kb) = dec.decode(bytes);
    let class: String = ans.split_whitespace().take(2).collect::<Vec<_>>().join(":");
    let key = if ans.starts_with("ok") { "dec:ok".to_string() } else { format!("dec:{class}") };
    out.count(&key);
    out.line(format!("impl {ans}"));
    out.line(format!("# vm grow_kb={kb} len={}", bytes.len()));
    // non-trivial: got past the header and the snapshot claims at least one entry
    bytes.len() >= 10 && &bytes[..4] == b"STRN" && bytes[4] == 1 && bytes[5] == 0 && get_u32(bytes, 6) > 0
}

fn do_crash(n: u64, rig: &CrashRig, out: &mut Out) -> Result<(), String> {
    let case = gen_crash_case(rig.seed, n);
    let old_line = match &case.old {
        None => "none".to_string(),
        Some(s) => format!("some {}", show_snapshot(s)),
    };
    let stale_line = match &case.stale {
        None => "none".to_string(),
        Some(b) => hex(b),
    };
    let new_text_snapshot = show_snapshot(&case.new);

    // reference loads
    rig.prepare(&case);
    let old_text = show_load(&FileRetainStore::new(rig.main.clone()).load());
    let new_text = format!("ok {new_text_snapshot}");

    // 1. baseline: the traced system-call sequence on the retain path
    let (code, sig, trace) = rig.run_child(n, None);
    if sig.is_some() || !(code == Some(0) || code == Some(3)) {
        return Err(format!("store child failed under strace: code={code:?} signal={sig:?}"));
    }
    let main_s = rig.main.to_string_lossy().to_string();
    let tmp_s = rig.tmp.to_string_lossy().to_string();
    let ops = parse_trace(&trace, &main_s, &tmp_s);
    let final_class = rig.load_class(&old_text, &new_text);
    let new_bytes = if code == Some(0) {
        std::fs::read(&rig.main).unwrap_or_default()
    } else {
        vec![]
    };
    if code == Some(3) {
        out.count("crash:store-rejected");
    }

    // 2. kill before every traced call
    let mut kills = Vec::new();
    for op in &ops {
        rig.prepare(&case);
        let (code, sig, tr) = rig.run_child(n, Some((op.syscall.as_str(), op.nth)));
        if sig != Some(9) && code != Some(137) {
            return Err(format!(
                "injection {}:{} did not kill the child (code={code:?} signal={sig:?})\n{tr}",
                op.syscall, op.nth
            ));
        }
        kills.push(rig.load_class(&old_text, &new_text));
        out.count("crash:killpoints");
    }
    kills.push(final_class);

    // merge consecutive writes to the same file (write_all may split); their inner kill points
    // are partial-write states and are reported under `mid`
    let mut texts: Vec<String> = Vec::new();
    let mut kept_kills: Vec<String> = Vec::new();
    let mut mid: Vec<String> = Vec::new();
    for (i, op) in ops.iter().enumerate() {
        let merged = if let (Some(prev), true) = (texts.last_mut(), op.text.starts_with("write:")) {
            let p: Vec<&str> = prev.split(':').collect();
            let q: Vec<&str> = op.text.split(':').collect();
            if p.len() == 3 && q.len() == 3 && p[0] == "write" && p[1] == q[1] {
                let total = p[2].parse::<u64>().unwrap_or(0) + q[2].parse::<u64>().unwrap_or(0);
                *prev = format!("write:{}:{}", p[1], total);
                true
            } else {
                false
            }
        } else {
            false
        };
        if merged {
            mid.push(kills[i].clone());
        } else {
            texts.push(op.text.clone());
            kept_kills.push(kills[i].clone());
        }
    }
    kept_kills.push(kills[ops.len()].clone());

    // 3. partial writes: the child runs with RLIMIT_FSIZE = k, so the kernel cuts the write after k
    //    bytes and kills the process (SIGXFSZ) when write_all retries; the temp file then holds
    //    exactly the first k bytes of the new image
    let mut ks: Vec<usize> = Vec::new();
    let mut partial = Vec::new();
    if !new_bytes.is_empty() {
        let mut rng = Rng::for_case(rig.seed ^ 0x5151, n);
        let l = new_bytes.len();
        ks = vec![0, 1, l / 2, l - 1];
        for _ in 0..3 {
            ks.push(rng.below(l as u64) as usize);
        }
        ks.sort();
        ks.dedup();
        for &k in &ks {
            rig.prepare(&case);
            let exe = std::env::current_exe().expect("current_exe");
            let st = Command::new(exe)
                .args(["c10", "--mode", "storechild", "--seed", &rig.seed.to_string(), "--only", &n.to_string()])
                .arg("--fsize")
                .arg(k.to_string())
                .arg("--path")
                .arg(&rig.main)
                .stdin(Stdio::null())
                .stdout(Stdio::null())
                .stderr(Stdio::null())
                .status()
                .expect("spawn store child");
            if st.signal() != Some(libc::SIGXFSZ) {
                return Err(format!("RLIMIT_FSIZE={k} did not kill the store child: {st:?}"));
            }
            let on_disk = std::fs::read(&rig.tmp).ok();
            let what = match &on_disk {
                Some(b) if b[..] == new_bytes[..k] => rig.load_class(&old_text, &new_text),
                Some(b) => format!("tmp-holds-{}-bytes-not-the-{k}-byte-prefix", b.len()),
                None => "tmp-missing".to_string(),
            };
            partial.push(what);
            out.count("crash:partial-writes");
        }
    }
    let mid_all_old = mid.iter().all(|c| c == "old");
    let list = |v: &[String]| if v.is_empty() { "-".to_string() } else { v.join(",") };
    out.line(format!(
        "crash {} {} {} {}",
        if ks.is_empty() { "-".to_string() } else { ks.iter().map(|k| k.to_string()).collect::<Vec<_>>().join(",") },
        stale_line,
        old_line,
        new_text_snapshot
    ));
    out.line(format!(
        "impl ops={} kills={} partial={} mid={}",
        list(&texts),
        list(&kept_kills),
        list(&partial),
        if mid_all_old { "-".to_string() } else { list(&mid) }
    ));
    out.count("crash:cases");
    Ok(())
}

/// Developer probe (not part of the check): `RetainManager::save_snapshot` on `+0.0` then `-0.0`
/// (`PartialEq` finds them equal; the change detection must not, finding C10-negzero-not-saved).
fn probe_manager() -> i32 {
    use trust_runtime::retain::RetainManager;
    let dir = work_dir();
    let path = dir.join("probe.retain");
    let mut mgr = RetainManager::default();
    mgr.configure(
        Some(Box::new(FileRetainStore::new(path.clone()))),
        Some(Duration::from_millis(0)),
        Duration::ZERO,
    );
    let mut s1 = RetainSnapshot::default();
    s1.insert("x", Value::Real(0.0));
    let mut s2 = RetainSnapshot::default();
    s2.insert("x", Value::Real(-0.0));
    mgr.mark_dirty();
    println!("save s1: {:?}", mgr.save_snapshot(s1.clone(), Duration::from_millis(1)));
    mgr.mark_dirty();
    println!("should_save: {}", mgr.should_save(Duration::from_millis(2)));
    println!("save s2: {:?}", mgr.save_snapshot(s2.clone(), Duration::from_millis(2)));
    let l = mgr.load();
    println!("s1   = {}", show_snapshot(&s1));
    println!("s2   = {}", show_snapshot(&s2));
    println!("load = {}", show_load(&l));
    let _ = std::fs::remove_dir_all(&dir);
    0
}

/// Developer probe (not part of the check; an observation for C09): the scheduler handles a restart
/// request with `restart(mode)` followed by `load_retain_store()` and no save in between
/// (`TestHarness::restart_with_retain` is the same sequence), so a warm restart replaces the current
/// RETAIN values by the last periodically saved ones.
fn probe_restart() -> i32 {
    use trust_runtime::harness::TestHarness;
    use trust_runtime::RestartMode;
    let src = r#"
CONFIGURATION Conf
VAR_GLOBAL RETAIN
    Count : INT := 0;
END_VAR
PROGRAM P1 : Main;
END_CONFIGURATION

PROGRAM Main
Count := Count + 1;
END_PROGRAM
"#;
    let dir = work_dir();
    let path = dir.join("probe.retain");
    let mut h = TestHarness::from_source(src).expect("compile");
    h.runtime_mut().set_retain_store(
        Some(Box::new(FileRetainStore::new(path.clone()))),
        Some(Duration::from_millis(60_000)),
    );
    h.cycle();
    println!("after 1 cycle           : Count = {:?}", h.get_output("Count"));
    println!("periodic save           : {:?}", h.runtime_mut().save_retain_store());
    h.cycle();
    h.cycle();
    h.cycle();
    println!("after 4 cycles          : Count = {:?} (save interval 60 s not elapsed, file still holds 1)", h.get_output("Count"));
    println!("restart_with_retain(Warm): {:?}", h.restart_with_retain(RestartMode::Warm));
    println!("after warm restart      : Count = {:?} (a warm restart keeps RETAIN values: expected 4)", h.get_output("Count"));
    let _ = std::fs::remove_dir_all(&dir);
    0
}

pub fn run(args: &Args) -> i32 {
    match args.extra.get("mode").map(|s| s.as_str()) {
        Some("decchild") => return dec_child(args),
        Some("storechild") => return store_child(args),
        Some("probe-manager") => return probe_manager(),
        Some("probe-restart") => return probe_restart(),
        _ => {}
    }
    let crash_cases = args.extra_usize("crash", 4) as u64;
    let deep_levels = args.extra_usize("deep", 200_000);
    let dir = work_dir();
    let path = dir.join("retain.bin");
    let rig = CrashRig {
        dir: dir.clone(),
        main: dir.join("crash.retain"),
        tmp: dir.join("crash.retain.tmp"),
        seed: args.seed,
    };
    let mut dec = Decoder::new(&dir);
    let mut out = Out::new();
    let mut rc = 0;
    for n in args.case_numbers() {
        let mut rng = Rng::for_case(args.seed, n);
        out.line(format!("case {n}"));
        if n == CORPUS_LEN - 1 {
            // witness of the repaired finding C10-negzero-not-saved: +0.0 then -0.0 must load -0.0
            out.count("corpus:mgr-negzero");
            do_mgr(&negzero_witness(), &path, &mut out);
            out.line("tag nontrivial corpus");
        } else if n < CORPUS_LEN {
            let (name, bytes) = corpus(n, deep_levels).unwrap();
            out.count(&format!("corpus:{name}"));
            do_dec(&bytes, &mut dec, &mut out);
            if name == "golden-v1" {
                out.line(format!("# golden {GOLDEN_V1_TEXT}"));
            }
            out.line("tag nontrivial corpus");
        } else if n < CORPUS_LEN + crash_cases {
            match do_crash(n, &rig, &mut out) {
                Ok(()) => out.line("tag nontrivial crash"),
                Err(e) => {
                    eprintln!("c10: crash experiment of case {n} could not be run: {e}");
                    rc = 4;
                }
            }
        } else if rng.chance(1, 8) {
            let seq = gen_mgr_seq(&mut rng);
            do_mgr(&seq, &path, &mut out);
            out.line("tag nontrivial mgr");
        } else if rng.chance(2, 5) {
            let k = 1 + rng.below(2);
            let mut nt = false;
            for _ in 0..k {
                let s = gen_snapshot(&mut rng);
                nt |= has_container(&s);
                do_rt(&s, &path, &mut out);
            }
            out.line(if nt { "tag nontrivial rt" } else { "tag rt" });
        } else {
            let k = 1 + rng.below(4);
            let mut nt = false;
            for _ in 0..k {
                let bytes = if rng.chance(1, 3) {
                    handmade(&mut rng, &mut out)
                } else {
                    // a valid image produced by the real encoder, then mutated
                    let s = gen_snapshot(&mut rng);
                    let _ = std::fs::remove_file(&path);
                    match FileRetainStore::new(path.clone()).store(&s) {
                        Ok(()) => {
                            let mut b = std::fs::read(&path).unwrap_or_default();
                            let marks = marks_of(&s);
                            mutate(&mut rng, &mut b, &marks, &mut out);
                            b
                        }
                        Err(_) => handmade(&mut rng, &mut out),
                    }
                };
                nt |= do_dec(&bytes, &mut dec, &mut out);
            }
            out.line(if nt { "tag nontrivial dec" } else { "tag dec" });
        }
        out.line("end");
    }
    dec.kill();
    out.add("dec:children-spawned", dec.spawned);
    let _ = std::fs::remove_dir_all(&dir);
    out.finish(&args.out);
    rc
}
