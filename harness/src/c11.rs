//! C11 — STBC container.  Generates containers (compiler-emitted from generated ST projects,
//! hand-built through the pub structs, structure-aware mutations of both with recomputed CRC-32,
//! random bytes, the regression corpus of the repaired defects) and runs each one through the REAL
//! `BytecodeModule::{decode, encode, validate, metadata}` and `Runtime::apply_bytecode_bytes` in a
//! child process (`c11worker`: address-space limit, counting allocator; abort / stack overflow /
//! panic / timeout are observables).  Output formats: see `lean/TrustVerif/Drv/C11.lean`.

#[path = "c11/fbref.rs"]
mod fbref;
#[path = "c11/gen_st.rs"]
mod gen_st;
#[path = "c11/modgen.rs"]
mod modgen;

use std::io::{BufRead, BufReader, Write};
use std::process::{Child, ChildStdin, Command, Stdio};
use std::sync::mpsc::{channel, Receiver, RecvTimeoutError};
use std::time::Duration;

use crate::rng::Rng;
use crate::util::{hex, Out};
use crate::Args;
use modgen::*;
use trust_runtime::bytecode::*;
use trust_runtime::harness::TestHarness;

// ---------------------------------------------------------------------------------------------
// worker process
// ---------------------------------------------------------------------------------------------

struct Worker {
    child: Child,
    stdin: ChildStdin,
    rx: Receiver<String>,
}

fn worker_path() -> std::path::PathBuf {
    let exe = std::env::current_exe().expect("current exe");
    exe.parent().expect("exe dir").join("c11worker")
}

impl Worker {
    fn spawn(limit_mb: usize) -> Worker {
        let mut child = Command::new(worker_path())
            .arg(limit_mb.to_string())
            .stdin(Stdio::piped())
            .stdout(Stdio::piped())
            .stderr(Stdio::null())
            .spawn()
            .expect("spawn c11worker (built together with vharness)");
        let stdin = child.stdin.take().expect("stdin");
        let stdout = child.stdout.take().expect("stdout");
        let (tx, rx) = channel();
        std::thread::spawn(move || {
            for line in BufReader::new(stdout).lines() {
                let Ok(line) = line else { break };
                if tx.send(line).is_err() {
                    break;
                }
            }
        });
        Worker { child, stdin, rx }
    }
}

#[derive(Default, Debug)]
struct JobResult {
    decode: String,
    validate: String,
    metadata: String,
    apply: String,
    mem: String,
    rt: String,
    /// definitions of the composite values of the runtime view (`K` lines of the worker)
    cv: Vec<String>,
    died: bool,
}

struct Pool {
    worker: Option<Worker>,
    limit_mb: usize,
    timeout: Duration,
    restarts: u64,
}

impl Pool {
    fn run(&mut self, source: &str, resource: &str, bytes: &[u8]) -> JobResult {
        if self.worker.is_none() {
            self.worker = Some(Worker::spawn(self.limit_mb));
        }
        let w = self.worker.as_mut().unwrap();
        let line = format!("job {} {} {}\n", hex(source.as_bytes()), resource, hex(bytes));
        let mut res = JobResult::default();
        let mut stage = String::from("start");
        let mut death: Option<String> = None;
        if w.stdin.write_all(line.as_bytes()).and_then(|_| w.stdin.flush()).is_err() {
            death = Some("abort:pipe".into());
        }
        while death.is_none() {
            match w.rx.recv_timeout(self.timeout) {
                Ok(l) => {
                    let (k, rest) = l.split_at(1.min(l.len()));
                    let rest = rest.trim_start().to_string();
                    match k {
                        "S" => stage = rest,
                        "D" => res.decode = rest,
                        "V" => res.validate = rest,
                        "M" => res.metadata = rest,
                        "A" => res.apply = rest,
                        "X" => res.mem = rest,
                        "R" => res.rt = rest,
                        "K" => res.cv.push(rest),
                        "E" => break,
                        _ => {}
                    }
                }
                Err(RecvTimeoutError::Timeout) => {
                    let _ = w.child.kill();
                    let _ = w.child.wait();
                    death = Some("timeout".into());
                }
                Err(RecvTimeoutError::Disconnected) => {
                    let status = w.child.wait().ok();
                    use std::os::unix::process::ExitStatusExt;
                    let sig = status.and_then(|s| s.signal());
                    death = Some(match sig {
                        Some(s) => format!("abort:signal{s}"),
                        None => format!("abort:exit{}", status.and_then(|s| s.code()).unwrap_or(-1)),
                    });
                }
            }
        }
        if let Some(d) = death {
            res.died = true;
            self.worker = None;
            self.restarts += 1;
            // the stage in flight gets the cause of death, later stages never ran
            let mut hit = false;
            for (name, slot) in [
                ("decode", &mut res.decode),
                ("validate", &mut res.validate),
                ("metadata", &mut res.metadata),
                ("apply", &mut res.apply),
                ("mem", &mut res.mem),
            ] {
                if slot.is_empty() {
                    if hit {
                        *slot = "skipped-after-abort".into();
                    } else {
                        *slot = format!("{d}:in-{}", if stage == "start" { name } else { stage.as_str() });
                        hit = true;
                    }
                }
            }
        }
        res
    }
}

// ---------------------------------------------------------------------------------------------
// cases
// ---------------------------------------------------------------------------------------------

struct CaseSpec {
    kind: &'static str,
    notes: Vec<String>,
    bytes: Vec<u8>,
    /// source of the runtime the container is applied to
    runtime_source: String,
    resource: String,
    /// answer of the in-process compile pipeline for compiler-emitted containers
    emitted: Option<String>,
    /// the encoder's error for a program the front end accepted
    emit_failed: Option<String>,
    /// for containers encoded from a well-formed hand-built module: `decode(encode(m)) == m` (real code)
    built: Option<String>,
    /// witness of an open finding about resources: only measured on the real code (the answer goes into
    /// the case header for checks/c11.py), no operation is compared with the model
    measure_only: bool,
}

fn fnv64(bytes: &[u8]) -> u64 {
    let mut h: u64 = 0xcbf29ce484222325;
    for b in bytes {
        h ^= *b as u64;
        h = h.wrapping_mul(0x100000001b3);
    }
    h
}

/// Instruction starts of a POU body according to the operand widths of the format (independent of
/// the validator: `modgen::instruction_starts`).
fn debug_oracle(m: &BytecodeModule) -> String {
    let Some(SectionData::PouIndex(ix)) = m.section(SectionId::PouIndex) else { return "dbg=1".into() };
    let Some(SectionData::PouBodies(bodies)) = m.section(SectionId::PouBodies) else { return "dbg=1".into() };
    let Some(SectionData::DebugMap(map)) = m.section(SectionId::DebugMap) else { return "dbg=1".into() };
    let mut prev: Option<(u32, u32)> = None;
    for (i, e) in map.entries.iter().enumerate() {
        let Some(pou) = ix.entries.iter().find(|p| p.id == e.pou_id) else {
            return format!("dbg=0:entry{i}:unknown-pou{}", e.pou_id);
        };
        let (start, len) = (pou.code_offset as usize, pou.code_length as usize);
        if start + len > bodies.len() {
            return format!("dbg=0:entry{i}:pou-out-of-bodies");
        }
        let off = e.code_offset as usize;
        if off < start || off >= start + len {
            return format!("dbg=0:entry{i}:pou{}:offset{}-outside-{}..{}", e.pou_id, off, start, start + len);
        }
        let starts = instruction_starts(&bodies[start..start + len]);
        if !starts.contains(&(off - start)) {
            return format!("dbg=0:entry{i}:pou{}:offset{}-not-an-instruction-start", e.pou_id, off);
        }
        if let Some((ppou, poff)) = prev {
            if ppou == e.pou_id && e.code_offset < poff {
                return format!("dbg=0:entry{i}:pou{}:offset{}-after-{}", e.pou_id, off, poff);
            }
        }
        prev = Some((e.pou_id, e.code_offset));
    }
    "dbg=1".into()
}

/// compile -> module -> validate / encode / decode / re-encode, all with the real code
fn emitted_answer(m: &BytecodeModule, bytes: &[u8]) -> String {
    let r = std::panic::catch_unwind(|| {
        let validates = m.validate().is_ok();
        let back = BytecodeModule::decode(bytes);
        let (same, rt, reenc) = match &back {
            Ok(d) => match d.encode() {
                Ok(out) => (
                    out == bytes,
                    *d == *m,
                    format!("{:016x}:{}", fnv64(&out), out.len()),
                ),
                Err(_) => (false, false, "err".into()),
            },
            Err(_) => (false, false, "decode-err".into()),
        };
        let dbg = debug_oracle(m);
        let dbg = if dbg == "dbg=1" { dbg } else { format!("dbg=0 why={}", &dbg[6..]) };
        format!("validates={} reenc={reenc} same={} rt={} {dbg}", validates as u8, same as u8, rt as u8)
    });
    r.unwrap_or_else(|_| "panic".into())
}

fn replace_section(m: &mut BytecodeModule, id: SectionId, payload: Vec<u8>) {
    for s in m.sections.iter_mut() {
        if s.id == id.as_raw() {
            s.data = SectionData::Raw(payload.clone());
        }
    }
}

fn find_count_slot(m: &BytecodeModule, pred: impl Fn(&SectionData) -> bool) -> Option<usize> {
    // index of the first slot (the element count) of the first section matching `pred`
    let mut before = 0usize;
    for s in &m.sections {
        if pred(&s.data) {
            return Some(before);
        }
        let mut one = BytecodeModule::new(m.version);
        one.sections = vec![s.clone()];
        before += count_slots(&mut one);
    }
    None
}

/// The regression corpus: witnesses of the repaired defects and boundary cases, always run.
fn corpus_case(k: u64) -> Option<(Vec<u8>, Vec<String>)> {
    let mut rng = Rng::new(0xC11);
    let mut m = rich_module(&mut rng);
    m.version.minor = 1;
    m.sections.retain(|s| s.id != 0x7777);
    refresh_offsets(&mut m);
    let note = |s: &str| vec![s.to_string()];
    let enc = |m: &BytecodeModule| m.encode().expect("encode corpus module");
    match k {
        0 => Some((enc(&m), note("corpus: the unmutated hand-built module"))),
        1 => {
            // 652eef6: const pool count 0xFFFFFFFF with a valid CRC
            let slot = find_count_slot(&m, |d| matches!(d, SectionData::ConstPool(_)))?;
            let (pos, _, _) = locate_slot(&m, slot)?;
            let mut b = enc(&m);
            b[pos..pos + 4].copy_from_slice(&u32::MAX.to_le_bytes());
            fix_crc(&mut b);
            Some((b, note("corpus: const count 0xFFFFFFFF (652eef6)")))
        }
        2 => {
            // cb0b459: alias cycle + constant of that type
            if let Some(SectionData::TypeTable(t)) = m.section_mut(SectionId::TypeTable) {
                let n = t.entries.len() as u32;
                t.entries.push(TypeEntry { kind: TypeKind::Alias, name_idx: None, data: TypeData::Alias { target_type_id: n + 1 } });
                t.entries.push(TypeEntry { kind: TypeKind::Alias, name_idx: None, data: TypeData::Alias { target_type_id: n } });
                if let Some(SectionData::ConstPool(p)) = m.section_mut(SectionId::ConstPool) {
                    p.entries.push(ConstEntry { type_id: n, payload: vec![] });
                }
            }
            refresh_offsets(&mut m);
            Some((enc(&m), note("corpus: alias cycle in a constant's type (cb0b459)")))
        }
        3 => {
            // 7b23796: jump offset i32::MAX
            if let Some(SectionData::PouBodies(b)) = m.section_mut(SectionId::PouBodies) {
                b[2..6].copy_from_slice(&i32::MAX.to_le_bytes());
            }
            Some((enc(&m), note("corpus: jump offset i32::MAX (7b23796)")))
        }
        4 | 5 | 6 => {
            // ffd16eb: process image sizes
            let v = match k {
                4 => u32::MAX,
                5 => 1 << 24,
                _ => (1 << 24) + 1,
            };
            if let Some(SectionData::ResourceMeta(r)) = m.section_mut(SectionId::ResourceMeta) {
                match k {
                    4 => r.resources[0].inputs_size = v,
                    5 => r.resources[0].outputs_size = v,
                    _ => r.resources[0].memory_size = v,
                }
            }
            Some((enc(&m), vec![format!("corpus: process image size {v} (ffd16eb)")]))
        }
        7 => {
            // validate accepts an FB task reference into an I/O area that metadata() rejects
            if let Some(SectionData::RefTable(t)) = m.section_mut(SectionId::RefTable) {
                t.entries[1] = RefEntry { location: RefLocation::Io, owner_id: 3, offset: 0, segments: vec![] };
            }
            Some((enc(&m), note("corpus: FB task reference with IO area 3")))
        }
        8 => {
            // type table with a gap between the offset table and the first entry
            let Some(SectionData::TypeTable(t)) = m.section(SectionId::TypeTable) else { return None };
            let mut one = BytecodeModule::new(m.version);
            one.sections = vec![section(SectionId::TypeTable, SectionData::TypeTable(t.clone()))];
            let b = one.encode().ok()?;
            let off = u32::from_le_bytes([b[28], b[29], b[30], b[31]]) as usize;
            let len = u32::from_le_bytes([b[32], b[33], b[34], b[35]]) as usize;
            let payload = &b[off..off + len];
            let n = t.entries.len();
            let mut out = payload[..4].to_vec();
            for i in 0..n {
                let o = u32::from_le_bytes([payload[4 + 4 * i], payload[5 + 4 * i], payload[6 + 4 * i], payload[7 + 4 * i]]);
                out.extend_from_slice(&(o + 4).to_le_bytes());
            }
            out.extend_from_slice(&[0xAA, 0xBB, 0xCC, 0xDD]);
            out.extend_from_slice(&payload[4 + 4 * n..]);
            replace_section(&mut m, SectionId::TypeTable, out);
            Some((enc(&m), note("corpus: type table with a 4-byte gap before the first entry (e5dfde6)")))
        }
        9 => Some((Vec::new(), note("corpus: empty input"))),
        10 => {
            let b = enc(&m);
            Some((b[..24].to_vec(), note("corpus: header only")))
        }
        11 => {
            let mut e = BytecodeModule::new(BytecodeVersion::new(1, 1));
            e.sections.clear();
            Some((enc(&e), note("corpus: no sections")))
        }
        12 | 13 => {
            // array nesting depth 64 (accepted) and 65 (rejected)
            let depth = if k == 12 { 64u32 } else { 65 };
            let mut payload = Vec::new();
            if let Some(SectionData::TypeTable(t)) = m.section_mut(SectionId::TypeTable) {
                let n = t.entries.len() as u32;
                t.entries.push(TypeEntry {
                    kind: TypeKind::Primitive,
                    name_idx: None,
                    data: TypeData::Primitive { prim_id: 1, max_length: 0 },
                });
                for i in 0..depth {
                    t.entries.push(TypeEntry {
                        kind: TypeKind::Array,
                        name_idx: None,
                        data: TypeData::Array { elem_type_id: n + i, dims: vec![(0, 0)] },
                    });
                    payload.extend_from_slice(&1u32.to_le_bytes());
                }
                payload.push(1);
                if let Some(SectionData::ConstPool(p)) = m.section_mut(SectionId::ConstPool) {
                    p.entries.push(ConstEntry { type_id: n + depth, payload });
                }
            }
            refresh_offsets(&mut m);
            Some((enc(&m), vec![format!("corpus: constant nested {depth} arrays deep")]))
        }
        14 => {
            // a section that lies over the header and the section table
            let mut b = enc(&m);
            let e = 24 + 12 * (m.sections.len() - 1);
            b[e + 4..e + 8].copy_from_slice(&0u32.to_le_bytes());
            b[e + 8..e + 12].copy_from_slice(&8u32.to_le_bytes());
            fix_crc(&mut b);
            Some((b, note("corpus: last section placed over the header")))
        }
        15 => {
            // code of 300 NOPs referenced by every POU; jump to the very end
            let mut code = vec![0u8; 300];
            code[0] = 0x02;
            code[1..5].copy_from_slice(&295i32.to_le_bytes());
            if let Some(SectionData::PouIndex(ix)) = m.section_mut(SectionId::PouIndex) {
                for e in ix.entries.iter_mut() {
                    e.code_offset = 0;
                    e.code_length = 300;
                }
            }
            if let Some(SectionData::DebugMap(d)) = m.section_mut(SectionId::DebugMap) {
                d.entries[1].code_offset = 300;
            }
            if let Some(SectionData::PouBodies(b)) = m.section_mut(SectionId::PouBodies) {
                *b = code;
            }
            Some((enc(&m), note("corpus: every POU shares one body, jump to the end")))
        }
        16 => {
            // two faults: unsupported major AND wrong checksum (the checksum is checked first)
            let mut b = enc(&m);
            b[4..6].copy_from_slice(&2u16.to_le_bytes());
            b[20] ^= 0x40;
            Some((b, note("corpus: major 2 and bad CRC")))
        }
        17 => {
            let mut b = enc(&m);
            b[12..14].copy_from_slice(&23u16.to_le_bytes());
            b[16..20].copy_from_slice(&20u32.to_le_bytes());
            Some((b, note("corpus: header size 23 and table offset 20")))
        }
        18 => {
            let mut b = enc(&m);
            let len = b.len() as u32;
            b[16..20].copy_from_slice(&(len + 2).to_le_bytes());
            Some((b, note("corpus: table offset unaligned and out of bounds")))
        }
        19 => {
            let mut b = enc(&m);
            let len = b.len() as u32;
            b[4..6].copy_from_slice(&7u16.to_le_bytes());
            b[16..20].copy_from_slice(&len.to_le_bytes());
            b[8..12].copy_from_slice(&0u32.to_le_bytes());
            Some((b, note("corpus: major 7, table at the end of the file, no CRC flag")))
        }
        20 => {
            // invalid ref location, entry truncated before the segment count: EOF comes first
            let mut p = 1u32.to_le_bytes().to_vec();
            p.extend_from_slice(&[9, 0, 0, 0]);
            p.extend_from_slice(&0u32.to_le_bytes());
            p.extend_from_slice(&0u32.to_le_bytes());
            replace_section(&mut m, SectionId::RefTable, p);
            Some((enc(&m), note("corpus: invalid ref location in a truncated entry")))
        }
        21 => {
            // invalid ref location with a complete header
            let mut p = 1u32.to_le_bytes().to_vec();
            p.extend_from_slice(&[9, 0, 0, 0]);
            p.extend_from_slice(&0u32.to_le_bytes());
            p.extend_from_slice(&0u32.to_le_bytes());
            p.extend_from_slice(&u32::MAX.to_le_bytes());
            replace_section(&mut m, SectionId::RefTable, p);
            Some((enc(&m), note("corpus: invalid ref location, segment count u32::MAX")))
        }
        22 => {
            // VAR_META: retain policy 9 and ref index out of range (the index is checked first)
            if let Some(SectionData::VarMeta(v)) = m.section_mut(SectionId::VarMeta) {
                v.entries[0].retain = 9;
                v.entries[0].ref_idx = 1000;
            }
            Some((enc(&m), note("corpus: var meta with bad retain policy and bad ref index")))
        }
        23 => {
            // DEBUG_MAP: unknown POU and bad file index (the POU is checked first)
            if let Some(SectionData::DebugMap(d)) = m.section_mut(SectionId::DebugMap) {
                d.entries[0].pou_id = 77;
                d.entries[0].file_idx = 77;
            }
            Some((enc(&m), note("corpus: debug entry with unknown POU and bad file index")))
        }
        24 => {
            // struct constant: count mismatch and a field type out of range (count first)
            if let Some(SectionData::TypeTable(t)) = m.section_mut(SectionId::TypeTable) {
                if let TypeData::Struct { fields } = &mut t.entries[3].data {
                    fields[0].type_id = 500;
                }
            }
            if let Some(SectionData::ConstPool(p)) = m.section_mut(SectionId::ConstPool) {
                p.entries[2].payload[0] = 3;
            }
            Some((enc(&m), note("corpus: struct constant with wrong count and bad field type")))
        }
        25 => {
            // POU code range ends exactly at the end of the bodies; debug offset = end of the POU
            if let Some(SectionData::DebugMap(d)) = m.section_mut(SectionId::DebugMap) {
                d.entries[0].code_offset = 54;
            }
            Some((enc(&m), note("corpus: debug entry at the end offset of its POU")))
        }
        26 => {
            // resource lookup: two resources, the second one selected by name elsewhere
            if let Some(SectionData::ResourceMeta(r)) = m.section_mut(SectionId::ResourceMeta) {
                r.resources.swap(0, 1);
            }
            Some((enc(&m), note("corpus: resources swapped (primary has no tasks)")))
        }
        27 => {
            // a type table with a single entry whose offset is the payload length
            let mut p = 1u32.to_le_bytes().to_vec();
            p.extend_from_slice(&8u32.to_le_bytes());
            let n = p.len() as u32;
            p[4..8].copy_from_slice(&n.to_le_bytes());
            replace_section(&mut m, SectionId::TypeTable, p);
            Some((enc(&m), note("corpus: single type entry at offset = payload length")))
        }
        28 => {
            // the hand-built module in format version 1.0 (no string padding, no type offsets, no defaults)
            let m = wf_variant(28);
            Some((enc(&m), note("corpus: the hand-built module, version 1.0")))
        }
        29 => {
            let m = wf_variant(29);
            Some((enc(&m), note("corpus: the hand-built module with a vendor section and without optional sections")))
        }
        30..=33 => {
            // zero-length section entries must pass the same alignment / bounds checks
            let mut b = enc(&m);
            let len = b.len() as u32;
            let e = 24 + 12 * (m.sections.len() - 1);
            let off = match k {
                30 => len + 4,      // aligned, past the end
                31 => len + 2,      // unaligned, past the end
                32 => 26,           // unaligned, inside
                _ => u32::MAX - 3,  // aligned, far past the end
            };
            b[e + 4..e + 8].copy_from_slice(&off.to_le_bytes());
            b[e + 8..e + 12].copy_from_slice(&0u32.to_le_bytes());
            fix_crc(&mut b);
            Some((b, vec![format!("corpus: zero-length last section at offset {off}")]))
        }
        34..=38 => {
            // duplicated sections: validate, metadata and apply all read the FIRST one of an id
            let id = match k {
                34 | 35 => SectionId::ResourceMeta,
                36 => SectionId::StringTable,
                37 => SectionId::RefTable,
                _ => SectionId::PouIndex,
            };
            let mut dup = m.sections.iter().find(|s| s.id == id.as_raw()).cloned()?;
            match &mut dup.data {
                SectionData::ResourceMeta(r) => {
                    r.resources[0].inputs_size = if k == 34 { u32::MAX } else { 7 };
                    r.resources[0].tasks.clear();
                    r.resources.truncate(1);
                }
                SectionData::StringTable(t) => t.entries.truncate(1),
                SectionData::RefTable(t) => t.entries.clear(),
                SectionData::PouIndex(t) => t.entries.truncate(1),
                _ => {}
            }
            if k == 35 {
                m.sections.insert(0, dup); // the altered copy first
            } else {
                m.sections.push(dup); // the altered copy last
            }
            Some((enc(&m), vec![format!("corpus: duplicated section {id:?} (variant {k})")]))
        }
        _ => None,
    }
}

/// Well-formed variants of the hand-built module (what `encode` can represent exactly).
fn wf_variant(k: u64) -> BytecodeModule {
    let mut rng = Rng::new(0xC11);
    let mut m = rich_module(&mut rng);
    m.sections.retain(|s| s.id != 0x7777);
    m.version.minor = 1;
    match k {
        28 => {
            m.version.minor = 0;
            m.flags = 0;
            // version 1.0 has no default-constant field
            if let Some(SectionData::PouIndex(ix)) = m.section_mut(SectionId::PouIndex) {
                for e in ix.entries.iter_mut() {
                    for p in e.params.iter_mut() {
                        p.default_const_idx = None;
                    }
                }
            }
        }
        29 => {
            m.sections.retain(|s| !matches!(s.id, 0x000B | 0x000C));
            m.sections.push(Section { id: 0x9001, flags: 5, data: SectionData::Raw(vec![9, 8, 7]) });
        }
        _ => {}
    }
    refresh_offsets(&mut m);
    m
}

/// `decode(encode(m)) == m` and `encode(decode(encode(m))) == encode(m)` with the real code, for a
/// module that is well-formed by construction.
fn built_answer(k: u64) -> String {
    let m = wf_variant(k);
    let r = std::panic::catch_unwind(|| {
        let bytes = m.encode().expect("encode");
        match BytecodeModule::decode(&bytes) {
            Ok(d) => format!("rt={} same={}", (d == m) as u8, (d.encode().ok().as_deref() == Some(&bytes[..])) as u8),
            Err(_) => "decode-err".to_string(),
        }
    });
    r.unwrap_or_else(|_| "panic".into())
}

const CORPUS: u64 = 39;
/// one case per opcode byte: the program body is `[op, 0 × 8, RET]`
const SWEEP: u64 = 256;

fn sweep_case(op: u8) -> Vec<u8> {
    let mut rng = Rng::new(0xC11);
    let mut m = rich_module(&mut rng);
    m.version.minor = 1;
    m.sections.retain(|s| s.id != 0x7777);
    refresh_offsets(&mut m);
    let mut code = vec![op];
    code.extend_from_slice(&[0u8; 8]);
    code.push(0x06);
    if let Some(SectionData::PouIndex(ix)) = m.section_mut(SectionId::PouIndex) {
        for (i, e) in ix.entries.iter_mut().enumerate() {
            e.code_offset = 0;
            e.code_length = if i == 0 { code.len() as u32 } else { 0 };
        }
    }
    if let Some(SectionData::DebugMap(d)) = m.section_mut(SectionId::DebugMap) {
        for e in d.entries.iter_mut() {
            e.code_offset = 0;
        }
    }
    if let Some(SectionData::PouBodies(b)) = m.section_mut(SectionId::PouBodies) {
        *b = code;
    }
    m.encode().expect("encode sweep module")
}

struct Bases {
    emitted: Vec<(BytecodeModule, String)>,
    /// the hand-built module of the boundary sweep and the first slot of each of its field sites
    sweep_module: BytecodeModule,
    sites: Vec<(&'static str, usize)>,
    /// (site, position, host, with debug info) of the deterministic rollback programs
    rollback: Vec<(usize, usize, usize, bool)>,
    /// (type, place, with initial value) of the deterministic declaration programs
    decls: Vec<(usize, usize, bool)>,
    /// array / struct / leaf values of the runtime built from fbref::COMPOSITE_RUNTIME
    fb_nodes: Vec<fbref::Node>,
    /// the deterministic sweep of task FB references with paths into them
    fb_sweep: Vec<fbref::Probe>,
    /// the container the compiler emits for fbref::COMPOSITE_RUNTIME
    fb_emitted: Option<BytecodeModule>,
}

const KNOWN_AMPLIFICATION: &str = "C11-metadata-fbref-amplification";

/// Witness of the open finding C11-metadata-fbref-amplification: ONE reference whose `Index` segment
/// has `n_indices` entries, named `n_refs` times in a task's `fb_ref_idx`.  The container is
/// `8 * n_indices + 4 * n_refs` bytes (+ the base module) long; `metadata()` clones the index vector
/// once per `fb_ref_idx` entry: `8 * n_indices * n_refs` bytes.
fn amplification_witness(n_indices: usize, n_refs: usize) -> Vec<u8> {
    let mut m = wf_variant(0);
    let e = RefEntry {
        location: RefLocation::Global,
        owner_id: 0,
        offset: 0,
        segments: vec![RefSegment::Index(vec![0; n_indices])],
    };
    let Some(SectionData::RefTable(t)) = m.section_mut(SectionId::RefTable) else { unreachable!() };
    let idx = t.entries.len() as u32;
    t.entries.push(e);
    if let Some(SectionData::ResourceMeta(meta)) = m.section_mut(SectionId::ResourceMeta) {
        meta.resources[0].tasks[0].fb_ref_idx = vec![idx; n_refs];
    }
    m.encode().expect("encode amplification witness")
}

enum Compiled {
    Ok(BytecodeModule, String, Vec<&'static str>),
    /// the front end accepted the program but the bytecode encoder (whose last step is
    /// `module.validate()`) returned an error
    EmitFailed(String, String),
}

/// Front end, then the bytecode encoder with (`from_runtime_with_sources`) or without
/// (`from_runtime`) debug information.  `None`: the front end rejected the program.
fn compile_source(source: &str, features: Vec<&'static str>, debug: bool, out: &mut Out) -> Option<Compiled> {
    let built = std::panic::catch_unwind(|| TestHarness::from_source(source));
    let harness = match built {
        Ok(Ok(h)) => h,
        Ok(Err(e)) => {
            out.count("compile-rejected");
            if std::env::var("C11_DEBUG").is_ok() {
                eprintln!("compile rejected: {e}\n{source}");
            }
            return None;
        }
        Err(_) => {
            out.count("compile-panicked");
            return None;
        }
    };
    let runtime = harness.into_runtime();
    let emitted = std::panic::catch_unwind(std::panic::AssertUnwindSafe(|| {
        if debug {
            BytecodeModule::from_runtime_with_sources(&runtime, &[source])
        } else {
            BytecodeModule::from_runtime(&runtime)
        }
    }));
    Some(match emitted {
        Ok(Ok(m)) => Compiled::Ok(m, source.to_string(), features),
        Ok(Err(e)) => Compiled::EmitFailed(source.to_string(), format!("err {}", format!("{e:?}").replace(' ', "_"))),
        Err(_) => Compiled::EmitFailed(source.to_string(), "panic".into()),
    })
}

fn compile(rng: &mut Rng, out: &mut Out) -> Option<Compiled> {
    for _ in 0..6 {
        let p = gen_st::gen_program(rng);
        let debug = !rng.chance(1, 4);
        if let Some(c) = compile_source(&p.source, p.features, debug, out) {
            return Some(c);
        }
    }
    None
}

/// The deterministic block of encoder fallback / rollback programs (gen_st::rollback_program):
/// level 1 (quick): every site x host at the positions `last` and `middle` with debug info, and `last`
/// without; level 2: every site x host x position, with and without debug info.
fn rollback_list(level: usize) -> Vec<(usize, usize, usize, bool)> {
    let mut v = Vec::new();
    for site in 0..gen_st::ROLLBACK_SITES.len() {
        for host in 0..gen_st::ROLLBACK_HOSTS.len() {
            for pos in 0..gen_st::ROLLBACK_POSITIONS.len() {
                let name = gen_st::ROLLBACK_POSITIONS[pos];
                if level >= 2 || name == "last" || name == "middle" {
                    v.push((site, pos, host, true));
                }
                if level >= 2 || (name == "last" && host % 2 == 0) {
                    v.push((site, pos, host, false));
                }
            }
        }
    }
    v
}

/// The deterministic block of declaration programs (gen_st::decl_program): one declaration of one type
/// in one place.  level 1 (quick): every type as `global` with and without initial value, and every
/// type x every other place with initial value where there is one; level 2: everything.
/// String-typed input defaults (finding C11-string-default-param, fixed in c48da62) are part of it.
fn decl_list(level: usize) -> Vec<(usize, usize, bool)> {
    let mut v = Vec::new();
    for ty in 0..gen_st::DECL_TYPES.len() {
        for place in 0..gen_st::DECL_PLACES.len() {
            for init in [true, false] {
                let has_init = !gen_st::DECL_TYPES[ty].1.is_empty();
                if init && !has_init {
                    continue; // identical to the program without initial value
                }
                let global = gen_st::DECL_PLACES[place] == "global";
                // quick: globals both ways; other places alternate by parity so that every (type, place) pair occurs
                if level >= 2 || global || init == ((ty + place) % 2 == 0) || !has_init
                    || gen_st::decl_hits_string_default(ty, place, init)
                {
                    v.push((ty, place, init));
                }
            }
        }
    }
    v
}

/// One emitted-container case from a compile result.
fn emitted_case(c: Compiled, kind: &'static str, note: String, own_runtime: bool, out: &mut Out) -> CaseSpec {
    match c {
        Compiled::Ok(m, source, features) => {
            let bytes = m.encode().expect("encode emitted module");
            let answer = emitted_answer(&m, &bytes);
            for f in &features {
                out.count(&format!("feature-{f}"));
            }
            CaseSpec {
                kind,
                notes: vec![note, format!("src={}", hex(source.as_bytes()))],
                bytes,
                runtime_source: if own_runtime { source } else { gen_st::SIMPLE_RUNTIME.to_string() },
                resource: "none".into(),
                emitted: Some(answer),
                emit_failed: None, measure_only: false,
                built: None,
            }
        }
        Compiled::EmitFailed(source, err) => CaseSpec {
            kind: "emit-failed",
            notes: vec![note, "the bytecode encoder rejected a program the compiler accepted".into()],
            bytes: Vec::new(),
            runtime_source: source,
            resource: "none".into(),
            emitted: None,
            emit_failed: Some(err), measure_only: false,
            built: None,
        },
    }
}

fn gen_case(n: u64, seed: u64, bases: &Bases, out: &mut Out) -> CaseSpec {
    let simple = gen_st::SIMPLE_RUNTIME.to_string();
    if n < CORPUS {
        if let Some((bytes, notes)) = corpus_case(n) {
            let built = match n {
                0 | 28 | 29 => Some(built_answer(n)),
                _ => None,
            };
            return CaseSpec { kind: "corpus", notes, bytes, runtime_source: simple, resource: "none".into(), emitted: None, emit_failed: None, measure_only: false, built };
        }
    }
    if n < CORPUS + SWEEP {
        let op = (n - CORPUS) as u8;
        return CaseSpec {
            kind: "opcode-sweep",
            notes: vec![format!("op={op}")],
            bytes: sweep_case(op),
            runtime_source: simple,
            resource: "none".into(),
            emitted: None,
            emit_failed: None, measure_only: false,
                built: None,
        };
    }
    // boundary sweep: every field site of the hand-built module x 5 boundary values, one at a time
    let k = n - CORPUS - SWEEP;
    if (k as usize) < bases.sites.len() * SITE_VALUES {
        let (site, slot) = bases.sites[k as usize / SITE_VALUES];
        let v = k as usize % SITE_VALUES;
        if let Some((bytes, what)) = site_sweep_bytes(&bases.sweep_module, site, slot, v) {
            return CaseSpec {
                kind: "site-sweep",
                notes: vec![what],
                bytes,
                runtime_source: simple,
                resource: "none".into(),
                emitted: None,
                emit_failed: None, measure_only: false,
                built: None,
            };
        }
    }
    // encoder fallback / rollback programs, deterministic
    let r = k as usize - (bases.sites.len() * SITE_VALUES).min(k as usize);
    if (k as usize) >= bases.sites.len() * SITE_VALUES && r < bases.rollback.len() {
        let (site, pos, host, debug) = bases.rollback[r];
        let (name, source) = gen_st::rollback_program(site, pos, host);
        let note = format!("rollback {name} debug={}", debug as u8);
        return match compile_source(&source, vec!["rollback"], debug, out) {
            Some(c) => emitted_case(c, "emitted-rollback", note, false, out),
            None => CaseSpec {
                kind: "emit-failed",
                notes: vec![note, "the front end rejected a rollback program".into()],
                bytes: Vec::new(),
                runtime_source: source,
                resource: "none".into(),
                emitted: None,
                emit_failed: Some("front-end-rejected".into()), measure_only: false,
                built: None,
            },
        };
    }
    // declaration programs, deterministic
    let base = bases.sites.len() * SITE_VALUES + bases.rollback.len();
    if (k as usize) >= base && (k as usize) - base < bases.decls.len() {
        let (ty, place, init) = bases.decls[k as usize - base];
        let (name, source) = gen_st::decl_program(ty, place, init);
        let debug = (ty + place) % 3 != 0;
        let note = format!("decl {name} debug={}", debug as u8);
        return match compile_source(&source, vec!["decl"], debug, out) {
            Some(c) => emitted_case(c, "emitted-decl", note, (ty + place) % 4 == 0, out),
            None => CaseSpec {
                kind: "emit-failed",
                notes: vec![note, "the front end rejected a declaration program".into()],
                bytes: Vec::new(),
                runtime_source: source,
                resource: "none".into(),
                emitted: None,
                emit_failed: Some("front-end-rejected".into()), measure_only: false,
                built: None,
            },
        };
    }
    // the witness of the known finding C11-string-default-param (reported by checks/c11.py, not compared)
    if (k as usize) == base + bases.decls.len() {
        let source = gen_st::STRING_DEFAULT_WITNESS;
        let result = match compile_source(source, vec![], true, out) {
            Some(Compiled::Ok(..)) => "compiles".to_string(),
            Some(Compiled::EmitFailed(_, e)) => format!("encoder-{e}").replace(' ', "-"),
            None => "front-end-rejected".to_string(),
        };
        let mut spec = CaseSpec {
            kind: "known-witness",
            notes: vec![format!("C11-string-default-param result={result}")],
            bytes: corpus_case(0).expect("corpus 0").0,
            runtime_source: simple,
            resource: "none".into(),
            emitted: None,
            emit_failed: None, measure_only: false,
            built: None,
        };
        spec.notes.push(format!("src={}", hex(source.as_bytes())));
        return spec;
    }
    // the witness of the open finding C11-metadata-fbref-amplification (measured, not compared)
    if (k as usize) == base + bases.decls.len() + 1 {
        return CaseSpec {
            kind: "known-witness",
            notes: vec![KNOWN_AMPLIFICATION.to_string()],
            bytes: amplification_witness(1024, 2048),
            runtime_source: simple,
            resource: "none".into(),
            emitted: None,
            emit_failed: None,
            built: None,
            measure_only: true,
        };
    }
    // task FB references with paths into the array / struct variables of the runtime, deterministic
    let fb_base = base + bases.decls.len() + 2;
    if (k as usize) >= fb_base && (k as usize) - fb_base < bases.fb_sweep.len() {
        let i = k as usize - fb_base;
        let probe = &bases.fb_sweep[i];
        let from_emitted = i % 2 == 1 && bases.fb_emitted.is_some();
        let base_module = if from_emitted { bases.fb_emitted.as_ref().unwrap() } else { &bases.sweep_module };
        let (m, what) = fbref::sweep_module(base_module, &bases.fb_nodes, probe, i / 2);
        return CaseSpec {
            kind: "fbref-sweep",
            notes: vec![what, format!("base={}", if from_emitted { "emitted" } else { "hand-built" })],
            bytes: m.encode().expect("encode fbref sweep module"),
            runtime_source: fbref::COMPOSITE_RUNTIME.to_string(),
            resource: "none".into(),
            emitted: None,
            emit_failed: None,
            built: None,
            measure_only: false,
        };
    }
    let mut rng = Rng::for_case(seed, n);
    let resource = match rng.below(10) {
        0 => hex(b"R"),
        1 => hex(b"r"),
        2 => hex(b"nosuch"),
        3 => hex(b"File"),
        _ => "none".to_string(),
    };
    let roll = rng.below(100);
    if roll < 5 {
        // compiler-emitted, unmutated, applied to the runtime built from the same source
        if let Some(c) = compile(&mut rng, out) {
            let note = match &c {
                Compiled::Ok(_, _, f) => format!("features: {}", f.join(",")),
                Compiled::EmitFailed(..) => String::new(),
            };
            return emitted_case(c, "emitted", note, true, out);
        }
    }
    if roll < 14 {
        // random bytes, with or without a plausible header
        let len = *rng.pick(&[0u64, 1, 3, 4, 23, 24, 25, 36, 40, 64, 200]) + rng.below(8);
        let mut bytes: Vec<u8> = (0..len).map(|_| rng.next() as u8).collect();
        if rng.chance(2, 3) && bytes.len() >= 24 {
            bytes[0..4].copy_from_slice(b"STBC");
            bytes[4..6].copy_from_slice(&1u16.to_le_bytes());
            bytes[6..8].copy_from_slice(&(rng.below(2) as u16).to_le_bytes());
            bytes[8..12].copy_from_slice(&(rng.below(2) as u32).to_le_bytes());
            bytes[12..14].copy_from_slice(&24u16.to_le_bytes());
            let count = rng.below(3) as u16;
            bytes[14..16].copy_from_slice(&count.to_le_bytes());
            bytes[16..20].copy_from_slice(&24u32.to_le_bytes());
            for i in 0..count as usize {
                let e = 24 + 12 * i;
                if e + 12 <= bytes.len() {
                    let id = 1 + rng.below(13) as u16;
                    bytes[e..e + 2].copy_from_slice(&id.to_le_bytes());
                    let off = (rng.below(bytes.len() as u64 / 4 + 1) * 4) as u32;
                    bytes[e + 4..e + 8].copy_from_slice(&off.to_le_bytes());
                    let len = rng.below((bytes.len() as u64).saturating_sub(off as u64) + 2) as u32;
                    bytes[e + 8..e + 12].copy_from_slice(&len.to_le_bytes());
                }
            }
            fix_crc(&mut bytes);
            let notes = vec!["random bytes behind a valid header".to_string()];
            return CaseSpec { kind: "random-header", notes, bytes, runtime_source: simple, resource, emitted: None, emit_failed: None, measure_only: false, built: None };
        }
        let notes = vec!["random bytes".to_string()];
        return CaseSpec { kind: "random", notes, bytes, runtime_source: simple, resource, emitted: None, emit_failed: None, measure_only: false, built: None };
    }
    if roll >= 92 {
        // task FB references with paths, random: 1..3 references, random boundary indices in every
        // dimension, other roots; base = hand-built module (format 1.0 / 1.1) or the emitted one
        let from_emitted = rng.chance(1, 3) && bases.fb_emitted.is_some();
        let base_module = if from_emitted { bases.fb_emitted.clone().unwrap() } else { rich_module(&mut rng) };
        let (m, mut notes) = fbref::random_module(&mut rng, &base_module, &bases.fb_nodes);
        notes.push(format!("base={}", if from_emitted { "emitted" } else { "hand-built" }));
        return CaseSpec {
            kind: "fbref",
            notes,
            bytes: m.encode().expect("encode fbref module"),
            runtime_source: fbref::COMPOSITE_RUNTIME.to_string(),
            resource,
            emitted: None,
            emit_failed: None,
            built: None,
            measure_only: false,
        };
    }
    // mutated: base = hand-built rich module or a compiler-emitted one
    let from_emitted = roll < 36 && !bases.emitted.is_empty();
    let mut m = if from_emitted {
        bases.emitted[rng.below(bases.emitted.len() as u64) as usize].0.clone()
    } else {
        rich_module(&mut rng)
    };
    let mut notes = Vec::new();
    let nmods = *rng.pick(&[0u64, 1, 1, 1, 1, 2, 2, 3]);
    for _ in 0..nmods {
        let what = match rng.below(10) {
            0..=4 => mutate_field(&mut rng, &mut m),
            5 | 6 => mutate_type_graph(&mut rng, &mut m),
            7 | 8 => mutate_code(&mut rng, &mut m),
            _ => mutate_sections(&mut rng, &mut m),
        };
        out.count(&format!("mut-{what}"));
        notes.push(what.to_string());
    }
    let mut bytes = match std::panic::catch_unwind(|| m.encode()) {
        Ok(Ok(b)) => b,
        _ => {
            out.count("encode-failed");
            m = rich_module(&mut rng);
            m.encode().expect("encode rich module")
        }
    };
    let nbyte = if nmods == 0 { 1 + rng.below(2) } else { *rng.pick(&[0u64, 0, 1, 1, 2]) };
    for _ in 0..nbyte {
        let what = mutate_bytes(&mut rng, &m, &mut bytes);
        out.count(&format!("mut-{what}"));
        notes.push(what.to_string());
    }
    CaseSpec {
        kind: if from_emitted { "mutated-emitted" } else { "mutated-rich" },
        notes,
        bytes,
        runtime_source: simple,
        resource,
        emitted: None,
        emit_failed: None, measure_only: false,
        built: None,
    }
}

/// `vharness c11 --src file.st [--nodebug 1]`: compile one source and print what the emitted-container
/// oracle sees (developer tool for replays).
fn probe(path: &str, nodebug: bool) -> i32 {
    let source = std::fs::read_to_string(path).expect("read source");
    let harness = match TestHarness::from_source(&source) {
        Ok(h) => h,
        Err(e) => {
            println!("front end rejected: {e}");
            return 1;
        }
    };
    let runtime = harness.into_runtime();
    let module = if nodebug {
        BytecodeModule::from_runtime(&runtime)
    } else {
        BytecodeModule::from_runtime_with_sources(&runtime, &[source.as_str()])
    };
    match module {
        Err(e) => {
            println!("encoder error: {e:?}");
            1
        }
        Ok(m) => {
            let bytes = m.encode().expect("encode");
            println!("{}", emitted_answer(&m, &bytes));
            if let (Some(SectionData::PouIndex(ix)), Some(SectionData::PouBodies(b))) =
                (m.section(SectionId::PouIndex), m.section(SectionId::PouBodies))
            {
                for p in ix.entries.iter().filter(|p| p.code_length > 0) {
                    let code = &b[p.code_offset as usize..(p.code_offset + p.code_length) as usize];
                    println!("pou {} kind {:?} code@{}+{}: {}", p.id, p.kind, p.code_offset, p.code_length, hex(code));
                }
            }
            if let Some(SectionData::DebugMap(d)) = m.section(SectionId::DebugMap) {
                for e in &d.entries {
                    println!("debug pou {} offset {} line {} col {}", e.pou_id, e.code_offset, e.line, e.column);
                }
            }
            0
        }
    }
}

pub fn run(args: &Args) -> i32 {
    if let Some(path) = args.extra.get("src") {
        return probe(path, args.extra.contains_key("nodebug"));
    }
    if args.extra.contains_key("amplification") {
        // developer tool: memory of metadata() on the witness family of C11-metadata-fbref-amplification
        let mut pool = Pool { worker: None, limit_mb: 4096, timeout: Duration::from_secs(120), restarts: 0 };
        for (a, b) in [(256usize, 512usize), (512, 1024), (1024, 2048), (2048, 4096), (4096, 8192)] {
            let bytes = amplification_witness(a, b);
            let res = pool.run(gen_st::SIMPLE_RUNTIME, "none", &bytes);
            println!(
                "indices={a} refs={b} len={} validate={} metadata={} mem={}",
                bytes.len(),
                res.validate,
                res.metadata.split(' ').next().unwrap_or(""),
                res.mem
            );
        }
        return 0;
    }
    if args.extra.contains_key("decl-probe") {
        // developer tool: which declaration programs does the front end accept
        let mut out = Out::new();
        for ty in 0..gen_st::DECL_TYPES.len() {
            for place in 0..gen_st::DECL_PLACES.len() {
                for init in [true, false] {
                    let (name, source) = gen_st::decl_program(ty, place, init);
                    let r = match compile_source(&source, vec![], true, &mut out) {
                        None => match TestHarness::from_source(&source) {
                            Err(e) => format!("FRONT-END {}", format!("{e}").replace('\n', " ")),
                            Ok(_) => "?".into(),
                        },
                        Some(Compiled::EmitFailed(_, e)) => format!("ENCODER {e}"),
                        Some(Compiled::Ok(m, _, _)) => {
                            let bytes = m.encode().expect("encode");
                            emitted_answer(&m, &bytes)
                        }
                    };
                    println!("{name}: {r}");
                }
            }
        }
        return 0;
    }
    if args.extra.contains_key("rollback-probe") {
        // developer tool: which rollback programs does the front end accept, what does the oracle say
        for site in 0..gen_st::ROLLBACK_SITES.len() {
            for host in 0..gen_st::ROLLBACK_HOSTS.len() {
                let (name, source) = gen_st::rollback_program(site, 3, host);
                let r = match TestHarness::from_source(&source) {
                    Err(e) => format!("FRONT-END {e}"),
                    Ok(h) => {
                        let rt = h.into_runtime();
                        match BytecodeModule::from_runtime_with_sources(&rt, &[source.as_str()]) {
                            Err(e) => format!("ENCODER {e:?}"),
                            Ok(m) => {
                                let bytes = m.encode().expect("encode");
                                let nops = match m.section(SectionId::PouBodies) {
                                    Some(SectionData::PouBodies(b)) => b.len(),
                                    _ => 0,
                                };
                                format!("{} bodies={nops}", emitted_answer(&m, &bytes))
                            }
                        }
                    }
                };
                println!("{name}: {r}");
            }
        }
        return 0;
    }
    let mut out = Out::new();
    let mut pool = Pool {
        worker: None,
        limit_mb: args.extra_usize("limit-mb", 1024),
        timeout: Duration::from_secs(args.extra_usize("timeout-s", 60) as u64),
        restarts: 0,
    };
    // a few compiler-emitted containers as mutation bases (depend on the seed only)
    let mut sweep_module = {
        let mut rng = Rng::new(0xC11);
        let mut m = rich_module(&mut rng);
        m.version.minor = 1;
        m.sections.retain(|s| s.id != 0x7777);
        refresh_offsets(&mut m);
        m
    };
    let sites = site_slots(&mut sweep_module);
    out.add("site-sweep-sites", sites.len() as u64);
    let rollback = rollback_list(args.extra_usize("rollback-level", 1));
    out.add("rollback-programs", rollback.len() as u64);
    let decls = decl_list(args.extra_usize("decl-level", 1));
    out.add("decl-programs", decls.len() as u64);
    let fb_nodes = fbref::nodes(fbref::COMPOSITE_RUNTIME);
    out.add("fbref-nodes", fb_nodes.len() as u64);
    let fb_sweep = fbref::sweep(&fb_nodes);
    out.add("fbref-sweep-probes", fb_sweep.len() as u64);
    let fb_emitted = match compile_source(fbref::COMPOSITE_RUNTIME, vec![], false, &mut out) {
        Some(Compiled::Ok(m, _, _)) => Some(m),
        _ => None,
    };
    out.add("fbref-emitted-base", fb_emitted.is_some() as u64);
    let mut bases = Bases { emitted: Vec::new(), sweep_module, sites, rollback, decls, fb_nodes, fb_sweep, fb_emitted };
    let mut brng = Rng::for_case(args.seed, u64::MAX);
    for _ in 0..4 {
        if let Some(Compiled::Ok(m, source, _)) = compile(&mut brng, &mut out) {
            bases.emitted.push((m, source));
        }
    }
    let t0 = std::time::Instant::now();
    for n in args.case_numbers() {
        // a bug in the generator must never look like a failure of the property
        let spec = match std::panic::catch_unwind(std::panic::AssertUnwindSafe(|| {
            gen_case(n, args.seed, &bases, &mut out)
        })) {
            Ok(spec) => spec,
            Err(_) => {
                out.count("generator-panicked");
                CaseSpec {
                    kind: "generator-fallback",
                    notes: vec!["the case generator panicked; the unmutated hand-built module is used instead".into()],
                    bytes: corpus_case(0).expect("corpus 0").0,
                    runtime_source: gen_st::SIMPLE_RUNTIME.to_string(),
                    resource: "none".into(),
                    emitted: None,
                    emit_failed: None, measure_only: false,
                    built: None,
                }
            }
        };
        let res = pool.run(&spec.runtime_source, &spec.resource, &spec.bytes);
        if spec.measure_only {
            // result = `ok` or `excess:<stages>` (what the counting allocator of the worker saw), or the
            // first stage that did not answer `ok`
            let stages = [("decode", &res.decode), ("validate", &res.validate), ("metadata", &res.metadata)];
            let result = if let Some((name, _)) = stages.iter().find(|(_, a)| !a.starts_with("ok")) {
                format!("failed:{name}")
            } else if res.mem == "ok" {
                "ok".to_string()
            } else {
                let mut names: Vec<&str> = Vec::new();
                for part in res.mem.split(|c| c == ' ' || c == ',') {
                    if let Some((stage, _)) = part.split_once(":peak=") {
                        names.push(stage);
                    }
                }
                if names.is_empty() { format!("other:{}", res.mem.replace(' ', "_")) } else { format!("excess:{}", names.join("+")) }
            };
            out.line(format!("case {n}"));
            out.line(format!("# kind={} len={} {} result={result} ; mem={}", spec.kind, spec.bytes.len(), spec.notes.join(" ; "), res.mem.replace(' ', "_")));
            out.count(&format!("kind-{}", spec.kind));
            out.line("tag nontrivial");
            out.count("nontrivial");
            out.line("end");
            continue;
        }
        out.line(format!("case {n}"));
        out.line(format!("# kind={} len={} {}", spec.kind, spec.bytes.len(), spec.notes.join(" ; ")));
        out.count(&format!("kind-{}", spec.kind));
        let rt = if res.rt.is_empty() { "- - - 0,0,0 -".to_string() } else { res.rt.clone() };
        for def in &res.cv {
            out.line(format!("cv {def}"));
        }
        out.line(format!("rt {rt}"));
        out.line(format!("bytes {}", hex(&spec.bytes)));
        out.line("decode");
        out.line(format!("impl {}", res.decode));
        out.line("validate");
        out.line(format!("impl {}", res.validate));
        out.line("metadata");
        out.line(format!("impl {}", res.metadata));
        out.line(format!("apply {}", spec.resource));
        out.line(format!("impl {}", res.apply));
        out.line("mem");
        out.line(format!("impl {}", res.mem));
        if let Some(e) = &spec.emitted {
            out.line("emitted");
            out.line(format!("impl {e}"));
        }
        if let Some(b) = &spec.built {
            out.line("built");
            out.line(format!("impl {b}"));
        }
        if let Some(e) = &spec.emit_failed {
            out.line(format!("emitfail {}", hex(spec.runtime_source.as_bytes())));
            out.line(format!("impl {e}"));
        }
        let class = |s: &str| -> String {
            let mut it = s.split(' ');
            let a = it.next().unwrap_or("");
            if a == "err" {
                let b = it.next().unwrap_or("");
                format!("err-{}", b.split(':').next().unwrap_or(""))
            } else {
                a.split(':').next().unwrap_or("").to_string()
            }
        };
        out.count(&format!("decode-{}", class(&res.decode)));
        out.count(&format!("validate-{}", class(&res.validate)));
        out.count(&format!("metadata-{}", class(&res.metadata)));
        out.count(&format!("apply-{}", class(&res.apply)));
        if res.died {
            out.count("worker-died");
        }
        if crc_gate_passed(&spec.bytes) {
            out.line("tag nontrivial");
            out.count("nontrivial");
        }
        out.line("end");
    }
    out.add("worker-restarts", pool.restarts);
    out.add("elapsed-ms", t0.elapsed().as_millis() as u64);
    if let Some(mut w) = pool.worker.take() {
        let _ = w.stdin.write_all(b"quit\n");
        let _ = w.child.wait();
    }
    out.finish(&args.out);
    0
}
