//! Task FB references with `Index` / `Field` paths into the array and struct variables of the runtime
//! the container is applied to.  `Runtime::validate_task` dereferences every `fb_ref_idx` entry of the
//! chosen resource's tasks with `storage.read_by_ref`; the `i64` indices come verbatim from the
//! REF_TABLE (`validate_ref_table` cannot bound them), so "a validated container can be applied
//! without panicking" depends on the index arithmetic of `memory.rs` for every bound shape.
//!
//! The generator walks the REAL runtime built from `COMPOSITE_RUNTIME` (globals and instance
//! variables) and aims references at every array / struct / scalar node it finds: per dimension every
//! boundary index (bounds, bounds +- 1, 0, +-1, `i64::MIN/MAX` and their neighbours, the first / last
//! index for which `index - bound` leaves `i64`), wrong arity, field names (exact, other case, unknown,
//! empty), segments behind scalars, other locations / owners / offsets.

use crate::rng::Rng;
use smol_str::SmolStr;
use trust_runtime::bytecode::*;
use trust_runtime::harness::TestHarness;
use trust_runtime::value::Value;

/// Same programs, tasks and leading globals as `gen_st::SIMPLE_RUNTIME` (instance 0 = program Main,
/// its variable 0 = the FB the hand-built module's task refers to), plus array / struct variables of
/// every bound shape: positive, negative, zero and mixed lower bounds, one element, several
/// dimensions, bounds at the edge of what the front end accepts (DINT), arrays in structs in arrays.
pub const COMPOSITE_RUNTIME: &str = r#"
TYPE
    Inner : STRUCT
        a : INT;
        arr : ARRAY[1..3] OF INT;
        w : ARRAY[-1..0, 5..6] OF BOOL;
    END_STRUCT;
    Outer : STRUCT
        inner : Inner;
        list : ARRAY[-3..-2] OF Inner;
    END_STRUCT;
END_TYPE

FUNCTION_BLOCK FB
VAR_INPUT IN : BOOL; END_VAR
VAR_OUTPUT OUT : BOOL; END_VAR
VAR buf : ARRAY[2..4] OF INT; END_VAR
OUT := IN;
END_FUNCTION_BLOCK

PROGRAM Main
VAR
    fb : FB;
    n : INT := 0;
    loc : ARRAY[-1..1] OF INT;
    ls : Inner;
END_VAR
n := n + 1;
END_PROGRAM

PROGRAM Aux
VAR k : DINT := 0; END_VAR
k := k + 1;
END_PROGRAM

CONFIGURATION C
VAR_GLOBAL
    trigger : BOOL := FALSE;
    level : INT := 3;
    lo : ARRAY[1..3] OF INT;
    neg : ARRAY[-2..2] OF INT;
    allneg : ARRAY[-5..-3] OF INT;
    zero : ARRAY[0..3] OF INT;
    one : ARRAY[7..7] OF INT;
    m2 : ARRAY[1..2, -1..1] OF INT;
    m3 : ARRAY[0..1, 1..2, -2..-1] OF INT;
    st : Inner;
    sarr : ARRAY[1..2] OF Inner;
    deep : Outer;
    top : ARRAY[2147483645..2147483647] OF BOOL;
    bottom : ARRAY[-2147483647..-2147483645] OF BOOL;
    wide : ARRAY[-1000..1000] OF BOOL;
END_VAR
RESOURCE R ON CPU
TASK T (INTERVAL := T#10ms, PRIORITY := 1);
TASK E (SINGLE := trigger, PRIORITY := 0);
PROGRAM Main WITH T : Main (fb WITH T);
PROGRAM Aux WITH E : Aux;
END_RESOURCE
END_CONFIGURATION
"#;

#[derive(Clone, Debug)]
pub enum Seg {
    Index(Vec<i64>),
    Field(String),
}

#[derive(Clone, Debug)]
pub enum NodeKind {
    Array(Vec<(i64, i64)>),
    Struct(Vec<String>),
    Scalar,
    Instance,
}

/// A value reachable in the runtime: root variable + path, and what sits there.
#[derive(Clone, Debug)]
pub struct Node {
    pub loc: RefLocation,
    pub owner: u32,
    pub offset: u32,
    pub prefix: Vec<Seg>,
    pub kind: NodeKind,
    pub name: String,
}

fn walk(v: &Value, loc: RefLocation, owner: u32, offset: u32, prefix: Vec<Seg>, name: String, depth: usize, out: &mut Vec<Node>) {
    let node = |kind| Node { loc, owner, offset, prefix: prefix.clone(), kind, name: name.clone() };
    match v {
        Value::Array(a) => {
            out.push(node(NodeKind::Array(a.dimensions.clone())));
            if depth >= 4 || a.elements.is_empty() {
                return;
            }
            let lower: Vec<i64> = a.dimensions.iter().map(|d| d.0).collect();
            let upper: Vec<i64> = a.dimensions.iter().map(|d| d.1).collect();
            let mut p = prefix.clone();
            p.push(Seg::Index(lower.clone()));
            walk(&a.elements[0], loc, owner, offset, p, format!("{name}[lo]"), depth + 1, out);
            // the last element too, for composite elements near the top
            if depth == 0 && a.elements.len() > 1 && matches!(a.elements[0], Value::Array(_) | Value::Struct(_)) {
                let mut p = prefix.clone();
                p.push(Seg::Index(upper));
                walk(&a.elements[a.elements.len() - 1], loc, owner, offset, p, format!("{name}[hi]"), depth + 1, out);
            }
        }
        Value::Struct(s) => {
            out.push(node(NodeKind::Struct(s.fields.keys().map(|k| k.to_string()).collect())));
            if depth >= 4 {
                return;
            }
            for (fname, f) in s.fields.iter() {
                let mut p = prefix.clone();
                p.push(Seg::Field(fname.to_string()));
                walk(f, loc, owner, offset, p, format!("{name}.{fname}"), depth + 1, out);
            }
        }
        Value::Instance(_) => out.push(node(NodeKind::Instance)),
        _ => out.push(node(NodeKind::Scalar)),
    }
}

/// Every node of the runtime built from `source` (deterministic: IndexMap order, sorted instance ids).
pub fn nodes(source: &str) -> Vec<Node> {
    let Ok(h) = TestHarness::from_source(source) else { return Vec::new() };
    let rt = h.into_runtime();
    let mut out = Vec::new();
    for (i, (name, v)) in rt.storage().globals().iter().enumerate() {
        walk(v, RefLocation::Global, 0, i as u32, Vec::new(), name.to_string(), 0, &mut out);
    }
    let mut ids: Vec<_> = rt.storage().instances().keys().copied().collect();
    ids.sort_by_key(|id| id.0);
    for id in ids {
        let inst = rt.storage().get_instance(id).expect("instance");
        for (i, (name, v)) in inst.variables.iter().enumerate() {
            walk(v, RefLocation::Instance, id.0, i as u32, Vec::new(), format!("#{}.{name}", id.0), 0, &mut out);
        }
    }
    out
}

/// Boundary indices of one dimension `lo..=hi`.
pub fn index_values(lo: i64, hi: i64) -> Vec<i64> {
    let mut v = vec![
        lo,
        hi,
        lo.wrapping_sub(1),
        hi.wrapping_add(1),
        lo + (hi - lo) / 2,
        0,
        -1,
        1,
        i64::MIN,
        i64::MIN + 1,
        i64::MAX,
        i64::MAX - 1,
        // around the point where `index - bound` (or `bound - index`) leaves i64
        i64::MIN.wrapping_add(lo),
        i64::MIN.wrapping_add(lo).wrapping_sub(1),
        i64::MAX.wrapping_add(lo),
        i64::MAX.wrapping_add(lo).wrapping_add(1),
        i64::MIN.wrapping_add(hi),
        i64::MAX.wrapping_add(hi),
        // around the i32 / u32 range (an index narrowed on the way)
        i32::MAX as i64 + 1,
        i32::MIN as i64 - 1,
        u32::MAX as i64 + 1 + lo,
    ];
    let mut seen = std::collections::HashSet::new();
    v.retain(|x| seen.insert(*x));
    v
}

/// A path tail for a node: (description, segments).
#[derive(Clone, Debug)]
pub struct Probe {
    pub node: usize,
    pub what: String,
    pub tail: Vec<Seg>,
}

/// The deterministic sweep: every array node x dimension x boundary index (the other dimensions at
/// their lower bound), arity faults, every struct node x field-name variant, segments behind leaves.
pub fn sweep(nodes: &[Node]) -> Vec<Probe> {
    let mut v = Vec::new();
    for (n, node) in nodes.iter().enumerate() {
        match &node.kind {
            NodeKind::Array(dims) => {
                let lower: Vec<i64> = dims.iter().map(|d| d.0).collect();
                for (d, (lo, hi)) in dims.iter().enumerate() {
                    for x in index_values(*lo, *hi) {
                        let mut idx = lower.clone();
                        idx[d] = x;
                        v.push(Probe { node: n, what: format!("dim{d}={x}"), tail: vec![Seg::Index(idx)] });
                    }
                }
                v.push(Probe { node: n, what: "no-indices".into(), tail: vec![Seg::Index(vec![])] });
                v.push(Probe { node: n, what: "one-index-short".into(), tail: vec![Seg::Index(lower[1..].to_vec())] });
                let mut long = lower.clone();
                long.push(0);
                v.push(Probe { node: n, what: "one-index-more".into(), tail: vec![Seg::Index(long)] });
                v.push(Probe { node: n, what: "field-of-array".into(), tail: vec![Seg::Field("a".into())] });
                v.push(Probe { node: n, what: "whole-array".into(), tail: vec![] });
            }
            NodeKind::Struct(fields) => {
                for f in fields {
                    v.push(Probe { node: n, what: format!("field-{f}-uppercase"), tail: vec![Seg::Field(f.to_ascii_uppercase())] });
                }
                v.push(Probe { node: n, what: "field-unknown".into(), tail: vec![Seg::Field("nosuch".into())] });
                v.push(Probe { node: n, what: "field-empty-name".into(), tail: vec![Seg::Field(String::new())] });
                v.push(Probe { node: n, what: "index-of-struct".into(), tail: vec![Seg::Index(vec![0])] });
                v.push(Probe { node: n, what: "whole-struct".into(), tail: vec![] });
            }
            NodeKind::Scalar | NodeKind::Instance => {
                if !node.prefix.is_empty() || matches!(node.kind, NodeKind::Instance) {
                    v.push(Probe { node: n, what: "leaf".into(), tail: vec![] });
                    v.push(Probe { node: n, what: "index-behind-leaf".into(), tail: vec![Seg::Index(vec![0])] });
                    v.push(Probe { node: n, what: "field-behind-leaf".into(), tail: vec![Seg::Field("a".into())] });
                }
            }
        }
    }
    v
}

fn string_idx(m: &mut BytecodeModule, s: &str) -> u32 {
    let Some(SectionData::StringTable(t)) = m.section_mut(SectionId::StringTable) else { return 0 };
    if let Some(i) = t.entries.iter().position(|e| e.as_str() == s) {
        return i as u32;
    }
    t.entries.push(SmolStr::new(s));
    (t.entries.len() - 1) as u32
}

fn ref_entry(m: &mut BytecodeModule, node: &Node, tail: &[Seg]) -> RefEntry {
    let mut segments = Vec::new();
    for s in node.prefix.iter().chain(tail.iter()) {
        segments.push(match s {
            Seg::Index(v) => RefSegment::Index(v.clone()),
            Seg::Field(f) => RefSegment::Field { name_idx: string_idx(m, f) },
        });
    }
    RefEntry { location: node.loc, owner_id: node.owner, offset: node.offset, segments }
}

/// Append `entries` to the REF_TABLE and name them in the first task of the first resource
/// (`placement`: 0 = behind the task's own references, 1 = in front of them, 2 = instead of them).
/// Returns false when the module has no such task.
pub fn install(m: &mut BytecodeModule, entries: Vec<RefEntry>, placement: u64) -> bool {
    let Some(SectionData::RefTable(t)) = m.section_mut(SectionId::RefTable) else { return false };
    let first = t.entries.len() as u32;
    let n = entries.len() as u32;
    t.entries.extend(entries);
    let Some(SectionData::ResourceMeta(meta)) = m.section_mut(SectionId::ResourceMeta) else { return false };
    let Some(task) = meta.resources.first_mut().and_then(|r| r.tasks.first_mut()) else { return false };
    let new: Vec<u32> = (first..first + n).collect();
    match placement {
        0 => task.fb_ref_idx.extend(new),
        1 => {
            let mut v = new;
            v.extend(task.fb_ref_idx.iter().copied());
            task.fb_ref_idx = v;
        }
        _ => task.fb_ref_idx = new,
    }
    true
}

pub fn show_tail(node: &Node, tail: &[Seg]) -> String {
    let mut s = node.name.clone();
    for seg in tail {
        match seg {
            Seg::Index(v) => s.push_str(&format!("[{}]", v.iter().map(|i| i.to_string()).collect::<Vec<_>>().join(","))),
            Seg::Field(f) => s.push_str(&format!(".{f:?}")),
        }
    }
    s
}

/// One deterministic sweep container.
pub fn sweep_module(base: &BytecodeModule, nodes: &[Node], p: &Probe, k: usize) -> (BytecodeModule, String) {
    let mut m = base.clone();
    let node = &nodes[p.node];
    let e = ref_entry(&mut m, node, &p.tail);
    let placement = (k % 3) as u64;
    install(&mut m, vec![e], placement);
    (m, format!("fb ref {} ({}) placement={placement}", show_tail(node, &p.tail), p.what))
}

/// A random tail for a node: mostly one more step that fits the node's kind, with boundary values.
fn random_tail(rng: &mut Rng, node: &Node) -> Vec<Seg> {
    let mut tail = Vec::new();
    match &node.kind {
        NodeKind::Array(dims) => {
            let mut idx: Vec<i64> = dims
                .iter()
                .map(|(lo, hi)| {
                    if rng.chance(1, 2) {
                        rng.range(*lo, *hi)
                    } else {
                        *rng.pick(&index_values(*lo, *hi))
                    }
                })
                .collect();
            match rng.below(12) {
                0 => {
                    idx.pop();
                }
                1 => idx.push(*rng.pick(&[0, 1, -1, i64::MIN, i64::MAX])),
                _ => {}
            }
            tail.push(Seg::Index(idx));
        }
        NodeKind::Struct(fields) => {
            let f = if fields.is_empty() || rng.chance(1, 5) {
                rng.pick(&["nosuch", "", "A", "arr "]).to_string()
            } else {
                let f = rng.pick(fields).clone();
                if rng.chance(1, 6) {
                    f.to_ascii_uppercase()
                } else {
                    f
                }
            };
            tail.push(Seg::Field(f));
        }
        _ => {}
    }
    if rng.chance(1, 5) {
        tail.push(if rng.bool() {
            Seg::Index(vec![*rng.pick(&[0, 1, -1, i64::MIN, i64::MAX])])
        } else {
            Seg::Field(rng.pick(&["a", "arr", "w", "inner", "list", "x"]).to_string())
        });
    }
    tail
}

/// A random container with 1..3 path references in the first task.
pub fn random_module(rng: &mut Rng, base: &BytecodeModule, nodes: &[Node]) -> (BytecodeModule, Vec<String>) {
    let mut m = base.clone();
    let mut notes = Vec::new();
    let mut entries = Vec::new();
    if nodes.is_empty() {
        return (m, notes);
    }
    for _ in 0..1 + rng.below(3) {
        let node = &nodes[rng.below(nodes.len() as u64) as usize];
        let tail = random_tail(rng, node);
        let mut e = ref_entry(&mut m, node, &tail);
        let mut what = show_tail(node, &tail);
        if rng.chance(1, 8) {
            // another root: location, owner or offset off by a boundary value
            match rng.below(5) {
                0 => e.location = *rng.pick(&[RefLocation::Local, RefLocation::Retain, RefLocation::Io, RefLocation::Global, RefLocation::Instance]),
                1 => e.owner_id = *rng.pick(&[0, 1, 2, 3, 7, u32::MAX]),
                2 => e.offset = e.offset.wrapping_add(1),
                3 => e.offset = *rng.pick(&[0, 1, 1000, u32::MAX, u32::MAX - 1]),
                _ => e.offset = e.offset.wrapping_sub(1),
            }
            what.push_str(&format!(" root={:?}/{}/{}", e.location, e.owner_id, e.offset));
        }
        notes.push(format!("fb ref {what}"));
        entries.push(e);
    }
    let placement = rng.below(3);
    install(&mut m, entries, placement);
    notes.push(format!("placement={placement}"));
    (m, notes)
}
