//! Generator of small Structured Text projects that exercise every section of the container:
//! user types (enum, struct, array, alias, subrange), function blocks with methods, classes,
//! interfaces, functions with default parameters, string/struct/array constants, direct addresses
//! (I/O map), RETAIN variables, CONFIGURATION with resources, tasks (periodic, SINGLE) and FB task
//! bindings.

use crate::rng::Rng;

pub struct GenProgram {
    pub source: String,
    pub features: Vec<&'static str>,
}

fn ident(rng: &mut Rng, base: &str) -> String {
    let suffixes = ["", "1", "_a", "X", "Val", "_2", "é"];
    let s = *rng.pick(&suffixes);
    // non-ASCII identifiers are not accepted by the lexer; use them in strings only
    if s == "é" {
        format!("{base}_u")
    } else {
        format!("{base}{s}")
    }
}

pub fn gen_program(rng: &mut Rng) -> GenProgram {
    let mut f: Vec<&'static str> = Vec::new();
    let mut types = String::new();
    let mut pous = String::new();
    let mut main_vars = String::new();
    let mut main_body = String::new();
    let mut globals = String::new();

    let use_enum = rng.chance(1, 2);
    let use_struct = rng.chance(1, 2);
    let use_array = rng.chance(1, 2);
    let use_alias = rng.chance(1, 3);
    let use_subrange = rng.chance(1, 3);
    let use_fb = rng.chance(2, 3);
    let use_method = use_fb && rng.chance(1, 2);
    let use_class = rng.chance(1, 3);
    let use_iface = use_class && rng.chance(1, 2);
    let use_func = rng.chance(1, 2);
    let use_io = rng.chance(1, 2);
    let use_retain = rng.chance(1, 3);
    let use_string = rng.chance(1, 2);
    let use_config = rng.chance(4, 5);
    let use_fb_task = use_config && use_fb && rng.chance(1, 3);
    let use_second_prog = use_config && rng.chance(1, 3);
    let use_loops = rng.chance(2, 3);
    let use_extends = use_fb && rng.chance(1, 4);

    let counter = ident(rng, "counter");
    main_vars.push_str(&format!("    {counter} : INT := {};\n", rng.range(-5, 300)));
    main_body.push_str(&format!("{counter} := {counter} + {};\n", rng.range(1, 9)));

    if use_enum {
        f.push("enum");
        types.push_str("  Color : (Red, Green, Blue);\n");
        main_vars.push_str("    col : Color := Color#Green;\n");
        main_body.push_str("IF col = Color#Green THEN col := Color#Blue; END_IF;\n");
    }
    if use_struct {
        f.push("struct");
        types.push_str("  Pt : STRUCT x : INT; y : DINT; END_STRUCT;\n");
        main_vars.push_str("    p : Pt;\n");
        main_body.push_str(&format!("p.x := {counter};\np.y := p.y + 1;\n"));
    }
    if use_array {
        f.push("array");
        let hi = rng.range(1, 6);
        types.push_str(&format!("  Arr : ARRAY[0..{hi}] OF INT;\n"));
        main_vars.push_str("    arr : Arr;\n");
        main_vars.push_str(&format!("    grid : ARRAY[1..2, 0..{hi}] OF BOOL;\n"));
        main_body.push_str(&format!("arr[{}] := {counter};\n", rng.range(0, hi)));
        main_body.push_str("grid[1, 0] := TRUE;\n");
    }
    if use_alias {
        f.push("alias");
        types.push_str("  Speed : INT;\n");
        main_vars.push_str("    sp : Speed := 3;\n");
        main_body.push_str("sp := sp + 1;\n");
    }
    if use_subrange {
        f.push("subrange");
        types.push_str(&format!("  Small : INT(0..{});\n", rng.range(5, 100)));
        main_vars.push_str("    sm : Small := 2;\n");
        main_body.push_str("sm := 3;\n");
    }
    if use_string {
        f.push("string");
        let texts = ["hello", "", "a", "abc", "ünï", "x y z", "twelve chars"];
        main_vars.push_str(&format!("    s : STRING := '{}';\n", rng.pick(&texts)));
        main_vars.push_str("    ws : WSTRING := \"wide\";\n");
        main_body.push_str("s := 'next';\n");
    }
    if use_fb {
        f.push("fb");
        pous.push_str(
            "FUNCTION_BLOCK Ctr\nVAR_INPUT en : BOOL; END_VAR\nVAR_OUTPUT q : INT; END_VAR\nVAR PUBLIC n : INT := 0; END_VAR\n",
        );
        if use_method {
            f.push("method");
            pous.push_str("METHOD PUBLIC Bump : INT\nVAR_INPUT d : INT; END_VAR\nn := n + d;\nBump := n;\nEND_METHOD\n");
        }
        pous.push_str("IF en THEN n := n + 1; END_IF;\nq := n;\nEND_FUNCTION_BLOCK\n\n");
        main_vars.push_str("    c : Ctr;\n");
        main_body.push_str(&format!("c(en := TRUE);\n{counter} := c.q;\n"));
        if use_method {
            main_body.push_str(&format!("{counter} := c.Bump(INT#2);\n"));
        }
        if use_extends {
            f.push("extends");
            pous.push_str("FUNCTION_BLOCK Ctr2 EXTENDS Ctr\nVAR PUBLIC extra : INT := 1; END_VAR\nMETHOD PUBLIC Twice : INT\nTwice := n + n + extra;\nEND_METHOD\nEND_FUNCTION_BLOCK\n\n");
            main_vars.push_str("    c2 : Ctr2;\n");
            main_body.push_str(&format!("{counter} := c2.Twice();\n"));
        }
        if rng.chance(1, 2) {
            f.push("stdfb");
            main_vars.push_str("    ton : TON;\n    edge : R_TRIG;\n");
            main_body.push_str("ton(IN := TRUE, PT := T#5s);\nedge(CLK := ton.Q);\n");
        }
    }
    if use_class {
        f.push("class");
        if use_iface {
            f.push("interface");
            pous.push_str("INTERFACE ICounter\nMETHOD Inc : INT\nVAR_INPUT delta : INT; END_VAR\nEND_METHOD\nEND_INTERFACE\n\n");
            pous.push_str("CLASS Counter IMPLEMENTS ICounter\n");
        } else {
            pous.push_str("CLASS Counter\n");
        }
        pous.push_str("VAR PUBLIC value : INT := INT#0; END_VAR\nMETHOD PUBLIC Inc : INT\nVAR_INPUT delta : INT; END_VAR\nvalue := value + delta;\nInc := value;\nEND_METHOD\nEND_CLASS\n\n");
        main_vars.push_str("    cls : Counter;\n");
        main_body.push_str(&format!("{counter} := cls.Inc(INT#1);\n"));
        if use_iface {
            main_vars.push_str("    ic : ICounter;\n");
            main_body.push_str(&format!("ic := cls;\n{counter} := ic.Inc(INT#1);\n"));
        }
    }
    if use_func {
        f.push("function");
        let dflt = rng.range(0, 50);
        pous.push_str(&format!(
            "FUNCTION Add2 : INT\nVAR_INPUT a : INT; b : INT := {dflt}; END_VAR\nAdd2 := a + b;\nEND_FUNCTION\n\n"
        ));
        main_body.push_str(&format!("{counter} := Add2(a := {counter});\n"));
    }
    if use_io {
        f.push("io");
        main_vars.push_str(&format!("    inp AT %IX{}.{} : BOOL;\n", rng.range(0, 3), rng.range(0, 7)));
        main_vars.push_str(&format!("    outp AT %QW{} : INT;\n", rng.range(0, 9)));
        if rng.chance(1, 2) {
            main_vars.push_str(&format!("    mem AT %MW{} : INT;\n", rng.range(0, 5)));
        }
        main_body.push_str(&format!("IF inp THEN outp := {counter}; END_IF;\n"));
    }
    if use_retain {
        f.push("retain");
        main_vars.push_str(&format!(
            "END_VAR\nVAR RETAIN\n    keep : DINT := {};\n",
            rng.range(0, 100000)
        ));
        main_body.push_str("keep := keep + 1;\n");
    }
    if use_loops {
        f.push("loops");
        main_body.push_str(&format!(
            "WHILE {counter} < 3 DO {counter} := {counter} + 1; END_WHILE;\nFOR i := 0 TO 3 DO {counter} := {counter} + i; END_FOR;\nCASE {counter} OF 1: {counter} := 2; 2, 3: {counter} := 4; ELSE {counter} := 0; END_CASE;\nREPEAT {counter} := {counter} + 1; UNTIL {counter} > 5 END_REPEAT;\n"
        ));
        main_vars.push_str("    i : INT;\n");
    }

    // encoder fallback / rollback statements at the start, after the first statement or at the end
    if rng.chance(1, 2) {
        f.push("fallback");
        main_vars.push_str("    fx : INT := 0;\n    fi : INT := 0;\n    fk : INT := 0;\n    farr : ARRAY[0..3] OF INT;\n");
        if !use_func {
            pous.push_str("FUNCTION Add2 : INT\nVAR_INPUT a : INT; b : INT := 2; END_VAR\nAdd2 := a + b;\nEND_FUNCTION\n\n");
        }
        let rename = |stmt: &str| -> String {
            let mut out = String::new();
            let mut word = String::new();
            let flush = |word: &mut String, out: &mut String| {
                match word.as_str() {
                    "x" => out.push_str("fx"),
                    "i" => out.push_str("fi"),
                    "k" => out.push_str("fk"),
                    "arr" => out.push_str("farr"),
                    w => out.push_str(w),
                }
                word.clear();
            };
            for ch in stmt.chars() {
                if ch.is_ascii_alphanumeric() || ch == '_' {
                    word.push(ch);
                } else {
                    flush(&mut word, &mut out);
                    out.push(ch);
                }
            }
            flush(&mut word, &mut out);
            out
        };
        let (mut at_start, mut at_mid, mut at_end) = (String::new(), String::new(), String::new());
        for _ in 0..1 + rng.below(3) {
            let (_, stmt) = ROLLBACK_SITES[rng.below(ROLLBACK_SITES.len() as u64) as usize];
            let stmt = rename(stmt);
            match rng.below(3) {
                0 => at_start.push_str(&stmt),
                1 => at_mid.push_str(&stmt),
                _ => at_end.push_str(&stmt),
            }
        }
        // the first statement of the body is the one-line counter increment
        let cut = main_body.find('\n').map(|p| p + 1).unwrap_or(0);
        let (first, rest) = main_body.split_at(cut);
        main_body = format!("{at_start}{first}{at_mid}{rest}{at_end}");
    }

    let mut wide_globals = String::new();
    // a few more globals: any elementary / sized-string / user type, with or without initial value;
    // user types used here are declared nowhere else (late additions to the type table)
    if use_config && rng.chance(2, 3) {
        f.push("wide-globals");
        for g in 0..1 + rng.below(4) {
            let ty = rng.below(DECL_TYPES.len() as u64) as usize;
            let (tname, init) = DECL_TYPES[ty];
            let user_decl = match tname {
                "Color" => if use_enum { "" } else { "  Color : (Red, Green, Blue);\n" },
                "Small" => if use_subrange { "" } else { "  Small : SINT(0..10);\n" },
                "Speed" => if use_alias { "" } else { "  Speed : UDINT;\n" },
                "Pt" | "Pts" => if use_struct { "" } else { "  Pt : STRUCT px : LREAL; py : USINT; END_STRUCT;\n" },
                "Label" => "  Label : STRING[7];\n",
                "Names" => "  Names : ARRAY[0..2] OF WSTRING[4];\n",
                "Rec" => "  Rec : STRUCT tag : STRING[3]; when : LDT; flags : LWORD; END_STRUCT;\n",
                "Grid" => "  Grid : ARRAY[1..2, 0..1] OF TOD;\n",
                _ => "",
            };
            // the generator's own Color / Small / Speed / Pt differ in shape: skip instead of clashing
            if (tname == "Color" && use_enum) || (tname == "Small" && use_subrange) || (tname == "Speed" && use_alias)
                || ((tname == "Pt" || tname == "Pts") && use_struct)
            {
                continue;
            }
            if !user_decl.is_empty() && !types.contains(user_decl) {
                types.push_str(user_decl);
            }
            if tname == "Pts" && !types.contains("  Pts : ") {
                types.push_str("  Pts : ARRAY[0..1] OF Pt;\n");
            }
            let init = if !init.is_empty() && rng.chance(2, 3) { format!(" := {init}") } else { String::new() };
            wide_globals.push_str(&format!("    wg{g} : {tname}{init};\n"));
        }
    }

    let mut src = String::new();
    if !types.is_empty() {
        src.push_str("TYPE\n");
        src.push_str(&types);
        src.push_str("END_TYPE\n\n");
    }
    src.push_str(&pous);
    src.push_str("PROGRAM Main\nVAR\n");
    src.push_str(&main_vars);
    src.push_str("END_VAR\n");
    src.push_str(&main_body);
    src.push_str("END_PROGRAM\n\n");
    if use_second_prog {
        f.push("two-programs");
        src.push_str("PROGRAM Aux\nVAR k : DINT := 0; END_VAR\nk := k + 1;\nEND_PROGRAM\n\n");
    }
    if use_config {
        f.push("config");
        globals.push_str("    trigger : BOOL := FALSE;\n");
        globals.push_str(&wide_globals);
        if rng.chance(1, 2) {
            globals.push_str(&format!("    gcount : DINT := {};\n", rng.range(0, 9)));
        }
        let named_resource = rng.chance(2, 3);
        src.push_str("CONFIGURATION C\nVAR_GLOBAL\n");
        src.push_str(&globals);
        src.push_str("END_VAR\n");
        if named_resource {
            src.push_str("RESOURCE R ON CPU\n");
        }
        let ms = *rng.pick(&[1, 5, 10, 100, 1000]);
        src.push_str(&format!("TASK Fast (INTERVAL := T#{ms}ms, PRIORITY := {});\n", rng.range(0, 3)));
        let ev = rng.chance(1, 2);
        if ev {
            f.push("single-task");
            src.push_str(&format!("TASK Ev (SINGLE := trigger, PRIORITY := {});\n", rng.range(0, 3)));
        }
        if use_fb_task {
            f.push("fb-task");
            src.push_str("PROGRAM P1 WITH Fast : Main (c WITH Fast);\n");
        } else if rng.chance(1, 5) {
            f.push("background-program");
            src.push_str("PROGRAM P1 : Main;\n");
        } else {
            src.push_str("PROGRAM P1 WITH Fast : Main;\n");
        }
        if use_second_prog {
            src.push_str(&format!("PROGRAM P2 WITH {} : Aux;\n", if ev { "Ev" } else { "Fast" }));
        }
        if named_resource {
            src.push_str("END_RESOURCE\n");
        }
        src.push_str("END_CONFIGURATION\n");
    }
    GenProgram { source: src, features: f }
}

/// Statements that make the bytecode encoder take one of its fallback / rollback paths
/// (codegen.rs: a statement that cannot be encoded is replaced by a NOP and everything emitted for it
/// - code AND debug entries - is rolled back).  Variables: x, i, k : INT; arr : ARRAY[0..3] OF INT;
/// function Add2.  `arr[i]` (variable index outside a function block) passes `expr_supported` but
/// cannot be emitted; a call is rejected by `expr_supported` itself.
pub const ROLLBACK_SITES: &[(&str, &str)] = &[
    ("repeat-until-index", "REPEAT\n  x := x + 1;\n  i := i + 1;\nUNTIL (arr[i] > 0) OR (i >= 3)\nEND_REPEAT;\n"),
    ("repeat-until-index-long-body", "REPEAT\n  x := x + 1;\n  i := i + 1;\n  IF x > 3 THEN x := 0; END_IF;\n  k := k + x;\nUNTIL arr[i] = 7\nEND_REPEAT;\n"),
    ("repeat-until-call", "REPEAT\n  x := x + 1;\n  i := i + 1;\nUNTIL Add2(a := x) > 3\nEND_REPEAT;\n"),
    ("repeat-ok", "REPEAT\n  x := x + 1;\n  i := i + 1;\nUNTIL i >= 3\nEND_REPEAT;\n"),
    ("if-elsif-index", "IF x > 100 THEN\n  x := 1;\n  i := 2;\nELSIF arr[i] > 0 THEN\n  x := 3;\nELSE\n  x := 4;\nEND_IF;\n"),
    ("if-second-elsif-index", "IF x > 100 THEN\n  x := 1;\n  i := 2;\nELSIF x > 50 THEN\n  k := 1;\n  k := 2;\nELSIF arr[i] > 0 THEN\n  x := 3;\nEND_IF;\n"),
    ("if-cond-index", "IF arr[i] > 0 THEN\n  x := 1;\n  i := 1;\nEND_IF;\n"),
    ("if-cond-call", "IF Add2(a := x) > 1 THEN\n  x := 1;\n  i := 1;\nEND_IF;\n"),
    ("if-elsif-call", "IF x > 100 THEN\n  x := 1;\n  i := 2;\nELSIF Add2(a := x) > 1 THEN\n  x := 3;\nEND_IF;\n"),
    ("while-index", "WHILE arr[i] > 5 DO\n  x := x + 1;\n  i := i + 1;\nEND_WHILE;\n"),
    ("for-start-index", "FOR k := arr[i] TO 3 DO\n  x := x + 1;\n  i := 0;\nEND_FOR;\n"),
    ("for-end-index", "FOR k := 0 TO arr[i] DO\n  x := x + 1;\n  i := 0;\nEND_FOR;\n"),
    ("for-step-index", "FOR k := 0 TO 3 BY arr[i] + 1 DO\n  x := x + 1;\n  i := 0;\nEND_FOR;\n"),
    ("for-ok", "FOR k := 0 TO 3 DO\n  x := x + 1;\n  i := 0;\nEND_FOR;\n"),
    ("case-index", "CASE arr[i] OF\n  1: x := 1; i := 2;\n  2..3: x := 2;\nELSE\n  x := 0;\nEND_CASE;\n"),
    ("assign-rhs-index", "x := arr[i];\n"),
    ("assign-lhs-index", "arr[i] := x;\n"),
    ("assign-call", "x := Add2(a := x);\n"),
    ("assign-binary-right-index", "x := (x + 1) * arr[i];\n"),
    ("inner-rollback-in-if", "IF x >= 0 THEN\n  REPEAT\n    x := x + 1;\n    i := i + 1;\n  UNTIL (arr[i] > 0) OR (i >= 3)\n  END_REPEAT;\n  x := 5;\nEND_IF;\n"),
    ("outer-rollback-drops-nested", "REPEAT\n  IF x > 1 THEN\n    x := 2;\n    i := 1;\n  END_IF;\n  WHILE k < 2 DO\n    k := k + 1;\n  END_WHILE;\n  i := i + 1;\nUNTIL (arr[i] > 0) OR (i >= 3)\nEND_REPEAT;\n"),
    ("elsif-rollback-drops-nested-loop", "IF x > 100 THEN\n  WHILE i < 2 DO\n    i := i + 1;\n    x := x + 1;\n  END_WHILE;\n  k := 3;\nELSIF arr[i] > 0 THEN\n  x := 3;\nEND_IF;\n"),
    ("rollback-inside-rollback", "REPEAT\n  REPEAT\n    k := k + 1;\n    x := x + 1;\n  UNTIL arr[k] > 0\n  END_REPEAT;\n  i := i + 1;\n  x := x - 1;\nUNTIL (arr[i] > 0) OR (i >= 3)\nEND_REPEAT;\n"),
    ("repeat-in-while-body", "WHILE i < 3 DO\n  REPEAT\n    x := x + 1;\n    i := i + 1;\n  UNTIL arr[i] > 0\n  END_REPEAT;\n  k := k + 1;\nEND_WHILE;\n"),
    ("repeat-in-for-body", "FOR k := 0 TO 2 DO\n  REPEAT\n    x := x + 1;\n    i := i + 1;\n  UNTIL arr[i] > 0\n  END_REPEAT;\n  x := x + k;\nEND_FOR;\n"),
    ("repeat-in-case-branch", "CASE x OF\n  1: REPEAT\n       x := x + 1;\n       i := i + 1;\n     UNTIL arr[i] > 0\n     END_REPEAT;\n     k := 1;\nELSE\n  k := 2;\nEND_CASE;\n"),
];

/// where the statement under test sits in its POU
pub const ROLLBACK_POSITIONS: &[&str] = &["only", "first", "middle", "last"];
/// which kind of POU carries it
pub const ROLLBACK_HOSTS: &[&str] = &["program", "function", "function-block", "method"];

/// A complete project with statement `site` at `position` of a POU of kind `host`.
pub fn rollback_program(site: usize, position: usize, host: usize) -> (String, String) {
    let (name, stmt) = ROLLBACK_SITES[site % ROLLBACK_SITES.len()];
    let pos = ROLLBACK_POSITIONS[position % ROLLBACK_POSITIONS.len()];
    let host_name = ROLLBACK_HOSTS[host % ROLLBACK_HOSTS.len()];
    let before = "x := 10;\nk := x + 1;\n";
    let after = "k := 20;\nx := k - 1;\n";
    let body = match pos {
        "only" => stmt.to_string(),
        "first" => format!("{stmt}{after}"),
        "middle" => format!("{before}{stmt}{after}"),
        _ => format!("{before}{stmt}"),
    };
    let add2 = "FUNCTION Add2 : INT\nVAR_INPUT a : INT; b : INT := 2; END_VAR\nAdd2 := a + b;\nEND_FUNCTION\n\n";
    // in a function block every variable is reached through SELF (dynamic references, `arr[i]` can be
    // emitted); a VAR_EXTERNAL array is not a field of the block
    let vars = "    x : INT := 0;\n    i : INT := 0;\n    k : INT := 0;\n    arr : ARRAY[0..3] OF INT;\n";
    let globals = "CONFIGURATION C\nVAR_GLOBAL\n    garr : ARRAY[0..3] OF INT;\nEND_VAR\nPROGRAM P1 : Main;\nEND_CONFIGURATION\n";
    let ext_body = body.replace("arr[", "garr[");
    let source = match host_name {
        "program" => format!("{add2}PROGRAM Main\nVAR\n{vars}END_VAR\n{body}END_PROGRAM\n"),
        "function" => format!(
            "{add2}FUNCTION Work : INT\nVAR_INPUT seed : INT; END_VAR\nVAR\n{vars}END_VAR\n{body}Work := x;\nEND_FUNCTION\n\nPROGRAM Main\nVAR r : INT; END_VAR\nr := Work(seed := 1);\nEND_PROGRAM\n"
        ),
        "function-block" => format!(
            "{add2}FUNCTION_BLOCK Worker\nVAR_EXTERNAL garr : ARRAY[0..3] OF INT; END_VAR\nVAR\n{vars}END_VAR\n{ext_body}END_FUNCTION_BLOCK\n\nPROGRAM Main\nVAR w : Worker; END_VAR\nw();\nEND_PROGRAM\n\n{globals}"
        ),
        _ => format!(
            "{add2}FUNCTION_BLOCK Worker\nVAR_EXTERNAL garr : ARRAY[0..3] OF INT; END_VAR\nVAR PUBLIC\n{vars}END_VAR\nMETHOD PUBLIC Run : INT\n{ext_body}Run := x;\nEND_METHOD\nEND_FUNCTION_BLOCK\n\nPROGRAM Main\nVAR w : Worker; r : INT; END_VAR\nr := w.Run();\nEND_PROGRAM\n\n{globals}"
        ),
    };
    (format!("{name}/{pos}/{host_name}"), source)
}

/// Declarations: (type text, initial value literal).  Used one at a time so that a type occurs in a
/// single place of the project (late additions to the type table: var meta, retain init, const pool).
pub const DECL_TYPES: &[(&str, &str)] = &[
    ("BOOL", "TRUE"),
    ("SINT", "-5"),
    ("INT", "300"),
    ("DINT", "-70000"),
    ("LINT", "LINT#5000000000"),
    ("USINT", "200"),
    ("UINT", "60000"),
    ("UDINT", "UDINT#4000000000"),
    ("ULINT", "ULINT#9000000000"),
    ("REAL", "1.5"),
    ("LREAL", "-2.25"),
    ("BYTE", "16#FF"),
    ("WORD", "16#FFFF"),
    ("DWORD", "DWORD#16#FFFFFFFF"),
    ("LWORD", "LWORD#16#FFFFFFFFFF"),
    ("TIME", "T#5s"),
    ("LTIME", "LTIME#5s"),
    ("DATE", "D#2024-01-02"),
    ("LDATE", "LDATE#2024-01-02"),
    ("TOD", "TOD#12:30:00"),
    ("LTOD", "LTOD#12:30:00"),
    ("DT", "DT#2024-01-02-12:30:00"),
    ("LDT", "LDT#2024-01-02-12:30:00"),
    ("STRING", "'abc'"),
    ("WSTRING", "\"abc\""),
    ("STRING[10]", "'abc'"),
    ("WSTRING[10]", "\"abc\""),
    ("STRING[1]", "'a'"),
    ("WSTRING[200]", "\"\""),
    ("CHAR", "'a'"),
    ("WCHAR", "\"a\""),
    // user types declared in the TYPE block of decl_program
    ("Color", "Color#Green"),
    ("Small", "3"),
    ("Speed", "7"),
    ("Pt", ""),
    ("Label", "'xy'"),
    ("Names", ""),
    ("Pts", ""),
    ("Rec", ""),
    ("Grid", ""),
    ("ARRAY[0..2] OF INT", ""),
    ("ARRAY[0..1] OF STRING[5]", ""),
    ("ARRAY[1..2, 0..1] OF BOOL", ""),
];

/// where the single declaration goes
pub const DECL_PLACES: &[&str] = &[
    "global", "global-retain", "global-constant", "local", "local-retain", "fb-var", "fb-input", "function-input",
    "struct-field-of-global", "struct-field-of-local", "array-of-global",
];

/// A project whose only use of `DECL_TYPES[ty]` is one declaration at `DECL_PLACES[place]`.
pub fn decl_program(ty: usize, place: usize, with_init: bool) -> (String, String) {
    let (tname, init) = DECL_TYPES[ty % DECL_TYPES.len()];
    let pname = DECL_PLACES[place % DECL_PLACES.len()];
    let init = if with_init && !init.is_empty() { format!(" := {init}") } else { String::new() };
    let decl = format!("    v : {tname}{init};\n");
    // user types are declared only when used, so that nothing else mentions their component types
    let user = |t: &str| -> &'static str {
        match t {
            "Color" => "  Color : (Red, Green, Blue);\n",
            "Small" => "  Small : SINT(0..10);\n",
            "Speed" => "  Speed : UDINT;\n",
            "Pt" => "  Pt : STRUCT px : LREAL; py : USINT; END_STRUCT;\n",
            "Label" => "  Label : STRING[7];\n",
            "Names" => "  Names : ARRAY[0..2] OF WSTRING[4];\n",
            "Pts" => "  Pt : STRUCT px : LREAL; py : USINT; END_STRUCT;\n  Pts : ARRAY[0..1] OF Pt;\n",
            "Rec" => "  Rec : STRUCT tag : STRING[3]; when : LDT; flags : LWORD; END_STRUCT;\n",
            "Grid" => "  Grid : ARRAY[1..2, 0..1] OF TOD;\n",
            _ => "",
        }
    };
    let mut types = String::from(user(tname));
    let (mut globals, mut locals, mut pous) = (String::new(), String::new(), String::new());
    let mut body = String::from("n := n + 1;\n");
    match pname {
        "global" => globals = format!("VAR_GLOBAL\n{decl}END_VAR\n"),
        "global-retain" => globals = format!("VAR_GLOBAL RETAIN\n{decl}END_VAR\n"),
        "global-constant" => globals = format!("VAR_GLOBAL CONSTANT\n{decl}END_VAR\n"),
        "local" => locals = format!("VAR\n{decl}END_VAR\n"),
        "local-retain" => locals = format!("VAR RETAIN\n{decl}END_VAR\n"),
        "fb-var" => {
            pous = format!("FUNCTION_BLOCK Holder\nVAR\n{decl}    m : INT;\nEND_VAR\nm := m + 1;\nEND_FUNCTION_BLOCK\n\n");
            locals = "VAR\n    h : Holder;\nEND_VAR\n".into();
            body.push_str("h();\n");
        }
        "fb-input" => {
            pous = format!("FUNCTION_BLOCK Holder\nVAR_INPUT\n{decl}END_VAR\nVAR m : INT; END_VAR\nm := m + 1;\nEND_FUNCTION_BLOCK\n\n");
            locals = "VAR\n    h : Holder;\nEND_VAR\n".into();
            body.push_str("h();\n");
        }
        "function-input" => {
            pous = format!("FUNCTION Take : INT\nVAR_INPUT\n{decl}END_VAR\nTake := 1;\nEND_FUNCTION\n\n");
        }
        "struct-field-of-global" => {
            types.push_str(&format!("  Wrap : STRUCT\n    inner : {tname};\n    pad : BOOL;\n  END_STRUCT;\n"));
            globals = "VAR_GLOBAL\n    w : Wrap;\nEND_VAR\n".into();
        }
        "struct-field-of-local" => {
            types.push_str(&format!("  Wrap : STRUCT\n    inner : {tname};\n    pad : BOOL;\n  END_STRUCT;\n"));
            locals = "VAR\n    w : Wrap;\nEND_VAR\n".into();
        }
        _ => {
            types.push_str(&format!("  Many : ARRAY[0..1] OF {tname};\n"));
            globals = "VAR_GLOBAL\n    mm : Many;\nEND_VAR\n".into();
        }
    }
    let mut src = String::new();
    if !types.is_empty() {
        src.push_str(&format!("TYPE\n{types}END_TYPE\n\n"));
    }
    src.push_str(&pous);
    src.push_str(&format!("PROGRAM Main\nVAR\n    n : DINT := 0;\nEND_VAR\n{locals}{body}END_PROGRAM\n\n"));
    src.push_str(&format!("CONFIGURATION C\n{globals}TASK T (INTERVAL := T#10ms, PRIORITY := 0);\nPROGRAM P1 WITH T : Main;\nEND_CONFIGURATION\n"));
    (format!("{tname}/{pname}/init={}", with_init as u8), src)
}

/// Finding C11-string-default-param (fixed in c48da62): the encoder used to return an error for an input
/// parameter whose default value is a string / character literal.  These combinations are always part
/// of the declaration block, and the original witness is replayed as the `known-witness` case.
pub fn decl_hits_string_default(ty: usize, place: usize, with_init: bool) -> bool {
    let (tname, init) = DECL_TYPES[ty % DECL_TYPES.len()];
    let pname = DECL_PLACES[place % DECL_PLACES.len()];
    with_init
        && !init.is_empty()
        && matches!(pname, "fb-input" | "function-input")
        && (tname.contains("STRING") || tname.contains("CHAR") || tname == "Label")
}

pub const STRING_DEFAULT_WITNESS: &str = "FUNCTION Take : INT\nVAR_INPUT v : STRING := 'abc'; END_VAR\nTake := 1;\nEND_FUNCTION\n\nPROGRAM Main\nVAR n : DINT := 0; END_VAR\nn := n + 1;\nEND_PROGRAM\n";

/// The runtime every mutated or random container is applied to: no struct/array values (so that a
/// reference path never resolves), one user FB instance inside the program, tasks from a
/// CONFIGURATION.
pub const SIMPLE_RUNTIME: &str = r#"
FUNCTION_BLOCK FB
VAR_INPUT IN : BOOL; END_VAR
VAR_OUTPUT OUT : BOOL; END_VAR
OUT := IN;
END_FUNCTION_BLOCK

PROGRAM Main
VAR
    fb : FB;
    n : INT := 0;
END_VAR
n := n + 1;
END_PROGRAM

PROGRAM Aux
VAR k : DINT := 0; END_VAR
k := k + 1;
END_PROGRAM

CONFIGURATION C
VAR_GLOBAL
    trigger : BOOL := FALSE;
    level : INT := 3;
END_VAR
RESOURCE R ON CPU
TASK T (INTERVAL := T#10ms, PRIORITY := 1);
TASK E (SINGLE := trigger, PRIORITY := 0);
PROGRAM Main WITH T : Main (fb WITH T);
PROGRAM Aux WITH E : Aux;
END_RESOURCE
END_CONFIGURATION
"#;
