//! Hand-built containers (through the pub structs of `trust_runtime::bytecode`), a visitor over
//! every scalar / count / enum field of a module, and the structure-aware mutation engine.

use crate::rng::Rng;
use smol_str::SmolStr;
use trust_runtime::bytecode::*;

// ---------------------------------------------------------------------------------------------
// a module that uses every section, every type kind, class metadata, every opcode class
// ---------------------------------------------------------------------------------------------

pub fn type_offsets(entries: &[TypeEntry]) -> Vec<u32> {
    let mut offsets = Vec::new();
    let mut cursor = 4u32 + entries.len() as u32 * 4;
    for e in entries {
        offsets.push(cursor);
        let payload = match &e.data {
            TypeData::Primitive { .. } => 4,
            TypeData::Array { dims, .. } => 8 + dims.len() * 16,
            TypeData::Struct { fields } | TypeData::Union { fields } => 4 + fields.len() * 8,
            TypeData::Enum { variants, .. } => 8 + variants.len() * 12,
            TypeData::Alias { .. } => 4,
            TypeData::Subrange { .. } => 20,
            TypeData::Reference { .. } => 4,
            TypeData::Pou { .. } => 4,
            TypeData::Interface { methods } => 4 + methods.len() * 8,
        };
        cursor += 8 + payload as u32;
    }
    offsets
}

fn prim(id: u16, name: Option<u32>) -> TypeEntry {
    TypeEntry {
        kind: TypeKind::Primitive,
        name_idx: name,
        data: TypeData::Primitive { prim_id: id, max_length: 0 },
    }
}

pub fn section(id: SectionId, data: SectionData) -> Section {
    Section { id: id.as_raw(), flags: 0, data }
}

/// Code of the program POU: one instruction of every operand class, a forward and a backward jump.
pub fn rich_code() -> Vec<u8> {
    let mut c = Vec::new();
    c.push(0x00); // 0: NOP
    c.push(0x02); // 1: JMP +1 -> 7
    c.extend_from_slice(&1i32.to_le_bytes());
    c.push(0x01); // 6
    c.push(0x05); // 7: CALL pou 5
    c.extend_from_slice(&5u32.to_le_bytes());
    c.push(0x08); // 12: CALL_VIRTUAL iface type 11 slot 0
    c.extend_from_slice(&11u32.to_le_bytes());
    c.extend_from_slice(&0u32.to_le_bytes());
    c.push(0x10); // 21: const
    c.extend_from_slice(&0u32.to_le_bytes());
    c.push(0x16); // 26: u8 operand
    c.push(3);
    c.push(0x20); // 28: ref
    c.extend_from_slice(&0u32.to_le_bytes());
    c.push(0x60); // 33: type idx
    c.extend_from_slice(&2u32.to_le_bytes());
    c.push(0x70); // 38
    c.extend_from_slice(&7u32.to_le_bytes());
    c.push(0x03); // 43: JMP back to 0: 43+5-48
    c.extend_from_slice(&(-48i32).to_le_bytes());
    c.push(0x04); // 48: JMP to end: 48+5+1 = 54 = len
    c.extend_from_slice(&1i32.to_le_bytes());
    c.push(0x06); // 53
    c
}

/// Instruction starts of `code` (walk with the operand-length table of the format).
pub fn instruction_starts(code: &[u8]) -> Vec<usize> {
    let mut out = Vec::new();
    let mut i = 0;
    while i < code.len() {
        out.push(i);
        i += 1 + match code[i] {
            0x02..=0x05 | 0x07 | 0x10 | 0x20..=0x22 | 0x30 | 0x60 | 0x70 => 4,
            0x08 => 8,
            0x16 => 1,
            _ => 0,
        };
    }
    out
}

pub fn rich_module(rng: &mut Rng) -> BytecodeModule {
    let minor = if rng.chance(1, 6) { 0 } else { 1 };
    let strings: Vec<SmolStr> = [
        "R", "T", "Main", "trigger", "field", "File", "Aux", "IFace", "m", "FBT", "%IX0.0", "x",
        "", "E", "sträng", "a-much-longer-string-that-does-not-fit-inline-in-a-smolstr", "main",
    ]
    .iter()
    .map(|s| SmolStr::new(s))
    .collect();
    let types = vec![
        prim(1, Some(11)),  // 0: 1 byte
        prim(3, None),      // 1: 2 bytes
        TypeEntry {         // 2
            kind: TypeKind::Array,
            name_idx: Some(4),
            data: TypeData::Array { elem_type_id: 1, dims: vec![(0, 2), (-1, -1)] },
        },
        TypeEntry {         // 3
            kind: TypeKind::Struct,
            name_idx: None,
            data: TypeData::Struct {
                fields: vec![Field { name_idx: 4, type_id: 1 }, Field { name_idx: 11, type_id: 0 }],
            },
        },
        TypeEntry {         // 4
            kind: TypeKind::Enum,
            name_idx: Some(13),
            data: TypeData::Enum {
                base_type_id: 1,
                variants: vec![EnumVariant { name_idx: 0, value: 0 }, EnumVariant { name_idx: 1, value: -7 }],
            },
        },
        TypeEntry { kind: TypeKind::Alias, name_idx: None, data: TypeData::Alias { target_type_id: 1 } }, // 5
        TypeEntry {         // 6
            kind: TypeKind::Subrange,
            name_idx: None,
            data: TypeData::Subrange { base_type_id: 1, lower: -3, upper: 10 },
        },
        TypeEntry { kind: TypeKind::Reference, name_idx: None, data: TypeData::Reference { target_type_id: 3 } }, // 7
        TypeEntry {         // 8
            kind: TypeKind::Union,
            name_idx: None,
            data: TypeData::Union { fields: vec![Field { name_idx: 4, type_id: 0 }] },
        },
        TypeEntry { kind: TypeKind::FunctionBlock, name_idx: Some(9), data: TypeData::Pou { pou_id: 2 } }, // 9
        TypeEntry { kind: TypeKind::Class, name_idx: None, data: TypeData::Pou { pou_id: 3 } }, // 10
        TypeEntry {         // 11
            kind: TypeKind::Interface,
            name_idx: Some(7),
            data: TypeData::Interface { methods: vec![InterfaceMethod { name_idx: 8, slot: 0 }] },
        },
        prim(24, None),     // 12: string index
        prim(5, None),      // 13: 8 bytes
        TypeEntry {         // 14: array of struct
            kind: TypeKind::Array,
            name_idx: None,
            data: TypeData::Array { elem_type_id: 3, dims: vec![(1, 2)] },
        },
    ];
    let mut arr_payload = 3u32.to_le_bytes().to_vec();
    for v in [1u16, 2, 3] {
        arr_payload.extend_from_slice(&v.to_le_bytes());
    }
    let mut struct_payload = 2u32.to_le_bytes().to_vec();
    struct_payload.extend_from_slice(&9u16.to_le_bytes());
    struct_payload.push(1);
    let mut arr_struct_payload = 2u32.to_le_bytes().to_vec();
    arr_struct_payload.extend_from_slice(&struct_payload);
    arr_struct_payload.extend_from_slice(&struct_payload);
    let mut union_payload = 1u32.to_le_bytes().to_vec();
    union_payload.push(0);
    let consts = vec![
        ConstEntry { type_id: 0, payload: vec![1] },
        ConstEntry { type_id: 2, payload: arr_payload },
        ConstEntry { type_id: 3, payload: struct_payload },
        ConstEntry { type_id: 4, payload: (-7i64).to_le_bytes().to_vec() },
        ConstEntry { type_id: 5, payload: 300u16.to_le_bytes().to_vec() },
        ConstEntry { type_id: 6, payload: 4u16.to_le_bytes().to_vec() },
        ConstEntry { type_id: 7, payload: 0u32.to_le_bytes().to_vec() },
        ConstEntry { type_id: 12, payload: 14u32.to_le_bytes().to_vec() },
        ConstEntry { type_id: 13, payload: 1u64.to_le_bytes().to_vec() },
        ConstEntry { type_id: 14, payload: arr_struct_payload },
        ConstEntry { type_id: 8, payload: union_payload },
    ];
    let refs = vec![
        RefEntry { location: RefLocation::Global, owner_id: 0, offset: 0, segments: vec![] },
        // in the simple runtime of gen_st.rs: instance 0 is program Main, its variable 0 the FB
        RefEntry {
            location: RefLocation::Instance,
            owner_id: 0,
            offset: 0,
            segments: vec![],
        },
        RefEntry {
            location: RefLocation::Global,
            owner_id: 0,
            offset: 1,
            segments: vec![RefSegment::Index(vec![0, -1]), RefSegment::Field { name_idx: 4 }],
        },
        RefEntry { location: RefLocation::Io, owner_id: 0, offset: 0, segments: vec![] },
        RefEntry { location: RefLocation::Retain, owner_id: 0, offset: 2, segments: vec![] },
        RefEntry { location: RefLocation::Local, owner_id: 0, offset: 0, segments: vec![RefSegment::Index(vec![])] },
        RefEntry { location: RefLocation::Io, owner_id: 1, offset: 3, segments: vec![] },
        RefEntry { location: RefLocation::Io, owner_id: 2, offset: 9, segments: vec![RefSegment::Field { name_idx: 11 }] },
    ];
    let code = rich_code();
    let main_len = code.len() as u32;
    let mut bodies = code;
    bodies.extend_from_slice(&[0x00, 0x06]); // FB body
    bodies.push(0x06); // method body
    bodies.extend_from_slice(&[0x41, 0x06]); // function body
    let pous = vec![
        PouEntry {
            id: 1,
            name_idx: 2,
            kind: PouKind::Program,
            code_offset: 0,
            code_length: main_len,
            local_ref_start: 0,
            local_ref_count: 0,
            return_type_id: None,
            owner_pou_id: None,
            params: vec![],
            class_meta: None,
        },
        PouEntry {
            id: 2,
            name_idx: 9,
            kind: PouKind::FunctionBlock,
            code_offset: main_len,
            code_length: 2,
            local_ref_start: 5,
            local_ref_count: 1,
            return_type_id: None,
            owner_pou_id: None,
            params: vec![ParamEntry { name_idx: 11, type_id: 0, direction: 0, default_const_idx: None }],
            class_meta: Some(PouClassMeta {
                parent_pou_id: None,
                interfaces: vec![InterfaceImpl { interface_type_id: 11, vtable_slots: vec![0] }],
                methods: vec![MethodEntry { name_idx: 8, pou_id: 4, vtable_slot: 0, access: 0, flags: 1 }],
            }),
        },
        PouEntry {
            id: 3,
            name_idx: 13,
            kind: PouKind::Class,
            code_offset: main_len + 2,
            code_length: 0,
            local_ref_start: 0,
            local_ref_count: 0,
            return_type_id: None,
            owner_pou_id: None,
            params: vec![],
            class_meta: Some(PouClassMeta { parent_pou_id: Some(2), interfaces: vec![], methods: vec![] }),
        },
        PouEntry {
            id: 4,
            name_idx: 8,
            kind: PouKind::Method,
            code_offset: main_len + 2,
            code_length: 1,
            local_ref_start: 0,
            local_ref_count: 0,
            return_type_id: Some(1),
            owner_pou_id: Some(2),
            params: vec![],
            class_meta: None,
        },
        PouEntry {
            id: 5,
            name_idx: 6,
            kind: PouKind::Function,
            code_offset: main_len + 3,
            code_length: 2,
            local_ref_start: 0,
            local_ref_count: 0,
            return_type_id: Some(1),
            owner_pou_id: None,
            params: vec![
                ParamEntry { name_idx: 11, type_id: 1, direction: 0, default_const_idx: Some(4) },
                ParamEntry { name_idx: 4, type_id: 0, direction: 2, default_const_idx: None },
            ],
            class_meta: None,
        },
    ];
    let resources = vec![
        ResourceEntry {
            name_idx: 0,
            inputs_size: 1,
            outputs_size: 4,
            memory_size: 0,
            tasks: vec![
                TaskEntry {
                    name_idx: 1,
                    priority: 1,
                    interval_nanos: 10_000_000,
                    single_name_idx: None,
                    program_name_idx: vec![16],
                    fb_ref_idx: vec![1],
                },
                TaskEntry {
                    name_idx: 13,
                    priority: 0,
                    interval_nanos: 0,
                    single_name_idx: Some(3),
                    program_name_idx: vec![],
                    fb_ref_idx: vec![],
                },
            ],
        },
        ResourceEntry {
            name_idx: 5,
            inputs_size: 0,
            outputs_size: 0,
            memory_size: 16,
            tasks: vec![TaskEntry {
                name_idx: 6,
                priority: 7,
                interval_nanos: -1,
                single_name_idx: None,
                program_name_idx: vec![2, 16],
                fb_ref_idx: vec![6, 7, 3],
            }],
        },
    ];
    let io = vec![
        IoBinding { address_str_idx: 10, ref_idx: 3, type_id: Some(0) },
        IoBinding { address_str_idx: 10, ref_idx: 0, type_id: None },
    ];
    let var_meta = vec![
        VarMetaEntry { name_idx: 3, type_id: 0, ref_idx: 0, retain: 0, init_const_idx: Some(0) },
        VarMetaEntry { name_idx: 11, type_id: 1, ref_idx: 4, retain: 3, init_const_idx: None },
    ];
    let retain_init = vec![RetainInitEntry { ref_idx: 4, const_idx: 4 }];
    let debug = vec![
        DebugEntry { pou_id: 1, code_offset: 0, file_idx: 0, line: 1, column: 1, kind: 0 },
        DebugEntry { pou_id: 5, code_offset: main_len + 5, file_idx: 0, line: 9, column: 3, kind: 1 },
    ];
    let mut m = BytecodeModule::new(BytecodeVersion::new(1, minor));
    let offsets = if minor >= 1 { type_offsets(&types) } else { Vec::new() };
    m.sections = vec![
        section(SectionId::StringTable, SectionData::StringTable(StringTable { entries: strings })),
        section(SectionId::TypeTable, SectionData::TypeTable(TypeTable { offsets, entries: types })),
        section(SectionId::ConstPool, SectionData::ConstPool(ConstPool { entries: consts })),
        section(SectionId::RefTable, SectionData::RefTable(RefTable { entries: refs })),
        section(SectionId::PouIndex, SectionData::PouIndex(PouIndex { entries: pous })),
        section(SectionId::PouBodies, SectionData::PouBodies(bodies)),
        section(SectionId::ResourceMeta, SectionData::ResourceMeta(ResourceMeta { resources })),
        section(SectionId::IoMap, SectionData::IoMap(IoMap { bindings: io })),
        section(SectionId::VarMeta, SectionData::VarMeta(VarMeta { entries: var_meta })),
        section(SectionId::RetainInit, SectionData::RetainInit(RetainInit { entries: retain_init })),
        section(
            SectionId::DebugStringTable,
            SectionData::DebugStringTable(StringTable { entries: vec!["File".into(), "other.st".into()] }),
        ),
        section(SectionId::DebugMap, SectionData::DebugMap(DebugMap { entries: debug })),
    ];
    if rng.chance(1, 4) {
        m.sections.push(Section { id: 0x7777, flags: 3, data: SectionData::Raw(vec![1, 2, 3, 4, 5]) });
    }
    if rng.chance(1, 8) {
        // optional sections absent
        m.sections.retain(|s| !matches!(s.id, 0x000B | 0x000C));
    }
    m
}

// ---------------------------------------------------------------------------------------------
// visitor
// ---------------------------------------------------------------------------------------------

#[derive(Clone, Copy, Debug, PartialEq, Eq)]
pub enum Class {
    StrIdx,
    DebugStrIdx,
    TypeIdx,
    ConstIdx,
    RefIdx,
    PouId,
    CodeOff,
    CodeLen,
    ImageSize,
    Bound,
    Other,
    Count,
    Kind,
}

pub trait Growable {
    fn grow(&mut self);
    fn shrink(&mut self);
    fn len(&self) -> usize;
}

pub trait Dummy {
    fn dummy() -> Self;
}
macro_rules! dummy {
    ($t:ty, $e:expr) => {
        impl Dummy for $t {
            fn dummy() -> Self {
                $e
            }
        }
    };
}
dummy!(u32, 0);
dummy!(i64, 0);
dummy!((i64, i64), (0, 0));
dummy!(SmolStr, SmolStr::new("zz"));
dummy!(Field, Field { name_idx: 0, type_id: 0 });
dummy!(EnumVariant, EnumVariant { name_idx: 0, value: 0 });
dummy!(InterfaceMethod, InterfaceMethod { name_idx: 0, slot: 0 });
dummy!(TypeEntry, TypeEntry { kind: TypeKind::Alias, name_idx: None, data: TypeData::Alias { target_type_id: 0 } });
dummy!(ConstEntry, ConstEntry { type_id: 0, payload: vec![0] });
dummy!(RefEntry, RefEntry { location: RefLocation::Global, owner_id: 0, offset: 0, segments: vec![] });
dummy!(RefSegment, RefSegment::Field { name_idx: 0 });
dummy!(ParamEntry, ParamEntry { name_idx: 0, type_id: 0, direction: 0, default_const_idx: None });
dummy!(InterfaceImpl, InterfaceImpl { interface_type_id: 0, vtable_slots: vec![] });
dummy!(MethodEntry, MethodEntry { name_idx: 0, pou_id: 1, vtable_slot: 0, access: 0, flags: 0 });
dummy!(
    PouEntry,
    PouEntry {
        id: 99,
        name_idx: 0,
        kind: PouKind::Function,
        code_offset: 0,
        code_length: 0,
        local_ref_start: 0,
        local_ref_count: 0,
        return_type_id: None,
        owner_pou_id: None,
        params: vec![],
        class_meta: None,
    }
);
dummy!(
    TaskEntry,
    TaskEntry { name_idx: 0, priority: 0, interval_nanos: 0, single_name_idx: None, program_name_idx: vec![], fb_ref_idx: vec![] }
);
dummy!(ResourceEntry, ResourceEntry { name_idx: 0, inputs_size: 0, outputs_size: 0, memory_size: 0, tasks: vec![] });
dummy!(IoBinding, IoBinding { address_str_idx: 0, ref_idx: 0, type_id: None });
dummy!(DebugEntry, DebugEntry { pou_id: 1, code_offset: 0, file_idx: 0, line: 0, column: 0, kind: 0 });
dummy!(VarMetaEntry, VarMetaEntry { name_idx: 0, type_id: 0, ref_idx: 0, retain: 0, init_const_idx: None });
dummy!(RetainInitEntry, RetainInitEntry { ref_idx: 0, const_idx: 0 });

impl<T: Dummy> Growable for Vec<T> {
    fn grow(&mut self) {
        self.push(T::dummy());
    }
    fn shrink(&mut self) {
        self.pop();
    }
    fn len(&self) -> usize {
        Vec::len(self)
    }
}

pub enum Slot<'a> {
    U8(&'a mut u8),
    U16(&'a mut u16),
    U32(&'a mut u32),
    Opt(&'a mut Option<u32>),
    I64(&'a mut i64),
    TypeKind(&'a mut TypeKind),
    RefLoc(&'a mut RefLocation),
    PouKind(&'a mut PouKind),
    Count(&'a mut dyn Growable),
}

pub type Visitor<'v> = dyn FnMut(Slot<'_>, Class, &'static str) + 'v;

fn visit_fields(fields: &mut Vec<Field>, f: &mut Visitor<'_>) {
    f(Slot::Count(fields), Class::Count, "type/fields.len");
    for x in fields.iter_mut() {
        f(Slot::U32(&mut x.name_idx), Class::StrIdx, "type/field.name_idx");
        f(Slot::U32(&mut x.type_id), Class::TypeIdx, "type/field.type_id");
    }
}

fn visit_u32s(xs: &mut Vec<u32>, class: Class, site_len: &'static str, site_elem: &'static str, f: &mut Visitor<'_>) {
    f(Slot::Count(xs), Class::Count, site_len);
    for x in xs.iter_mut() {
        f(Slot::U32(x), class, site_elem);
    }
}

/// Calls `f` on every field of the module in a fixed order.
pub fn visit(m: &mut BytecodeModule, f: &mut Visitor<'_>) {
    for s in m.sections.iter_mut() {
        match &mut s.data {
            SectionData::StringTable(t) | SectionData::DebugStringTable(t) => {
                f(Slot::Count(&mut t.entries), Class::Count, "StringTable/t.entries");
            }
            SectionData::TypeTable(t) => {
                f(Slot::Count(&mut t.entries), Class::Count, "TypeTable/t.entries");
                for e in t.entries.iter_mut() {
                    f(Slot::TypeKind(&mut e.kind), Class::Kind, "TypeTable/e.kind");
                    f(Slot::Opt(&mut e.name_idx), Class::StrIdx, "TypeTable/e.name_idx");
                    match &mut e.data {
                        TypeData::Primitive { prim_id, max_length } => {
                            f(Slot::U16(prim_id), Class::Other, "TypeTable/prim_id");
                            f(Slot::U16(max_length), Class::Other, "TypeTable/max_length");
                        }
                        TypeData::Array { elem_type_id, dims } => {
                            f(Slot::U32(elem_type_id), Class::TypeIdx, "TypeTable/elem_type_id");
                            f(Slot::Count(dims), Class::Count, "TypeTable/dims");
                            for d in dims.iter_mut() {
                                f(Slot::I64(&mut d.0), Class::Bound, "TypeTable/d.0");
                                f(Slot::I64(&mut d.1), Class::Bound, "TypeTable/d.1");
                            }
                        }
                        TypeData::Struct { fields } | TypeData::Union { fields } => visit_fields(fields, f),
                        TypeData::Enum { base_type_id, variants } => {
                            f(Slot::U32(base_type_id), Class::TypeIdx, "TypeTable/base_type_id");
                            f(Slot::Count(variants), Class::Count, "TypeTable/variants");
                            for v in variants.iter_mut() {
                                f(Slot::U32(&mut v.name_idx), Class::StrIdx, "TypeTable/v.name_idx");
                                f(Slot::I64(&mut v.value), Class::Other, "TypeTable/v.value");
                            }
                        }
                        TypeData::Alias { target_type_id } | TypeData::Reference { target_type_id } => {
                            f(Slot::U32(target_type_id), Class::TypeIdx, "TypeTable/target_type_id");
                        }
                        TypeData::Subrange { base_type_id, lower, upper } => {
                            f(Slot::U32(base_type_id), Class::TypeIdx, "TypeTable/base_type_id");
                            f(Slot::I64(lower), Class::Bound, "TypeTable/lower");
                            f(Slot::I64(upper), Class::Bound, "TypeTable/upper");
                        }
                        TypeData::Pou { pou_id } => f(Slot::U32(pou_id), Class::PouId, "TypeTable/pou_id"),
                        TypeData::Interface { methods } => {
                            f(Slot::Count(methods), Class::Count, "TypeTable/methods");
                            for me in methods.iter_mut() {
                                f(Slot::U32(&mut me.name_idx), Class::StrIdx, "TypeTable/me.name_idx");
                                f(Slot::U32(&mut me.slot), Class::Other, "TypeTable/me.slot");
                            }
                        }
                    }
                }
            }
            SectionData::ConstPool(p) => {
                f(Slot::Count(&mut p.entries), Class::Count, "ConstPool/p.entries");
                for e in p.entries.iter_mut() {
                    f(Slot::U32(&mut e.type_id), Class::TypeIdx, "ConstPool/e.type_id");
                }
            }
            SectionData::RefTable(t) => {
                f(Slot::Count(&mut t.entries), Class::Count, "RefTable/t.entries");
                for e in t.entries.iter_mut() {
                    f(Slot::RefLoc(&mut e.location), Class::Kind, "RefTable/e.location");
                    f(Slot::U32(&mut e.owner_id), Class::Other, "RefTable/e.owner_id");
                    f(Slot::U32(&mut e.offset), Class::Other, "RefTable/e.offset");
                    f(Slot::Count(&mut e.segments), Class::Count, "RefTable/e.segments");
                    for seg in e.segments.iter_mut() {
                        match seg {
                            RefSegment::Index(is) => {
                                f(Slot::Count(is), Class::Count, "RefTable/is");
                                for i in is.iter_mut() {
                                    f(Slot::I64(i), Class::Other, "RefTable/i");
                                }
                            }
                            RefSegment::Field { name_idx } => f(Slot::U32(name_idx), Class::StrIdx, "RefTable/name_idx"),
                        }
                    }
                }
            }
            SectionData::PouIndex(ix) => {
                f(Slot::Count(&mut ix.entries), Class::Count, "PouIndex/ix.entries");
                for e in ix.entries.iter_mut() {
                    f(Slot::U32(&mut e.id), Class::PouId, "PouIndex/e.id");
                    f(Slot::U32(&mut e.name_idx), Class::StrIdx, "PouIndex/e.name_idx");
                    f(Slot::PouKind(&mut e.kind), Class::Kind, "PouIndex/e.kind");
                    f(Slot::U32(&mut e.code_offset), Class::CodeOff, "PouIndex/e.code_offset");
                    f(Slot::U32(&mut e.code_length), Class::CodeLen, "PouIndex/e.code_length");
                    f(Slot::U32(&mut e.local_ref_start), Class::RefIdx, "PouIndex/e.local_ref_start");
                    f(Slot::U32(&mut e.local_ref_count), Class::Other, "PouIndex/e.local_ref_count");
                    f(Slot::Opt(&mut e.return_type_id), Class::TypeIdx, "PouIndex/e.return_type_id");
                    f(Slot::Opt(&mut e.owner_pou_id), Class::PouId, "PouIndex/e.owner_pou_id");
                    f(Slot::Count(&mut e.params), Class::Count, "PouIndex/e.params");
                    for p in e.params.iter_mut() {
                        f(Slot::U32(&mut p.name_idx), Class::StrIdx, "PouIndex/p.name_idx");
                        f(Slot::U32(&mut p.type_id), Class::TypeIdx, "PouIndex/p.type_id");
                        f(Slot::U8(&mut p.direction), Class::Other, "PouIndex/p.direction");
                        f(Slot::Opt(&mut p.default_const_idx), Class::ConstIdx, "PouIndex/p.default_const_idx");
                    }
                    if let Some(cm) = &mut e.class_meta {
                        f(Slot::Opt(&mut cm.parent_pou_id), Class::PouId, "PouIndex/cm.parent_pou_id");
                        f(Slot::Count(&mut cm.interfaces), Class::Count, "PouIndex/cm.interfaces");
                        for i in cm.interfaces.iter_mut() {
                            f(Slot::U32(&mut i.interface_type_id), Class::TypeIdx, "PouIndex/i.interface_type_id");
                            visit_u32s(&mut i.vtable_slots, Class::Other, "pou/vtable_slots.len", "pou/vtable_slot", f);
                        }
                        f(Slot::Count(&mut cm.methods), Class::Count, "PouIndex/cm.methods");
                        for me in cm.methods.iter_mut() {
                            f(Slot::U32(&mut me.name_idx), Class::StrIdx, "PouIndex/me.name_idx");
                            f(Slot::U32(&mut me.pou_id), Class::PouId, "PouIndex/me.pou_id");
                            f(Slot::U32(&mut me.vtable_slot), Class::Other, "PouIndex/me.vtable_slot");
                            f(Slot::U8(&mut me.access), Class::Other, "PouIndex/me.access");
                            f(Slot::U8(&mut me.flags), Class::Other, "PouIndex/me.flags");
                        }
                    }
                }
            }
            SectionData::ResourceMeta(rm) => {
                f(Slot::Count(&mut rm.resources), Class::Count, "ResourceMeta/rm.resources");
                for r in rm.resources.iter_mut() {
                    f(Slot::U32(&mut r.name_idx), Class::StrIdx, "ResourceMeta/r.name_idx");
                    f(Slot::U32(&mut r.inputs_size), Class::ImageSize, "ResourceMeta/r.inputs_size");
                    f(Slot::U32(&mut r.outputs_size), Class::ImageSize, "ResourceMeta/r.outputs_size");
                    f(Slot::U32(&mut r.memory_size), Class::ImageSize, "ResourceMeta/r.memory_size");
                    f(Slot::Count(&mut r.tasks), Class::Count, "ResourceMeta/r.tasks");
                    for t in r.tasks.iter_mut() {
                        f(Slot::U32(&mut t.name_idx), Class::StrIdx, "ResourceMeta/t.name_idx");
                        f(Slot::U32(&mut t.priority), Class::Other, "ResourceMeta/t.priority");
                        f(Slot::I64(&mut t.interval_nanos), Class::Other, "ResourceMeta/t.interval_nanos");
                        f(Slot::Opt(&mut t.single_name_idx), Class::StrIdx, "ResourceMeta/t.single_name_idx");
                        visit_u32s(&mut t.program_name_idx, Class::StrIdx, "res/programs.len", "res/program_name_idx", f);
                        visit_u32s(&mut t.fb_ref_idx, Class::RefIdx, "res/fb_refs.len", "res/fb_ref_idx", f);
                    }
                }
            }
            SectionData::IoMap(io) => {
                f(Slot::Count(&mut io.bindings), Class::Count, "IoMap/io.bindings");
                for b in io.bindings.iter_mut() {
                    f(Slot::U32(&mut b.address_str_idx), Class::StrIdx, "IoMap/b.address_str_idx");
                    f(Slot::U32(&mut b.ref_idx), Class::RefIdx, "IoMap/b.ref_idx");
                    f(Slot::Opt(&mut b.type_id), Class::TypeIdx, "IoMap/b.type_id");
                }
            }
            SectionData::DebugMap(dm) => {
                f(Slot::Count(&mut dm.entries), Class::Count, "DebugMap/dm.entries");
                for e in dm.entries.iter_mut() {
                    f(Slot::U32(&mut e.pou_id), Class::PouId, "DebugMap/e.pou_id");
                    f(Slot::U32(&mut e.code_offset), Class::CodeOff, "DebugMap/e.code_offset");
                    f(Slot::U32(&mut e.file_idx), Class::DebugStrIdx, "DebugMap/e.file_idx");
                    f(Slot::U32(&mut e.line), Class::Other, "DebugMap/e.line");
                    f(Slot::U32(&mut e.column), Class::Other, "DebugMap/e.column");
                    f(Slot::U8(&mut e.kind), Class::Other, "DebugMap/e.kind");
                }
            }
            SectionData::VarMeta(vm) => {
                f(Slot::Count(&mut vm.entries), Class::Count, "VarMeta/vm.entries");
                for e in vm.entries.iter_mut() {
                    f(Slot::U32(&mut e.name_idx), Class::StrIdx, "VarMeta/e.name_idx");
                    f(Slot::U32(&mut e.type_id), Class::TypeIdx, "VarMeta/e.type_id");
                    f(Slot::U32(&mut e.ref_idx), Class::RefIdx, "VarMeta/e.ref_idx");
                    f(Slot::U8(&mut e.retain), Class::Other, "VarMeta/e.retain");
                    f(Slot::Opt(&mut e.init_const_idx), Class::ConstIdx, "VarMeta/e.init_const_idx");
                }
            }
            SectionData::RetainInit(ri) => {
                f(Slot::Count(&mut ri.entries), Class::Count, "RetainInit/ri.entries");
                for e in ri.entries.iter_mut() {
                    f(Slot::U32(&mut e.ref_idx), Class::RefIdx, "RetainInit/e.ref_idx");
                    f(Slot::U32(&mut e.const_idx), Class::ConstIdx, "RetainInit/e.const_idx");
                }
            }
            SectionData::PouBodies(_) | SectionData::Raw(_) => {}
        }
    }
}

/// Pick a slot: first a *site* (a field of the format, e.g. "RefTable/name_idx") uniformly, then one
/// of its occurrences, so that rarely occurring fields are mutated as often as frequent ones.
pub fn pick_slot(rng: &mut Rng, m: &mut BytecodeModule, only: Option<&dyn Fn(Class) -> bool>) -> Option<usize> {
    let mut by_site: std::collections::BTreeMap<&'static str, Vec<usize>> = Default::default();
    let mut i = 0;
    visit(m, &mut |_, class, site| {
        if only.map(|p| p(class)).unwrap_or(true) {
            by_site.entry(site).or_default().push(i);
        }
        i += 1;
    });
    if by_site.is_empty() {
        return None;
    }
    let sites: Vec<&&'static str> = by_site.keys().collect();
    let site = **rng.pick(&sites);
    let slots = &by_site[site];
    Some(slots[rng.below(slots.len() as u64) as usize])
}

/// The first slot of every site of `m`, in site-name order (deterministic).
pub fn site_slots(m: &mut BytecodeModule) -> Vec<(&'static str, usize)> {
    let mut first: std::collections::BTreeMap<&'static str, usize> = Default::default();
    let mut i = 0;
    visit(m, &mut |_, _, site| {
        first.entry(site).or_insert(i);
        i += 1;
    });
    first.into_iter().collect()
}

pub const SITE_VALUES: usize = 5;

/// Boundary sweep: exactly one field of the encoded module `m` (slot `slot`) set to its `v`-th
/// boundary value, CRC fixed.  Returns the bytes and a description.
pub fn site_sweep_bytes(m: &BytecodeModule, site: &str, slot: usize, v: usize) -> Option<(Vec<u8>, String)> {
    let (pos, width, class) = locate_slot(m, slot)?;
    let mut bytes = m.encode().ok()?;
    let sz = sizes(m);
    let what;
    match width {
        1 => {
            let cur = bytes[pos];
            let val = [0u8, cur.wrapping_add(1), 255, 11, 5][v];
            bytes[pos] = val;
            what = format!("{site} u8 {cur} -> {val}");
        }
        2 => {
            let cur = u16::from_le_bytes([bytes[pos], bytes[pos + 1]]);
            let val = [0u16, cur.wrapping_add(1), 65535, 28, 14][v];
            bytes[pos..pos + 2].copy_from_slice(&val.to_le_bytes());
            what = format!("{site} u16 {cur} -> {val}");
        }
        4 => {
            let cur = get_u32(&bytes, pos);
            let len = match class {
                Class::StrIdx => sz.strings,
                Class::DebugStrIdx => sz.debug_strings,
                Class::TypeIdx => sz.types,
                Class::ConstIdx => sz.consts,
                Class::RefIdx => sz.refs,
                Class::CodeOff | Class::CodeLen => sz.bodies,
                Class::ImageSize => 1 << 24,
                _ => cur,
            };
            let val = [len, len.wrapping_sub(1), len.wrapping_add(1), 0, u32::MAX][v];
            put_u32(&mut bytes, pos, val);
            what = format!("{site} u32 {cur} -> {val}");
        }
        _ => {
            let val = [0i64, 1, -1, i64::MAX, i64::MIN][v];
            bytes[pos..pos + 8].copy_from_slice(&val.to_le_bytes());
            what = format!("{site} i64 -> {val}");
        }
    }
    fix_crc(&mut bytes);
    Some((bytes, what))
}

pub fn count_slots(m: &mut BytecodeModule) -> usize {
    let mut n = 0;
    visit(m, &mut |_, _, _| n += 1);
    n
}

/// Sizes of the index spaces of a module (for "len ± 1" boundary values).
#[derive(Default, Clone, Debug)]
pub struct Sizes {
    pub strings: u32,
    pub debug_strings: u32,
    pub types: u32,
    pub consts: u32,
    pub refs: u32,
    pub pous: u32,
    pub bodies: u32,
    pub pou_ids: Vec<u32>,
}

pub fn sizes(m: &BytecodeModule) -> Sizes {
    let mut s = Sizes::default();
    for sec in &m.sections {
        match &sec.data {
            SectionData::StringTable(t) => s.strings = t.entries.len() as u32,
            SectionData::DebugStringTable(t) => s.debug_strings = t.entries.len() as u32,
            SectionData::TypeTable(t) => s.types = t.entries.len() as u32,
            SectionData::ConstPool(t) => s.consts = t.entries.len() as u32,
            SectionData::RefTable(t) => s.refs = t.entries.len() as u32,
            SectionData::PouIndex(t) => {
                s.pous = t.entries.len() as u32;
                s.pou_ids = t.entries.iter().map(|e| e.id).collect();
            }
            SectionData::PouBodies(b) => s.bodies = b.len() as u32,
            _ => {}
        }
    }
    s
}

/// Boundary values for a 32-bit field of the given class.
pub fn hostile_u32(rng: &mut Rng, class: Class, cur: u32, sz: &Sizes) -> u32 {
    let len = match class {
        Class::StrIdx => sz.strings,
        Class::DebugStrIdx => sz.debug_strings,
        Class::TypeIdx => sz.types,
        Class::ConstIdx => sz.consts,
        Class::RefIdx => sz.refs,
        Class::PouId => sz.pous,
        Class::CodeOff | Class::CodeLen => sz.bodies,
        Class::ImageSize => 1 << 24,
        _ => cur,
    };
    // index spaces: the boundary `len` (first invalid value) and its neighbours get half of the mass
    if matches!(
        class,
        Class::StrIdx | Class::DebugStrIdx | Class::TypeIdx | Class::ConstIdx | Class::RefIdx | Class::CodeOff | Class::CodeLen | Class::ImageSize
    ) && rng.chance(1, 2)
    {
        return match rng.below(10) {
            0..=5 => len,
            6 | 7 => len.wrapping_sub(1),
            _ => len.wrapping_add(1),
        };
    }
    let mut cands = vec![
        0,
        1,
        u32::MAX,
        u32::MAX - 1,
        len,
        len.wrapping_add(1),
        len.wrapping_sub(1),
        cur.wrapping_add(1),
        cur.wrapping_sub(1),
        0x8000_0000,
        0x7FFF_FFFF,
    ];
    if len > 0 {
        cands.push(rng.below(len as u64) as u32);
    }
    if class == Class::PouId && !sz.pou_ids.is_empty() {
        cands.push(*rng.pick(&sz.pou_ids));
    }
    if class == Class::Count {
        cands.extend_from_slice(&[cur.wrapping_add(2), cur / 2, 0x0100_0000, 0x0001_0000, 65535]);
    }
    if class == Class::ImageSize {
        cands.extend_from_slice(&[(1 << 24) + 1, (1 << 24) - 1, 1 << 20, 4096, 1 << 31]);
    }
    cands.push(rng.next() as u32);
    *rng.pick(&cands)
}

pub fn hostile_i64(rng: &mut Rng, cur: i64) -> i64 {
    let cands = [
        0,
        1,
        -1,
        i64::MAX,
        i64::MIN,
        i64::MAX - 1,
        i64::MIN + 1,
        cur.wrapping_add(1),
        cur.wrapping_sub(1),
        cur.wrapping_neg(),
        u32::MAX as i64,
        rng.next() as i64,
    ];
    *rng.pick(&cands)
}

/// What a module-level mutation did (for the histogram).
pub fn mutate_field(rng: &mut Rng, m: &mut BytecodeModule) -> &'static str {
    let n = count_slots(m);
    if n == 0 {
        return "none";
    }
    let sz = sizes(m);
    let k = if rng.chance(3, 4) { pick_slot(rng, m, None).unwrap_or(0) } else { rng.below(n as u64) as usize };
    let mut i = 0;
    let mut what = "none";
    let mut rng2 = rng.clone();
    visit(m, &mut |slot, class, _site| {
        if i == k {
            what = match slot {
                Slot::U8(v) => {
                    *v = *rng2.pick(&[0u8, 1, 2, 3, 4, 5, 10, 11, 127, 128, 255]);
                    "field-u8"
                }
                Slot::U16(v) => {
                    *v = *rng2.pick(&[0u16, 1, 2, 13, 14, 15, 23, 24, 25, 26, 27, 28, 255, 65535, rng2.clone().next() as u16 % 30]);
                    "field-u16"
                }
                Slot::U32(v) => {
                    *v = hostile_u32(&mut rng2, class, *v, &sz);
                    "field-u32"
                }
                Slot::Opt(v) => {
                    *v = if rng2.chance(1, 5) {
                        None
                    } else {
                        Some(hostile_u32(&mut rng2, class, v.unwrap_or(0), &sz))
                    };
                    "field-opt"
                }
                Slot::I64(v) => {
                    *v = hostile_i64(&mut rng2, *v);
                    "field-i64"
                }
                Slot::TypeKind(v) => {
                    let kinds = [
                        TypeKind::Primitive,
                        TypeKind::Array,
                        TypeKind::Struct,
                        TypeKind::Enum,
                        TypeKind::Alias,
                        TypeKind::Subrange,
                        TypeKind::Reference,
                        TypeKind::Union,
                        TypeKind::FunctionBlock,
                        TypeKind::Class,
                        TypeKind::Interface,
                    ];
                    *v = *rng2.pick(&kinds);
                    "field-typekind"
                }
                Slot::RefLoc(v) => {
                    *v = *rng2.pick(&[
                        RefLocation::Global,
                        RefLocation::Local,
                        RefLocation::Instance,
                        RefLocation::Io,
                        RefLocation::Retain,
                    ]);
                    "field-refloc"
                }
                Slot::PouKind(v) => {
                    *v = *rng2.pick(&[
                        PouKind::Program,
                        PouKind::FunctionBlock,
                        PouKind::Function,
                        PouKind::Class,
                        PouKind::Method,
                    ]);
                    "field-poukind"
                }
                Slot::Count(g) => {
                    if g.len() > 0 && rng2.bool() {
                        g.shrink();
                        "vec-shrink"
                    } else {
                        g.grow();
                        "vec-grow"
                    }
                }
            };
        }
        i += 1;
    });
    *rng = rng2;
    what
}

/// Locate the encoded bytes of slot `k` by differential encoding: tweak the slot, encode both
/// modules, report the first differing position behind the section table (the CRC field and the
/// table are skipped).  Returns (position, width in bytes, class, current value).
pub fn locate_slot(m: &BytecodeModule, k: usize) -> Option<(usize, usize, Class)> {
    let base = m.encode().ok()?;
    let mut m2 = m.clone();
    let mut i = 0;
    let mut width = 0;
    let mut cls = Class::Other;
    visit(&mut m2, &mut |slot, class, _site| {
        if i == k {
            cls = class;
            width = match slot {
                Slot::U8(v) => {
                    *v ^= 0x55;
                    1
                }
                Slot::U16(v) => {
                    *v ^= 0x0155;
                    2
                }
                Slot::U32(v) => {
                    *v ^= 0x0000_0155;
                    4
                }
                Slot::Opt(v) => {
                    *v = Some(v.unwrap_or(u32::MAX) ^ 0x0000_0155);
                    4
                }
                Slot::I64(v) => {
                    *v ^= 0x0155;
                    8
                }
                Slot::TypeKind(v) => {
                    *v = if *v == TypeKind::Alias { TypeKind::Reference } else { TypeKind::Alias };
                    1
                }
                Slot::RefLoc(v) => {
                    *v = if *v == RefLocation::Global { RefLocation::Retain } else { RefLocation::Global };
                    1
                }
                Slot::PouKind(v) => {
                    // keep class-likeness so that the shape of the entry does not change
                    *v = match *v {
                        PouKind::Program => PouKind::Function,
                        PouKind::Function => PouKind::Program,
                        PouKind::Method => PouKind::Program,
                        PouKind::FunctionBlock => PouKind::Class,
                        PouKind::Class => PouKind::FunctionBlock,
                    };
                    1
                }
                Slot::Count(g) => {
                    g.grow();
                    4
                }
            };
        }
        i += 1;
    });
    if width == 0 {
        return None;
    }
    // the type table carries redundant offsets: keep them consistent after a grow
    for s in m2.sections.iter_mut() {
        if let SectionData::TypeTable(t) = &mut s.data {
            if !t.offsets.is_empty() || m2.version.minor >= 1 {
                t.offsets = type_offsets(&t.entries);
            }
        }
    }
    let other = m2.encode().ok()?;
    let table_end = 24 + 12 * m.sections.len();
    let n = base.len().min(other.len());
    let pos = (table_end..n).find(|&p| base[p] != other[p])?;
    if pos + width > base.len() {
        return None;
    }
    Some((pos, width, cls))
}

pub fn fix_crc(bytes: &mut [u8]) {
    if bytes.len() < 24 {
        return;
    }
    let off = u32::from_le_bytes([bytes[16], bytes[17], bytes[18], bytes[19]]) as usize;
    if off <= bytes.len() {
        let crc = crc32fast::hash(&bytes[off..]);
        bytes[20..24].copy_from_slice(&crc.to_le_bytes());
    }
}

pub fn crc_gate_passed(bytes: &[u8]) -> bool {
    if bytes.len() < 24 || &bytes[0..4] != b"STBC" {
        return false;
    }
    let flags = u32::from_le_bytes([bytes[8], bytes[9], bytes[10], bytes[11]]);
    let off = u32::from_le_bytes([bytes[16], bytes[17], bytes[18], bytes[19]]) as usize;
    if off > bytes.len() {
        return false;
    }
    if flags & 1 == 0 {
        return true;
    }
    let crc = u32::from_le_bytes([bytes[20], bytes[21], bytes[22], bytes[23]]);
    crc32fast::hash(&bytes[off..]) == crc
}

fn put_u32(bytes: &mut [u8], pos: usize, v: u32) {
    if pos + 4 <= bytes.len() {
        bytes[pos..pos + 4].copy_from_slice(&v.to_le_bytes());
    }
}
fn get_u32(bytes: &[u8], pos: usize) -> u32 {
    if pos + 4 <= bytes.len() {
        u32::from_le_bytes([bytes[pos], bytes[pos + 1], bytes[pos + 2], bytes[pos + 3]])
    } else {
        0
    }
}

/// Byte-level, structure-aware mutation of an encoded container.  Returns the histogram key.
pub fn mutate_bytes(rng: &mut Rng, m: &BytecodeModule, bytes: &mut Vec<u8>) -> &'static str {
    let nsec = m.sections.len();
    let file_len = bytes.len() as u32;
    let mut choice = rng.below(100);
    if bytes.len() < 24 + 12 * nsec + 4 {
        // already truncated by an earlier mutation: only length changes make sense
        choice = 80;
    }
    let what: &'static str;
    if choice < 45 {
        // a located field (count, index, offset, size, kind byte) set to a hostile value
        let mut mm = m.clone();
        let n = count_slots(&mut mm);
        if n == 0 {
            return "none";
        }
        // counts and kinds are only reachable here: prefer them
        let mut k = if rng.chance(1, 2) { pick_slot(rng, &mut mm, None).unwrap_or(0) } else { rng.below(n as u64) as usize };
        if rng.chance(1, 2) {
            if let Some(s) = pick_slot(rng, &mut mm, Some(&|c| matches!(c, Class::Count | Class::Kind))) {
                k = s;
            }
        } else if rng.chance(1, 3) {
            let mut wanted = Vec::new();
            let mut i = 0;
            visit(&mut mm, &mut |_, class, _| {
                if matches!(class, Class::Count | Class::Kind) {
                    wanted.push(i);
                }
                i += 1;
            });
            if !wanted.is_empty() {
                k = *rng.pick(&wanted);
            }
        }
        let Some((pos, width, class)) = locate_slot(m, k) else {
            return "locate-failed";
        };
        let sz = sizes(m);
        if pos + width > bytes.len() {
            return "locate-out-of-range";
        }
        match width {
            1 => {
                bytes[pos] = *rng.pick(&[0u8, 1, 2, 3, 4, 5, 6, 9, 10, 11, 12, 127, 128, 254, 255]);
                what = if class == Class::Kind { "bytes-kind" } else { "bytes-u8" };
            }
            2 => {
                let v = *rng.pick(&[0u16, 1, 13, 14, 24, 25, 26, 27, 28, 29, 255, 256, 65535]);
                bytes[pos..pos + 2].copy_from_slice(&v.to_le_bytes());
                what = "bytes-u16";
            }
            4 => {
                let cur = get_u32(bytes, pos);
                let mut v = hostile_u32(rng, class, cur, &sz);
                if class == Class::Count && rng.chance(1, 4) {
                    // "remaining bytes" class of values
                    let remaining = file_len.saturating_sub(pos as u32 + 4);
                    v = *rng.pick(&[remaining, remaining.wrapping_add(1), remaining.saturating_sub(1), remaining / 4, remaining / 8, file_len]);
                }
                put_u32(bytes, pos, v);
                what = if class == Class::Count { "bytes-count" } else { "bytes-u32" };
            }
            _ => {
                let v = hostile_i64(rng, 0);
                bytes[pos..pos + 8].copy_from_slice(&v.to_le_bytes());
                what = "bytes-i64";
            }
        }
    } else if choice < 57 {
        // section table entry
        if nsec == 0 {
            return "none";
        }
        let i = rng.below(nsec as u64) as usize;
        let e = 24 + 12 * i;
        let off = get_u32(bytes, e + 4);
        let len = get_u32(bytes, e + 8);
        if rng.chance(1, 4) {
            // permute two entries of the table: still a valid container, sections in table order
            let j = rng.below(nsec as u64) as usize;
            for k in 0..12 {
                bytes.swap(24 + 12 * i + k, 24 + 12 * j + k);
            }
            fix_crc(bytes);
            return "table-swap-entries";
        }
        match rng.below(4) {
            0 => {
                let v = *rng.pick(&[0u16, 1, 2, 6, 9, 10, 12, 13, 255, 0x7777, 65535]);
                bytes[e..e + 2].copy_from_slice(&v.to_le_bytes());
                what = "table-id";
            }
            1 => {
                let v = rng.next() as u16;
                bytes[e + 2..e + 4].copy_from_slice(&v.to_le_bytes());
                what = "table-flags";
            }
            2 => {
                let other = get_u32(bytes, 24 + 12 * rng.below(nsec as u64) as usize + 4);
                let v = *rng.pick(&[
                    0,
                    4,
                    24,
                    off.wrapping_add(1),
                    off.wrapping_add(2),
                    off.wrapping_add(4),
                    off.wrapping_sub(4),
                    other,
                    file_len,
                    file_len.wrapping_sub(len),
                    file_len.wrapping_sub(len).wrapping_add(4),
                    file_len.wrapping_add(4),
                    u32::MAX,
                    u32::MAX - 3,
                    0x8000_0000,
                ]);
                put_u32(bytes, e + 4, v);
                what = "table-offset";
            }
            _ => {
                let v = *rng.pick(&[
                    0,
                    1,
                    len.wrapping_add(1),
                    len.wrapping_sub(1),
                    len.wrapping_add(4),
                    len.wrapping_sub(4),
                    file_len.wrapping_sub(off),
                    file_len.wrapping_sub(off).wrapping_add(1),
                    file_len,
                    u32::MAX,
                    u32::MAX - off,
                    0x8000_0000,
                ]);
                put_u32(bytes, e + 8, v);
                what = "table-length";
            }
        }
    } else if choice < 67 {
        // header
        match rng.below(8) {
            0 => {
                bytes[rng.below(4) as usize] ^= 1 << rng.below(8);
                what = "header-magic";
            }
            1 => {
                let v = *rng.pick(&[0u16, 1, 2, 255, 65535]);
                bytes[4..6].copy_from_slice(&v.to_le_bytes());
                what = "header-major";
            }
            2 => {
                let v = *rng.pick(&[0u16, 1, 2, 3, 255, 65535]);
                bytes[6..8].copy_from_slice(&v.to_le_bytes());
                what = "header-minor";
            }
            3 => {
                let cur = get_u32(bytes, 8);
                let v = *rng.pick(&[0u32, 1, 2, 3, cur ^ 1, u32::MAX, 0xFFFF_FFFE]);
                put_u32(bytes, 8, v);
                what = "header-flags";
            }
            4 => {
                let v = *rng.pick(&[0u16, 1, 23, 24, 25, 28, 255, 65535]);
                bytes[12..14].copy_from_slice(&v.to_le_bytes());
                what = "header-size";
            }
            5 => {
                let n = nsec as u16;
                let v = *rng.pick(&[0u16, 1, n.wrapping_sub(1), n + 1, n + 2, 255, 5461, 65535, (file_len / 12) as u16]);
                bytes[14..16].copy_from_slice(&v.to_le_bytes());
                what = "header-section-count";
            }
            6 => {
                let v = *rng.pick(&[
                    0,
                    4,
                    20,
                    23,
                    24,
                    25,
                    26,
                    28,
                    36,
                    file_len,
                    file_len.wrapping_sub(12 * nsec as u32),
                    file_len.wrapping_sub(12 * nsec as u32).wrapping_add(4),
                    file_len.wrapping_add(4),
                    u32::MAX,
                    u32::MAX - 3,
                ]);
                put_u32(bytes, 16, v);
                what = "header-table-offset";
            }
            _ => {
                // leave a wrong checksum in place
                let v = get_u32(bytes, 20) ^ (1 << rng.below(32));
                fix_crc(bytes);
                put_u32(bytes, 20, v);
                return "header-bad-crc";
            }
        }
    } else if choice < 75 {
        // type table offsets (minor >= 1): offset table entries set to boundary values
        let ti = m.sections.iter().position(|s| matches!(s.data, SectionData::TypeTable(_)));
        let Some(ti) = ti else { return "none" };
        let SectionData::TypeTable(t) = &m.sections[ti].data else { return "none" };
        if t.offsets.is_empty() {
            return "none";
        }
        let sec_off = get_u32(bytes, 24 + 12 * ti + 4) as usize;
        let sec_len = get_u32(bytes, 24 + 12 * ti + 8);
        let i = rng.below(t.offsets.len() as u64) as usize;
        let pos = sec_off + 4 + 4 * i;
        if pos + 4 > bytes.len() {
            return "none";
        }
        let cur = get_u32(bytes, pos);
        let base = 4 + 4 * t.offsets.len() as u32;
        let neighbour = *rng.pick(&t.offsets);
        let v = *rng.pick(&[
            0,
            base,
            base.wrapping_sub(1),
            base.wrapping_add(4),
            cur.wrapping_add(1),
            cur.wrapping_sub(1),
            cur.wrapping_add(4),
            cur.wrapping_sub(4),
            neighbour,
            sec_len,
            sec_len.wrapping_add(1),
            sec_len.wrapping_sub(1),
            u32::MAX,
        ]);
        put_u32(bytes, pos, v);
        what = "type-offset";
    } else if choice < 83 {
        // truncate or extend the file
        match rng.below(5) {
            0 => {
                let n = rng.below(bytes.len() as u64 + 1) as usize;
                bytes.truncate(n);
                what = "truncate-any";
            }
            1 => {
                let n = bytes.len().saturating_sub(1 + rng.below(8) as usize);
                bytes.truncate(n);
                what = "truncate-tail";
            }
            2 => {
                bytes.truncate(rng.below(40) as usize);
                what = "truncate-header";
            }
            3 => {
                for _ in 0..1 + rng.below(9) {
                    bytes.push(rng.next() as u8);
                }
                what = "append-garbage";
            }
            _ => {
                bytes.extend_from_slice(&[0, 0, 0, 0]);
                what = "append-zeros";
            }
        }
    } else {
        // flip bytes inside the payload area
        let start = (24 + 12 * nsec).min(bytes.len());
        if start >= bytes.len() {
            return "none";
        }
        let flips = 1 + rng.below(3);
        for _ in 0..flips {
            let p = start + rng.below((bytes.len() - start) as u64) as usize;
            bytes[p] = match rng.below(4) {
                0 => 0,
                1 => 0xFF,
                2 => bytes[p] ^ (1 << rng.below(8)),
                _ => rng.next() as u8,
            };
        }
        what = "payload-flip";
    }
    if rng.chance(19, 20) {
        fix_crc(bytes);
    }
    what
}

// ---------------------------------------------------------------------------------------------
// module-level structural mutations
// ---------------------------------------------------------------------------------------------

fn types_mut(m: &mut BytecodeModule) -> Option<&mut TypeTable> {
    match m.section_mut(SectionId::TypeTable) {
        Some(SectionData::TypeTable(t)) => Some(t),
        _ => None,
    }
}
fn consts_mut(m: &mut BytecodeModule) -> Option<&mut ConstPool> {
    match m.section_mut(SectionId::ConstPool) {
        Some(SectionData::ConstPool(t)) => Some(t),
        _ => None,
    }
}

pub fn refresh_offsets(m: &mut BytecodeModule) {
    let minor = m.version.minor;
    if let Some(t) = types_mut(m) {
        t.offsets = if minor >= 1 { type_offsets(&t.entries) } else { Vec::new() };
    }
}

/// Cyclic / self-referential / deeply nested types with constants that walk them.
pub fn mutate_type_graph(rng: &mut Rng, m: &mut BytecodeModule) -> &'static str {
    let Some(n) = types_mut(m).map(|t| t.entries.len() as u32) else { return "none" };
    if consts_mut(m).is_none() {
        return "none";
    }
    let what: &'static str;
    match rng.below(7) {
        0 => {
            // alias cycle of length 1..3 plus a constant of that type
            let len = 1 + rng.below(3) as u32;
            let t = types_mut(m).unwrap();
            for i in 0..len {
                t.entries.push(TypeEntry {
                    kind: TypeKind::Alias,
                    name_idx: None,
                    data: TypeData::Alias { target_type_id: n + (i + 1) % len },
                });
            }
            let payload = vec![0u8; rng.below(9) as usize];
            consts_mut(m).unwrap().entries.push(ConstEntry { type_id: n, payload });
            what = "alias-cycle";
        }
        1 => {
            // subrange of itself / via an alias
            let t = types_mut(m).unwrap();
            t.entries.push(TypeEntry {
                kind: TypeKind::Subrange,
                name_idx: None,
                data: TypeData::Subrange { base_type_id: n + 1, lower: 0, upper: 1 },
            });
            t.entries.push(TypeEntry { kind: TypeKind::Alias, name_idx: None, data: TypeData::Alias { target_type_id: n } });
            consts_mut(m).unwrap().entries.push(ConstEntry { type_id: n, payload: vec![1, 2] });
            what = "subrange-cycle";
        }
        2 => {
            // array of itself with a payload of nested counts
            let t = types_mut(m).unwrap();
            t.entries.push(TypeEntry {
                kind: TypeKind::Array,
                name_idx: None,
                data: TypeData::Array { elem_type_id: n, dims: vec![(0, 0)] },
            });
            let depth = *rng.pick(&[1usize, 2, 10, 63, 64, 65, 66, 67, 100, 500]);
            let mut payload = Vec::new();
            for _ in 0..depth {
                payload.extend_from_slice(&1u32.to_le_bytes());
            }
            if rng.bool() {
                payload.extend_from_slice(&0u32.to_le_bytes());
            }
            consts_mut(m).unwrap().entries.push(ConstEntry { type_id: n, payload });
            what = "self-array";
        }
        3 => {
            // struct containing itself
            let t = types_mut(m).unwrap();
            t.entries.push(TypeEntry {
                kind: TypeKind::Struct,
                name_idx: None,
                data: TypeData::Struct { fields: vec![Field { name_idx: 0, type_id: n }] },
            });
            let depth = *rng.pick(&[1usize, 5, 64, 65, 66, 300]);
            let mut payload = Vec::new();
            for _ in 0..depth {
                payload.extend_from_slice(&1u32.to_le_bytes());
            }
            consts_mut(m).unwrap().entries.push(ConstEntry { type_id: n, payload });
            what = "self-struct";
        }
        4 => {
            // a finite chain of aliases/arrays ending in a primitive: depth boundary 64
            let depth = *rng.pick(&[1u32, 2, 62, 63, 64, 65, 66, 70]);
            let use_arrays = rng.bool();
            let t = types_mut(m).unwrap();
            t.entries.push(prim(1, None)); // n: 1 byte
            for i in 0..depth {
                let target = n + i;
                t.entries.push(if use_arrays {
                    TypeEntry {
                        kind: TypeKind::Array,
                        name_idx: None,
                        data: TypeData::Array { elem_type_id: target, dims: vec![(0, 0)] },
                    }
                } else {
                    TypeEntry { kind: TypeKind::Alias, name_idx: None, data: TypeData::Alias { target_type_id: target } }
                });
            }
            let mut payload = Vec::new();
            if use_arrays {
                for _ in 0..depth {
                    payload.extend_from_slice(&1u32.to_le_bytes());
                }
            }
            payload.push(7);
            consts_mut(m).unwrap().entries.push(ConstEntry { type_id: n + depth, payload });
            what = "type-chain";
        }
        5 => {
            // array constant whose count is hostile
            let count = *rng.pick(&[0u32, 1, 2, 3, 4, 1000, 0x0100_0000, u32::MAX, u32::MAX - 1]);
            let mut payload = count.to_le_bytes().to_vec();
            for _ in 0..rng.below(5) {
                payload.extend_from_slice(&7u16.to_le_bytes());
            }
            consts_mut(m).unwrap().entries.push(ConstEntry { type_id: 2.min(n.saturating_sub(1)), payload });
            what = "const-array-count";
        }
        _ => {
            // random payload for a random type
            let ty = rng.below(n.max(1) as u64) as u32;
            let payload: Vec<u8> = (0..rng.below(24)).map(|_| (rng.next() % 4) as u8).collect();
            consts_mut(m).unwrap().entries.push(ConstEntry { type_id: ty, payload });
            what = "const-random-payload";
        }
    }
    refresh_offsets(m);
    what
}

/// Mutations of POU code: jump offsets at every boundary, opcode replacement, operand values.
pub fn mutate_code(rng: &mut Rng, m: &mut BytecodeModule) -> &'static str {
    let (start, len) = {
        let Some(SectionData::PouIndex(ix)) = m.section(SectionId::PouIndex) else { return "none" };
        let Some(e) = ix.entries.iter().find(|e| e.code_length > 0) else { return "none" };
        (e.code_offset as usize, e.code_length as usize)
    };
    let sz = sizes(m);
    let Some(SectionData::PouBodies(bodies)) = m.section_mut(SectionId::PouBodies) else { return "none" };
    if start + len > bodies.len() {
        return "none";
    }
    let code = &mut bodies[start..start + len];
    let starts = instruction_starts(code);
    let what: &'static str;
    match rng.below(5) {
        0 | 1 => {
            // retarget a jump
            let jumps: Vec<usize> = starts.iter().copied().filter(|&p| matches!(code[p], 0x02..=0x04) && p + 5 <= code.len()).collect();
            if jumps.is_empty() {
                return "none";
            }
            let pc = *rng.pick(&jumps) as i64;
            let len = code.len() as i64;
            let some_start = *rng.pick(&starts) as i64;
            let target = *rng.pick(&[
                0,
                len,
                len - 1,
                len + 1,
                -1,
                some_start,
                some_start + 1,
                pc,
                pc + 5,
                pc + 1,
                i32::MAX as i64,
                i32::MIN as i64 + pc + 5,
            ]);
            let off = match rng.below(6) {
                0 => i32::MAX,
                1 => i32::MIN,
                2 => i32::MAX - (pc as i32 + 5),
                3 => i32::MAX - (pc as i32 + 5) + 1,
                _ => (target - pc - 5).clamp(i32::MIN as i64, i32::MAX as i64) as i32,
            };
            code[pc as usize + 1..pc as usize + 5].copy_from_slice(&off.to_le_bytes());
            what = "code-jump";
        }
        2 => {
            let p = *rng.pick(&starts);
            code[p] = *rng.pick(&[
                0x00, 0x01, 0x02, 0x05, 0x06, 0x07, 0x08, 0x09, 0x0F, 0x10, 0x11, 0x15, 0x16, 0x17, 0x1F, 0x20, 0x22, 0x23, 0x24, 0x30,
                0x31, 0x33, 0x34, 0x3F, 0x40, 0x4E, 0x4F, 0x50, 0x55, 0x56, 0x5F, 0x60, 0x61, 0x6F, 0x70, 0x71, 0x7F, 0x80, 0xFE, 0xFF,
            ]);
            what = "code-opcode";
        }
        3 => {
            // operand of a checked instruction
            let cands: Vec<usize> = starts.iter().copied().filter(|&p| matches!(code[p], 0x05 | 0x08 | 0x60) && p + 5 <= code.len()).collect();
            if cands.is_empty() {
                return "none";
            }
            let p = *rng.pick(&cands);
            let class = match code[p] {
                0x05 => Class::PouId,
                _ => Class::TypeIdx,
            };
            let second = code[p] == 0x08 && p + 9 <= code.len() && rng.bool();
            let q = if second { p + 5 } else { p + 1 };
            let cur = u32::from_le_bytes([code[q], code[q + 1], code[q + 2], code[q + 3]]);
            let v = if second { *rng.pick(&[0u32, 1, 2, u32::MAX, cur.wrapping_add(1)]) } else { hostile_u32(rng, class, cur, &sz) };
            code[q..q + 4].copy_from_slice(&v.to_le_bytes());
            what = "code-operand";
        }
        _ => {
            let p = rng.below(code.len() as u64) as usize;
            code[p] = rng.next() as u8;
            what = "code-random-byte";
        }
    }
    what
}

/// Section-level surgery: remove / duplicate / reorder / retag sections, change the version.
pub fn mutate_sections(rng: &mut Rng, m: &mut BytecodeModule) -> &'static str {
    if m.sections.is_empty() {
        return "none";
    }
    let i = rng.below(m.sections.len() as u64) as usize;
    match rng.below(8) {
        0 => {
            m.sections.remove(i);
            "section-remove"
        }
        1 => {
            let s = m.sections[i].clone();
            let at = rng.below(m.sections.len() as u64 + 1) as usize;
            m.sections.insert(at, s);
            "section-duplicate"
        }
        2 => {
            let j = rng.below(m.sections.len() as u64) as usize;
            m.sections.swap(i, j);
            "section-swap"
        }
        3 => {
            m.version.minor = *rng.pick(&[0u16, 1, 2, 7]);
            refresh_offsets(m);
            "version-minor"
        }
        4 => {
            m.flags = *rng.pick(&[0u32, 1, 2, 3, 0xFFFF_FFFF]);
            "module-flags"
        }
        5 => {
            m.sections[i].flags = rng.next() as u16;
            "section-flags"
        }
        6 => {
            // empty tables
            match &mut m.sections[i].data {
                SectionData::StringTable(t) | SectionData::DebugStringTable(t) => t.entries.clear(),
                SectionData::ConstPool(t) => t.entries.clear(),
                SectionData::RefTable(t) => t.entries.clear(),
                SectionData::PouBodies(b) => b.clear(),
                SectionData::IoMap(t) => t.bindings.clear(),
                SectionData::DebugMap(t) => t.entries.clear(),
                _ => {}
            }
            "section-empty"
        }
        _ => {
            // odd-length strings and payloads shift the padding
            if let Some(SectionData::StringTable(t)) = m.section_mut(SectionId::StringTable) {
                let k = rng.below(t.entries.len().max(1) as u64) as usize;
                if k < t.entries.len() {
                    let extra = "xyzü".chars().take(1 + rng.below(4) as usize).collect::<String>();
                    t.entries[k] = SmolStr::new(format!("{}{extra}", t.entries[k]));
                }
            }
            "string-resize"
        }
    }
}
