//! C12 — parsing is total and lossless for every input text.
//!
//! For every generated text the harness runs the REAL lexer and parser of `trust-syntax` and writes
//!   * the raw logos token stream and the final token list (op `lex`: the Lean model of the lexer
//!     post-pass in `lexer/mod.rs::next` is run on the raw stream and must produce the final list),
//!   * the real parser event stream obtained through the hook `verif_parse_events` (op `sink`: the
//!     Lean model of `Sink::finish` + rowan's `GreenNodeBuilder` is run on the real tokens and events
//!     and its tree must equal the tree built by the real `parse`; the model also evaluates the
//!     premises of theorem `c12_sink_lossless_events` on the real stream),
//!   * the reported error ranges (op `errs`),
//! and evaluates the property's own statement on the implementation (oracle, testing): no panic,
//! token tiling, `parse(s).syntax().text() == s`, error ranges inside the text, purity (parse twice),
//! and tree-shape invariance under insertion of spaces / newlines / block comments at token
//! boundaries for error-free inputs.  Oracle verdicts are written as `# oracle ...` lines which
//! `checks/c12.py` reads.
//!
//! Deep-nesting cases run in a child process (a stack overflow kills only the child); every other
//! case runs on a worker thread with the default main-thread stack size (8 MiB) under a watchdog.

use crate::rng::Rng;
use crate::util::{hex, Out};
use crate::Args;
use logos::Logos;
use std::fmt::Write as _;
use std::panic::{catch_unwind, AssertUnwindSafe};
use trust_syntax::lexer::{lex, Token, TokenKind};
use trust_syntax::parser::event::Event;
use trust_syntax::parser::{parse, verif_parse_events};
use trust_syntax::syntax::SyntaxNode;

// ------------------------------------------------------------------------------------------------
// hashing / dumping
// ------------------------------------------------------------------------------------------------

/// FNV-1a, 64 bit (the Lean driver computes the same function over the model's tree).
#[derive(Clone, Copy)]
pub struct Fnv(pub u64);

impl Fnv {
    pub fn new() -> Self {
        Fnv(0xcbf2_9ce4_8422_2325)
    }
    pub fn byte(&mut self, b: u8) {
        self.0 ^= b as u64;
        self.0 = self.0.wrapping_mul(0x0000_0100_0000_01b3);
    }
    pub fn u16(&mut self, v: u16) {
        self.byte((v >> 8) as u8);
        self.byte(v as u8);
    }
    pub fn u32(&mut self, v: u32) {
        self.byte((v >> 24) as u8);
        self.byte((v >> 16) as u8);
        self.byte((v >> 8) as u8);
        self.byte(v as u8);
    }
    pub fn bytes(&mut self, bs: &[u8]) {
        for b in bs {
            self.byte(*b);
        }
    }
}

#[derive(Debug, Clone, PartialEq, Eq)]
pub struct TreeDump {
    pub nodes: u64,
    pub tokens: u64,
    /// hash of the full pre-order dump (node kinds, token kinds and token texts)
    pub hash: u64,
    /// hash of the dump without trivia tokens (the "shape" of the property statement)
    pub shape: u64,
    pub max_depth: u64,
}

/// Pre-order dump of a rowan tree through its public API (kinds through `SyntaxKind`, texts through
/// `SyntaxToken::text`).  Node open = 1 kind(2); token = 2 kind(2) len(4) bytes; node close = 3.
pub fn dump_tree(root: &SyntaxNode) -> TreeDump {
    let mut h = Fnv::new();
    let mut s = Fnv::new();
    let (mut nodes, mut tokens, mut depth, mut max_depth) = (0u64, 0u64, 0u64, 0u64);
    for ev in root.preorder_with_tokens() {
        match ev {
            rowan::WalkEvent::Enter(el) => match el {
                rowan::NodeOrToken::Node(n) => {
                    nodes += 1;
                    depth += 1;
                    max_depth = max_depth.max(depth);
                    for f in [&mut h, &mut s] {
                        f.byte(1);
                        f.u16(n.kind() as u16);
                    }
                }
                rowan::NodeOrToken::Token(t) => {
                    tokens += 1;
                    let text = t.text().as_bytes();
                    h.byte(2);
                    h.u16(t.kind() as u16);
                    h.u32(text.len() as u32);
                    h.bytes(text);
                    if !t.kind().is_trivia() {
                        s.byte(2);
                        s.u16(t.kind() as u16);
                        s.u32(text.len() as u32);
                        s.bytes(text);
                    }
                }
            },
            rowan::WalkEvent::Leave(el) => {
                if el.as_node().is_some() {
                    depth -= 1;
                    h.byte(3);
                    s.byte(3);
                }
            }
        }
    }
    TreeDump {
        nodes,
        tokens,
        hash: h.0,
        shape: s.0,
        max_depth,
    }
}

/// Human-readable dump (used by `--dump 1` when replaying one case).
pub fn pretty_tree(root: &SyntaxNode) -> String {
    let mut out = String::new();
    let mut depth = 0usize;
    for ev in root.preorder_with_tokens() {
        match ev {
            rowan::WalkEvent::Enter(el) => match el {
                rowan::NodeOrToken::Node(n) => {
                    let _ = writeln!(out, "{}{:?}({})", "  ".repeat(depth), n.kind(), n.kind() as u16);
                    depth += 1;
                }
                rowan::NodeOrToken::Token(t) => {
                    let _ = writeln!(out, "{}{:?}({}) {:?}", "  ".repeat(depth), t.kind(), t.kind() as u16, t.text());
                }
            },
            rowan::WalkEvent::Leave(el) => {
                if el.as_node().is_some() {
                    depth -= 1;
                }
            }
        }
    }
    out
}

fn tokens_hash(toks: &[(u16, usize, usize)]) -> u64 {
    let mut h = Fnv::new();
    for (k, s, e) in toks {
        h.u16(*k);
        h.u32(*s as u32);
        h.u32(*e as u32);
    }
    h.0
}

/// `toks` tile `[0, len)`: first starts at 0, each starts where the previous ended, none is empty,
/// the last ends at `len` (the empty list tiles exactly the empty text).
fn tiles(toks: &[(u16, usize, usize)], len: usize) -> bool {
    let mut pos = 0usize;
    for (_, s, e) in toks {
        if *s != pos || *e <= *s {
            return false;
        }
        pos = *e;
    }
    pos == len
}

// ------------------------------------------------------------------------------------------------
// observation of the real code
// ------------------------------------------------------------------------------------------------

/// The raw logos stream, before the post-pass of `Lexer::next`.
fn raw_lex(src: &str) -> Vec<(u16, usize, usize)> {
    let mut lx = TokenKind::lexer(src);
    let mut v = Vec::new();
    while let Some(k) = lx.next() {
        let sp = lx.span();
        v.push((k.unwrap_or(TokenKind::Error) as u16, sp.start, sp.end));
    }
    v
}

fn tok3(t: &Token) -> (u16, usize, usize) {
    (t.kind as u16, usize::from(t.range.start()), usize::from(t.range.end()))
}

pub struct Lang {
    pub int: u16,
    pub dot: u16,
    pub dotdot: u16,
    pub eof: u16,
    /// (TokenKind code, SyntaxKind code) of every trivia kind
    pub trivia: Vec<(u16, u16)>,
}

/// `lang` line of one case: the codes of IntLiteral / Dot / DotDot / Eof and, for every token kind
/// that occurs in the case (plus the trivia kinds), its `SyntaxKind::from` image and `is_trivia`.
fn lang_line(lang: &Lang, toks: &[Token]) -> String {
    let mut tbl: Vec<(u16, u16, u8)> = lang.trivia.iter().map(|(t, k)| (*t, *k, 1)).collect();
    for t in toks {
        let e = (
            t.kind as u16,
            trust_syntax::syntax::SyntaxKind::from(t.kind) as u16,
            t.kind.is_trivia() as u8,
        );
        if !tbl.contains(&e) {
            tbl.push(e);
        }
    }
    tbl.sort();
    let mut s = format!("lang {} {} {} {} {}", lang.int, lang.dot, lang.dotdot, lang.eof, tbl.len());
    for (t, k, v) in tbl {
        let _ = write!(s, " {t} {k} {v}");
    }
    s
}

impl Lang {
    /// Read the kind codes off the real enums; the trivia kinds are discovered by lexing a probe
    /// that contains one token of each trivia class.
    pub fn probe() -> Lang {
        let mut trivia: Vec<(u16, u16)> = Vec::new();
        for t in lex(" //x\n(*x*)/*y*/{x}\t") {
            if t.kind.is_trivia() {
                let p = (t.kind as u16, trust_syntax::syntax::SyntaxKind::from(t.kind) as u16);
                if !trivia.contains(&p) {
                    trivia.push(p);
                }
            }
        }
        trivia.sort();
        Lang {
            int: TokenKind::IntLiteral as u16,
            dot: TokenKind::Dot as u16,
            dotdot: TokenKind::DotDot as u16,
            eof: TokenKind::Eof as u16,
            trivia,
        }
    }
    fn is_trivia(&self, k: u16) -> bool {
        self.trivia.iter().any(|(t, _)| *t == k)
    }
}

fn event_word(e: &Event) -> String {
    match e {
        Event::Start { kind, forward_parent: None } => format!("S{}", *kind as u16),
        Event::Start { kind, forward_parent: Some(fp) } => format!("S{}+{}", *kind as u16, fp),
        Event::Token { kind, n_tokens: 1 } => format!("T{}", *kind as u16),
        Event::Token { kind, n_tokens } => format!("T{}*{}", *kind as u16, n_tokens),
        Event::Finish => "F".into(),
        Event::Placeholder => "P".into(),
    }
}

/// The premises of `c12_sink_lossless_events`, evaluated by the harness independently of the model.
fn premises(lang: &Lang, src: &str, toks: &[(u16, usize, usize)], skinds: &[u16], events: &[Event]) -> [bool; 6] {
    // E1: the raw event list is one bracket: first event a Start, depth >= 1 strictly inside,
    //     depth 0 exactly at the end.
    let mut e1 = matches!(events.first(), Some(Event::Start { .. }));
    let mut depth = 0i64;
    for (i, e) in events.iter().enumerate() {
        match e {
            Event::Start { .. } => depth += 1,
            Event::Finish => depth -= 1,
            _ => {}
        }
        if depth < 0 || (depth == 0 && i + 1 != events.len()) {
            e1 = false;
        }
    }
    if depth != 0 {
        e1 = false;
    }
    // E2: every forward parent points inside the list at a Start or Placeholder.
    let mut e2 = true;
    for (i, e) in events.iter().enumerate() {
        if let Event::Start { forward_parent: Some(fp), .. } = e {
            match events.get(i + *fp as usize) {
                Some(Event::Start { .. }) | Some(Event::Placeholder) if *fp >= 1 => {}
                _ => e2 = false,
            }
        }
    }
    // E3: the token cursor of the sink ends at tokens.len().
    let eat = |mut c: usize| {
        while c < toks.len() && lang.is_trivia(toks[c].0) {
            c += 1;
        }
        c
    };
    // E4: every Token event carries the SyntaxKind of the token(s) it makes the sink consume
    //     (`skinds[i]` = `SyntaxKind::from(tokens[i].kind)`).
    let mut e4 = true;
    let mut cur = 0usize;
    for e in events {
        match e {
            Event::Token { n_tokens, kind } => {
                cur = eat(cur);
                for _ in 0..*n_tokens {
                    if cur < toks.len() {
                        if skinds.get(cur).copied() != Some(*kind as u16) {
                            e4 = false;
                        }
                        cur += 1;
                    }
                }
            }
            Event::Finish => cur = eat(cur),
            _ => {}
        }
    }
    // no token of kind Eof; every token boundary is a character boundary and the tokens tile the text
    let noeof = toks.iter().all(|t| t.0 != lang.eof);
    let bounds = toks.iter().all(|t| src.is_char_boundary(t.1) && src.is_char_boundary(t.2)) && tiles(toks, src.len());
    [e1, e2, cur == toks.len(), noeof, bounds, e4]
}

fn events_hash(events: &[Event]) -> u64 {
    let mut h = Fnv::new();
    for e in events {
        match e {
            Event::Start { kind, forward_parent: None } => {
                h.byte(1);
                h.u16(*kind as u16);
            }
            Event::Start { kind, forward_parent: Some(d) } => {
                h.byte(2);
                h.u16(*kind as u16);
                h.u32(*d);
            }
            Event::Token { kind, n_tokens } => {
                h.byte(3);
                h.u16(*kind as u16);
                h.u32(*n_tokens as u32);
            }
            Event::Finish => h.byte(4),
            Event::Placeholder => h.byte(5),
        }
    }
    h.0
}

fn ranges_hash(rs: &[(usize, usize, String)]) -> u64 {
    let mut h = Fnv::new();
    for (a, b, _) in rs {
        h.u32(*a as u32);
        h.u32(*b as u32);
    }
    h.0
}

/// Reconstruct a sequence of parser operations (`Parser::start` / `Marker::complete` /
/// `CompletedMarker::precede` / `bump` / `error`) that yields exactly `events` and `errors` when run
/// by the *model* of the parser infrastructure: every non-root `Start` becomes a marker (`s`, or
/// `p<src>` when a forward parent of `src` points at it), its matching `Finish` a `c<pos>:<kind>`,
/// every `Token` a `b`; each error is placed as early as possible (as soon as the token with its range
/// is the current one, or at the end of input for `0..0`).  `None` = the stream does not have the
/// shape any run of the real infrastructure produces.
fn reconstruct_ops(lang: &Lang, toks: &[(u16, usize, usize)], events: &[Event], errors: &[(usize, usize, String)]) -> Option<(u16, Vec<String>)> {
    let n = events.len();
    let root = match (events.first(), events.last()) {
        (Some(Event::Start { kind, forward_parent: None }), Some(Event::Finish)) if n >= 2 => *kind as u16,
        _ => return None,
    };
    let mut src_of: std::collections::HashMap<usize, usize> = Default::default();
    for (i, e) in events.iter().enumerate() {
        if let Event::Start { forward_parent: Some(d), .. } = e {
            let t = i + *d as usize;
            if t >= n || src_of.insert(t, i).is_some() {
                return None;
            }
        }
    }
    let mut ops: Vec<String> = Vec::new();
    let mut stack: Vec<usize> = vec![0];
    let mut cur = 0usize; // Source::cursor
    let mut pending = errors.iter().map(|(a, b, _)| (*a, *b)).peekable();
    let current_range = |cur: usize| -> (usize, usize) {
        let mut c = cur;
        while c < toks.len() && lang.is_trivia(toks[c].0) {
            c += 1;
        }
        if c < toks.len() {
            (toks[c].1, toks[c].2)
        } else {
            (0, 0)
        }
    };
    for (i, e) in events.iter().enumerate().skip(1).take(n - 2) {
        while pending.peek() == Some(&current_range(cur)) {
            ops.push("e".into());
            pending.next();
        }
        match e {
            Event::Start { .. } => {
                match src_of.get(&i) {
                    Some(s) => ops.push(format!("p{s}")),
                    None => ops.push("s".into()),
                }
                stack.push(i);
            }
            Event::Token { n_tokens: 1, .. } => {
                ops.push("b".into());
                while cur < toks.len() && lang.is_trivia(toks[cur].0) {
                    cur += 1;
                }
                if cur < toks.len() {
                    cur += 1;
                }
            }
            Event::Finish => {
                let m = stack.pop()?;
                if m == 0 {
                    return None;
                }
                match &events[m] {
                    Event::Start { kind, .. } => ops.push(format!("c{m}:{}", *kind as u16)),
                    _ => return None,
                }
            }
            _ => return None,
        }
    }
    while pending.peek() == Some(&current_range(cur)) {
        ops.push("e".into());
        pending.next();
    }
    if pending.peek().is_some() || stack != vec![0] {
        return None;
    }
    Some((root, ops))
}

struct ParseObs {
    /// the leaf tokens of the tree in order: (SyntaxKind code, start, end)
    leaves: Vec<(u16, usize, usize)>,
    dump: TreeDump,
    text_eq: bool,
    errors: Vec<(usize, usize, String)>,
    green: rowan::GreenNode,
}

fn observe_parse(src: &str) -> Option<ParseObs> {
    catch_unwind(AssertUnwindSafe(|| {
        let p = parse(src);
        let root = p.syntax();
        let dump = dump_tree(&root);
        let text_eq = root.text().to_string() == src && usize::from(root.text_range().end()) == src.len();
        let errors = p
            .errors()
            .iter()
            .map(|e| (usize::from(e.range.start()), usize::from(e.range.end()), e.message.clone()))
            .collect();
        let leaves = root
            .descendants_with_tokens()
            .filter_map(|el| el.into_token())
            .map(|t| (t.kind() as u16, usize::from(t.text_range().start()), usize::from(t.text_range().end())))
            .collect();
        ParseObs {
            leaves,
            dump,
            text_eq,
            errors,
            green: root.green().into_owned(),
        }
    }))
    .ok()
}

/// Light observation for the exhaustive families: number of errors, first error, shape hash (only
/// computed when asked for), text of the tree equals the input, every error range inside the text.
/// No leaf list, no copy of the green tree.
struct LightObs {
    n_errors: usize,
    first_error: Option<(usize, usize, String)>,
    shape: u64,
    text_eq: bool,
    errors_inside: bool,
}

fn observe_light(src: &str, want_shape: bool) -> Option<LightObs> {
    catch_unwind(AssertUnwindSafe(|| {
        let p = parse(src);
        let root = p.syntax();
        let errs = p.errors();
        let first_error = errs.first().map(|e| (usize::from(e.range.start()), usize::from(e.range.end()), e.message.clone()));
        let errors_inside = errs.iter().all(|e| e.range.start() <= e.range.end() && usize::from(e.range.end()) <= src.len());
        let text_eq = usize::from(root.text_range().end()) == src.len() && root.text() == src;
        let shape = if want_shape { dump_tree(&root).shape } else { 0 };
        LightObs {
            n_errors: errs.len(),
            first_error,
            shape,
            text_eq,
            errors_inside,
        }
    }))
    .ok()
}

/// One inserted piece of trivia at a token boundary (byte offset in the original text).
type Insertion = (usize, &'static str);

const TRIVIA_PIECES: &[&str] = &[
    " ", " ", "\n", "\n", "\t", "  ", "\r\n", " \n ", "(* c *)", "(**)", "/* c */", "/**/",
    "(* a (* nested *) b *)", "/* x /* y */ z */", " (* c *) ", "\n(* c *)\n", "(* \u{e9}\u{1F600} *)",
];

fn apply_insertions(src: &str, ins: &[Insertion]) -> String {
    let mut out = String::with_capacity(src.len() + ins.len() * 8);
    let mut pos = 0usize;
    for (at, piece) in ins {
        out.push_str(&src[pos..*at]);
        out.push_str(piece);
        pos = *at;
    }
    out.push_str(&src[pos..]);
    out
}

/// The texts of the significant (non-trivia) tokens, in order.  An insertion of trivia at a token
/// boundary is "clean" when these texts are untouched (an inserted piece may otherwise fuse with its
/// neighbour, e.g. `/` + `/* c */` = `//* c */`).  The token KINDS are deliberately not part of the
/// criterion: a lexer that classifies the same word differently depending on the trivia next to it
/// (`cfg.ON` vs `cfg. ON`) changes the tree shape, which is exactly what the clause forbids - such an
/// insertion must be parsed and compared, not skipped.
fn significant(lang: &Lang, src: &str, toks: &[(u16, usize, usize)]) -> Vec<String> {
    toks.iter()
        .filter(|t| !lang.is_trivia(t.0))
        .map(|t| src[t.1..t.2].to_string())
        .collect()
}

/// Signature of the recorded finding C12-lexer-context-dependent-literal: the inserted trivia changed the KIND
/// of tokens whose text is unchanged, and every such token is a `#` form (`TOD#14:30:00`, `D#2024-01-15`, `T#1s`,
/// `INT#` ...): the lexer labels a temporal / typed literal directly followed by `..` (or another continuation)
/// as an Ident.  Any other kind flip (a keyword, an operator) is not this finding.
fn lexer_context_literal_flips(src: &str, toks: &[(u16, usize, usize)], s2: &str, toks2: &[(u16, usize, usize)], lang: &Lang) -> Option<String> {
    let a: Vec<&(u16, usize, usize)> = toks.iter().filter(|t| !lang.is_trivia(t.0)).collect();
    let b: Vec<&(u16, usize, usize)> = toks2.iter().filter(|t| !lang.is_trivia(t.0)).collect();
    if a.len() != b.len() {
        return None;
    }
    let mut flips = Vec::new();
    for (x, y) in a.iter().zip(b.iter()) {
        let (tx, ty) = (&src[x.1..x.2], &s2[y.1..y.2]);
        if tx != ty {
            return None;
        }
        if x.0 != y.0 {
            if !tx.contains('#') {
                return None;
            }
            flips.push(format!("{tx}:{}->{}", x.0, y.0));
        }
    }
    if flips.is_empty() {
        None
    } else {
        Some(flips.join(","))
    }
}

const LEXER_CONTEXT_WITNESS: &str = "PROGRAM p\nVAR a : ARRAY[TOD#14:30:00..DT#2024-01-15-14:30:00, 0..3] OF WORD; END_VAR\nEND_PROGRAM\n";

/// Which boundaries of a text receive insertions.
#[derive(Clone, Copy)]
enum Bounds {
    /// every token boundary, including those next to existing trivia, and both ends of the text
    All,
    /// the start of every significant token and the end of the text (= between every pair of
    /// adjacent significant tokens)
    Significant,
    /// only the boundaries of the `w` significant tokens on either side of byte offset `at`
    Near { at: usize, w: usize },
}

/// Exhaustive form of the trivia-insertion clause for one text that the CURRENT parser accepts
/// without errors (`shape` = its trivia-free shape hash): every piece at every selected boundary.  Returns
/// (insertions checked, first failures).
fn insertion_sweep(lang: &Lang, src: &str, shape: u64, pieces: &[&str], which: Bounds, max_fails: usize) -> (u64, Vec<String>) {
    let mut fails = Vec::new();
    let toks: Vec<(u16, usize, usize)> = match catch_unwind(AssertUnwindSafe(|| lex(src).iter().map(tok3).collect())) {
        Ok(t) => t,
        Err(_) => return (0, vec!["lexer-panic".into()]),
    };
    let sig = significant(lang, src, &toks);
    let mut bounds: Vec<usize> = match which {
        Bounds::All => toks.iter().map(|t| t.1).collect(),
        Bounds::Significant => toks.iter().filter(|t| !lang.is_trivia(t.0)).map(|t| t.1).collect(),
        Bounds::Near { at, w } => {
            let st: Vec<&(u16, usize, usize)> = toks.iter().filter(|t| !lang.is_trivia(t.0)).collect();
            let i = st.iter().position(|t| t.2 > at).unwrap_or(st.len());
            let mut b = Vec::new();
            for t in &st[i.saturating_sub(w)..(i + w + 1).min(st.len())] {
                b.push(t.1);
                b.push(t.2);
            }
            b.sort();
            b
        }
    };
    if !matches!(which, Bounds::Near { .. }) {
        bounds.push(src.len());
    }
    bounds.dedup();
    let mut checked = 0u64;
    for at in bounds {
        for piece in pieces {
            if fails.len() >= max_fails {
                return (checked, fails);
            }
            let s2 = format!("{}{}{}", &src[..at], piece, &src[at..]);
            let toks2: Vec<(u16, usize, usize)> = match catch_unwind(AssertUnwindSafe(|| lex(&s2).iter().map(tok3).collect())) {
                Ok(t) => t,
                Err(_) => {
                    fails.push(format!("trivia-insertion lexer panic: {piece:?} at {at} in {src:?}"));
                    continue;
                }
            };
            if sig != significant(lang, &s2, &toks2) {
                continue;
            }
            checked += 1;
            match observe_light(&s2, true) {
                Some(q) => {
                    if let Some((a, b, m)) = &q.first_error {
                        let tag = lexer_context_literal_flips(src, &toks, &s2, &toks2, lang).map(|fl| format!(" [lexer-context-literal {fl}]")).unwrap_or_default();
                        fails.push(format!("trivia-insertion introduces errors{tag}: {piece:?} inserted at offset {at} of the error-free text {src:?} gives {s2:?} with {} error(s), first {a}..{b} {m:?}", q.n_errors));
                    } else if q.shape != shape {
                        let tag = lexer_context_literal_flips(src, &toks, &s2, &toks2, lang).map(|fl| format!(" [lexer-context-literal {fl}]")).unwrap_or_default();
                        fails.push(format!("trivia-insertion changes shape{tag}: {piece:?} inserted at offset {at} of the error-free text {src:?} gives {s2:?} with another tree shape"));
                    } else if !q.text_eq {
                        fails.push(format!("trivia-insertion: tree text differs: {piece:?} inserted at offset {at} of {src:?}"));
                    }
                }
                None => fails.push(format!("trivia-insertion parse panic: {piece:?} inserted at offset {at} of the error-free text {src:?} gives {s2:?}")),
            }
        }
    }
    (checked, fails)
}

// ------------------------------------------------------------------------------------------------
// one case
// ------------------------------------------------------------------------------------------------

pub struct CaseInput {
    pub class: &'static str,
    pub note: String,
    pub text: String,
    /// boundaries (indices into the token list, 0..=len) and pieces are chosen from this stream
    pub ins_seed: u64,
    /// structured injection: the valid base text and the byte offset (a token boundary) at which
    /// every word of the token table is injected
    pub sweep: Option<Sweep>,
    /// nesting-guard family: the number of `parse_expr_bp` levels the text needs and whether the real
    /// code must therefore report the nesting-limit error
    pub guard: Option<Guard>,
    /// verdicts / notes computed before `run_case` (the sweep over the injected variants)
    pub pre_fails: Vec<String>,
    pub pre_notes: Vec<String>,
}

#[derive(Clone, Debug)]
pub struct Guard {
    pub form: &'static str,
    pub units: u64,
    pub levels: u64,
    /// single parse, no model operations (deep trees make rowan quadratic)
    pub light: bool,
    /// which nesting guard bounds the form (K_EXPR, K_STMT, K_TYPE, K_NS)
    pub kind: usize,
}

#[derive(Clone)]
pub struct Sweep {
    pub name: String,
    pub base: String,
    pub at: usize,
}

/// Run the real code on `input` and append the case block to `out`.  Returns false when an oracle
/// failed (only used for statistics; the verdict is taken from the `# oracle` lines).
/// Above this many tokens the model operations are not written (the list-based Lean model is
/// quadratic in the number of tokens); the oracle still runs.
pub static MAX_MODEL_TOKENS: std::sync::atomic::AtomicUsize = std::sync::atomic::AtomicUsize::new(3000);
/// Above this many events the `parse` operation is not written (the model parser appends to a list).
pub static MAX_PARSE_EVENTS: std::sync::atomic::AtomicUsize = std::sync::atomic::AtomicUsize::new(4000);

pub fn run_case(n: u64, input: &CaseInput, lang: &Lang, out: &mut Out, dump: bool) -> bool {
    if input.guard.as_ref().map(|g| g.light).unwrap_or(false) {
        return run_case_light(n, input, lang, out);
    }
    let src = input.text.as_str();
    let t_start = std::time::Instant::now();
    let mut fails: Vec<String> = input.pre_fails.clone();
    let mut nontrivial = false;
    out.line(format!("case {n}"));
    out.line(format!("# class {} {}", input.class, input.note));
    for l in &input.pre_notes {
        out.line(format!("# {l}"));
    }
    out.count(&format!("class_{}", input.class));
    out.add("bytes", src.len() as u64);
    // ---- lexer ----
    let raw = catch_unwind(AssertUnwindSafe(|| raw_lex(src))).ok();
    let ltoks: Option<Vec<Token>> = catch_unwind(AssertUnwindSafe(|| lex(src))).ok();
    let toks: Option<Vec<(u16, usize, usize)>> = ltoks.as_ref().map(|l| l.iter().map(tok3).collect());
    let skinds: Vec<u16> = ltoks
        .as_ref()
        .map(|l| l.iter().map(|t| trust_syntax::syntax::SyntaxKind::from(t.kind) as u16).collect())
        .unwrap_or_default();
    out.line(lang_line(lang, ltoks.as_deref().unwrap_or(&[])));
    out.line(format!("src {}", hex(src.as_bytes())));
    let model_ops = toks
        .as_ref()
        .map(|t| t.len() <= MAX_MODEL_TOKENS.load(std::sync::atomic::Ordering::Relaxed))
        .unwrap_or(true);
    if !model_ops {
        out.line("# model operations skipped (more than MAX_MODEL_TOKENS tokens); oracle only");
        out.count("cases_oracle_only");
    }
    match (&raw, &toks) {
        (Some(raw), Some(toks)) => {
            let rawtiles = tiles(raw, src.len());
            let t = tiles(toks, src.len());
            if model_ops {
                let mut l = String::from("raw");
                if raw.is_empty() {
                    l.push_str(" -");
                }
                for (k, s, e) in raw {
                    let _ = write!(l, " {k} {s} {e}");
                }
                out.line(l);
                out.line("lex");
                out.line(format!(
                    "impl n={} h={:016x} tiles={} rawtiles={}",
                    toks.len(),
                    tokens_hash(toks),
                    t as u8,
                    rawtiles as u8
                ));
            }
            if !t {
                fails.push("token-tiling".into());
            }
            if !rawtiles {
                fails.push("raw-token-tiling(premise)".into());
            }
            // concatenated token texts equal the input byte for byte
            let concat_ok = catch_unwind(AssertUnwindSafe(|| {
                let mut s = String::with_capacity(src.len());
                for (_, a, b) in toks {
                    s.push_str(&src[*a..*b]);
                }
                s == src
            }))
            .unwrap_or(false);
            if !concat_ok {
                fails.push("token-texts-concat".into());
            }
            if raw != toks {
                out.count("lexer_postpass_fired");
                nontrivial = true;
            }
            out.add("tokens", toks.len() as u64);
        }
        _ => {
            out.line("# lexer panicked");
            fails.push("lexer-panic".into());
        }
    }

    // ---- parser ----
    let hook = catch_unwind(AssertUnwindSafe(|| verif_parse_events(src))).ok();
    let p1 = observe_parse(src);
    if p1.is_none() {
        fails.push("parse-panic".into());
    }
    if let (Some((htoks, events)), Some(toks)) = (&hook, &toks) {
        let htoks3: Vec<_> = htoks.iter().map(tok3).collect();
        if &htoks3 != toks {
            fails.push("hook-tokens-differ-from-lex".into());
        }
        // the trivia table must classify every token exactly as the real `is_trivia`
        for t in htoks {
            if t.kind.is_trivia() != lang.is_trivia(t.kind as u16) {
                fails.push("harness-trivia-table-incomplete".into());
                break;
            }
        }
        if model_ops {
            let mut l = String::from("toks");
            if toks.is_empty() {
                l.push_str(" -");
            } else if raw.as_ref() == Some(toks) {
                // the post-pass changed nothing: the driver reuses the `raw` line
                l.push_str(" =");
            } else {
                for (k, s, e) in toks {
                    let _ = write!(l, " {k} {s} {e}");
                }
            }
            out.line(l);
            let mut l = String::from("ev");
            for e in events {
                l.push(' ');
                l.push_str(&event_word(e));
            }
            out.line(l);
        }
        out.add("events", events.len() as u64);
        let nfp = events
            .iter()
            .filter(|e| matches!(e, Event::Start { forward_parent: Some(_), .. }))
            .count();
        out.add("forward_parents", nfp as u64);
        if nfp > 0 {
            nontrivial = true;
            out.count("cases_with_forward_parent");
        }
        if model_ops {
            out.line("sink");
        }
        let prem = premises(lang, src, toks, &skinds, events);
        let prem_s: String = prem.iter().map(|b| if *b { '1' } else { '0' }).collect();
        match &p1 {
            Some(p) => {
                if model_ops {
                    out.line(format!(
                        "impl ok nodes={} toks={} h={:016x} text={} prem={}",
                        p.dump.nodes, p.dump.tokens, p.dump.hash, p.text_eq as u8, prem_s
                    ));
                }
                out.add("tree_nodes", p.dump.nodes);
                let d = p.dump.max_depth;
                out.count(if d < 8 {
                    "tree_depth_lt8"
                } else if d < 32 {
                    "tree_depth_8_31"
                } else if d < 256 {
                    "tree_depth_32_255"
                } else {
                    "tree_depth_ge256"
                });
            }
            None => {
                if model_ops {
                    out.line("impl panic")
                }
            }
        }
        if prem.iter().any(|b| !*b) {
            fails.push(format!("premise-monitor balanced,fp,consumed,noeof,boundaries,kinds={prem_s}"));
        }
        // the model of the parser infrastructure, run on operations reconstructed from the real stream,
        // must reproduce the real events and error ranges; the operations must respect the Marker
        // discipline and end at the end of input
        if let Some(p) = &p1 {
            match reconstruct_ops(lang, toks, events, &p.errors) {
                Some((root, ops)) => {
                    if model_ops && events.len() <= MAX_PARSE_EVENTS.load(std::sync::atomic::Ordering::Relaxed) {
                        out.line(format!("pops {}", if ops.is_empty() { "-".to_string() } else { ops.join(" ") }));
                        out.line(format!("parse {root}"));
                        out.line(format!(
                            "impl ok n={} ev={:016x} errs={:016x} disc=1 atend=1",
                            events.len(),
                            events_hash(events),
                            ranges_hash(&p.errors)
                        ));
                    }
                    out.add("parser_ops", ops.len() as u64);
                }
                None => fails.push("event/error stream is not reproducible by parser operations (marker discipline monitor)".into()),
            }
        }
    } else if hook.is_none() {
        out.line("# parser (event hook) panicked");
        fails.push("parser-panic".into());
    }

    if let (Some(p), Some(g)) = (&p1, &input.guard) {
        if let Some(f) = guard_verdict(g, &p.errors) {
            fails.push(f);
        }
    }
    if let Some(p) = &p1 {
        if !p.text_eq {
            fails.push("tree-text-differs-from-input".into());
        }
        // the leaves of the tree are exactly the lexer's tokens, in order, with the lexer's kinds
        // (parser cursor and sink cursor stay in step)
        if let Some(lt) = catch_unwind(AssertUnwindSafe(|| lex(src))).ok() {
            let want: Vec<(u16, usize, usize)> = lt
                .iter()
                .map(|t| {
                    (
                        trust_syntax::syntax::SyntaxKind::from(t.kind) as u16,
                        usize::from(t.range.start()),
                        usize::from(t.range.end()),
                    )
                })
                .collect();
            if want != p.leaves {
                let at = want.iter().zip(p.leaves.iter()).position(|(a, b)| a != b).unwrap_or(want.len().min(p.leaves.len()));
                fails.push(format!(
                    "tree-leaves-differ-from-lexer-tokens at #{at}: lexer {:?} tree {:?}",
                    want.get(at),
                    p.leaves.get(at)
                ));
            }
        }
        // error ranges
        let mut l = String::from("errs");
        if p.errors.is_empty() {
            l.push_str(" -");
        }
        let mut inb = true;
        let mut attok = true;
        let sig_ranges: std::collections::HashSet<(usize, usize)> = toks
            .as_ref()
            .map(|ts| ts.iter().filter(|t| !lang.is_trivia(t.0)).map(|t| (t.1, t.2)).collect())
            .unwrap_or_default();
        for (a, b, _) in &p.errors {
            if model_ops {
                let _ = write!(l, " {a} {b}");
            }
            if !(a <= b && *b <= src.len()) {
                inb = false;
            }
            if !(sig_ranges.contains(&(*a, *b)) || (*a == 0 && *b == 0)) {
                attok = false;
            }
        }
        if toks.is_some() && hook.is_some() && model_ops {
            out.line(l);
            out.line(format!("impl n={} inb={} attok={}", p.errors.len(), inb as u8, attok as u8));
        }
        if !inb {
            fails.push("error-range-outside-text".into());
        }
        if !attok {
            fails.push("error-range-not-a-token-range".into());
        }
        if !p.errors.is_empty() {
            nontrivial = true;
            out.count("cases_with_errors");
            out.add("errors", p.errors.len() as u64);
        } else {
            out.count("cases_error_free");
        }
        // purity: a second parse (after parsing something else) gives the same green tree and errors
        let _ = catch_unwind(AssertUnwindSafe(|| parse("PROGRAM q x := 1 +; END_PROGRAM")));
        match observe_parse(src) {
            Some(p2) => {
                if p2.green != p.green || p2.errors != p.errors || p2.dump != p.dump {
                    fails.push("impure-second-parse-differs".into());
                }
            }
            None => fails.push("impure-second-parse-panicked".into()),
        }
        if src == LEXER_CONTEXT_WITNESS && p.errors.is_empty() {
            let (_, f) = insertion_sweep(lang, src, p.dump.shape, &[" ", "(* c *)"], Bounds::Significant, 4);
            fails.extend(f);
        }
        // trivia insertion (error-free inputs only)
        if p.errors.is_empty() {
            if let Some(toks) = &toks {
                let mut r = Rng::new(input.ins_seed);
                let rounds = 2;
                for _ in 0..rounds {
                    let k = 1 + r.below(6) as usize;
                    let mut at: Vec<usize> = (0..k)
                        .map(|_| {
                            let b = r.below(toks.len() as u64 + 1) as usize;
                            if b == toks.len() {
                                src.len()
                            } else {
                                toks[b].1
                            }
                        })
                        .collect();
                    at.sort();
                    let ins: Vec<Insertion> = at.into_iter().map(|a| (a, *r.pick(TRIVIA_PIECES))).collect();
                    let s2 = apply_insertions(src, &ins);
                    let toks2: Vec<(u16, usize, usize)> = match catch_unwind(AssertUnwindSafe(|| lex(&s2).iter().map(tok3).collect())) {
                        Ok(t) => t,
                        Err(_) => {
                            fails.push(format!("trivia-insertion lexer panic ins={ins:?}"));
                            continue;
                        }
                    };
                    // the insertion is "clean" when the significant tokens are untouched (an inserted
                    // piece may otherwise fuse with its neighbour, e.g. `/` + `/* c */` = `//* c */`)
                    if significant(lang, src, toks) != significant(lang, &s2, &toks2) {
                        out.count("insertion_not_clean_skipped");
                        continue;
                    }
                    match observe_parse(&s2) {
                        Some(q) => {
                            out.count("insertion_checked");
                            if q.dump.shape != p.dump.shape {
                                match lexer_context_literal_flips(src, toks, &s2, &toks2, lang) {
                                    Some(fl) => fails.push(format!("trivia-insertion changes shape [lexer-context-literal {fl}] ins={ins:?}")),
                                    None => fails.push(format!("trivia-insertion changes shape ins={ins:?}")),
                                }
                            } else if !q.errors.is_empty() {
                                fails.push(format!("trivia-insertion introduces errors ins={ins:?} errs={:?}", q.errors));
                            }
                            if !q.text_eq {
                                fails.push(format!("trivia-insertion: tree text differs ins={ins:?}"));
                            }
                        }
                        None => fails.push(format!("trivia-insertion parse panic ins={ins:?}")),
                    }
                }
            }
        }
        if dump {
            eprintln!("--- source ---\n{src}\n--- tree ---\n{}--- errors ---", pretty_tree(&SyntaxNode::new_root(p.green.clone())));
            for e in &p.errors {
                eprintln!("{e:?}");
            }
        }
    }

    out.add(&format!("ms_class_{}", input.class), t_start.elapsed().as_millis() as u64);
    if input.class == "deep" {
        let kind: String = input.note.split(" d=").next().unwrap_or("").split(" n=").next().unwrap_or("").to_string();
        out.add(&format!("ms_deep_{kind}"), t_start.elapsed().as_millis() as u64);
    }
    if fails.is_empty() {
        out.line("# oracle ok");
    } else {
        for f in &fails {
            out.line(format!("# oracle FAIL {f}"));
            out.count("oracle_failures");
        }
    }
    if nontrivial {
        out.line("tag nontrivial");
    }
    out.line("end");
    fails.is_empty()
}

// ------------------------------------------------------------------------------------------------
// generators
// ------------------------------------------------------------------------------------------------

pub struct Ctx {
    /// (path relative to the repo, content) of every `.st` file of the corpus, sorted by path
    pub corpus: Vec<(String, String)>,
    /// every `#[token("...")]` string of `lexer/tokens.rs` (keywords and punctuation)
    pub words: Vec<String>,
    pub max_bytes: usize,
}

fn walk_st(dir: &std::path::Path, out: &mut Vec<std::path::PathBuf>) {
    let Ok(rd) = std::fs::read_dir(dir) else { return };
    let mut entries: Vec<_> = rd.filter_map(|e| e.ok()).map(|e| e.path()).collect();
    entries.sort();
    for p in entries {
        let name = p.file_name().map(|s| s.to_string_lossy().to_string()).unwrap_or_default();
        if p.is_dir() {
            if name == "target" || name == ".git" || name == "node_modules" || name == "vendor" {
                continue;
            }
            walk_st(&p, out);
        } else if name.ends_with(".st") || name.ends_with(".ST") {
            out.push(p);
        }
    }
}

impl Ctx {
    pub fn load(repo: &str, max_bytes: usize) -> Result<Ctx, String> {
        let root = std::path::Path::new(repo);
        let mut files = Vec::new();
        for sub in ["examples", "conformance", "tests", "manual-tests", "crates", "src"] {
            walk_st(&root.join(sub), &mut files);
        }
        let mut corpus = Vec::new();
        for f in files {
            if let Ok(text) = std::fs::read_to_string(&f) {
                if !text.is_empty() {
                    let rel = f.strip_prefix(root).unwrap_or(&f).display().to_string();
                    corpus.push((rel, text));
                }
            }
        }
        if corpus.len() < 20 {
            return Err(format!("corpus too small: {} .st files under {repo}", corpus.len()));
        }
        let tokens_rs = root.join("crates/trust-syntax/src/lexer/tokens.rs");
        let text = std::fs::read_to_string(&tokens_rs).map_err(|e| format!("{}: {e}", tokens_rs.display()))?;
        let mut words = Vec::new();
        let pat = "#[token(\"";
        let mut rest = text.as_str();
        while let Some(i) = rest.find(pat) {
            rest = &rest[i + pat.len()..];
            if let Some(j) = rest.find('"') {
                words.push(rest[..j].to_string());
                rest = &rest[j..];
            }
        }
        if words.len() < 150 {
            return Err(format!("keyword table not found in {} ({} entries)", tokens_rs.display(), words.len()));
        }
        Ok(Ctx {
            corpus,
            words,
            max_bytes,
        })
    }
}

fn clip(mut s: String, max: usize) -> String {
    if s.len() > max {
        let mut cut = max;
        while !s.is_char_boundary(cut) {
            cut -= 1;
        }
        s.truncate(cut);
    }
    s
}

fn random_char(r: &mut Rng) -> char {
    match r.below(16) {
        0..=4 => (0x20 + r.below(0x5f) as u8) as char,
        5 => *r.pick(&['\0', '\t', '\r', '\n', '\x7f', '\x0b', '\x0c', '\x1b']),
        6 => *r.pick(&['\'', '"', '$', '{', '}', '(', '*', ')', '/', '.', '#', '%', '_', ':', '=', '<', '>', '&', '^', '@', '?', '\\', '`', '~', '|', '!']),
        7 => char::from_u32(0xA0 + r.below(0x60) as u32).unwrap_or('\u{e9}'),
        8 => *r.pick(&['\u{feff}', '\u{2028}', '\u{2029}', '\u{a0}', '\u{200b}', '\u{200d}', '\u{301}', '\u{fffd}', '\u{ffff}', '\u{85}', '\u{3000}']),
        9 => *r.pick(&['\u{1F600}', '\u{10000}', '\u{10FFFF}', '\u{1D11E}', '\u{1F468}', '\u{E0001}']),
        10 => *r.pick(&['\u{ff21}', '\u{ff10}', '\u{ff1b}', '\u{ff08}', '\u{2212}', '\u{37e}', '\u{430}', '\u{3b1}', '\u{5d0}', '\u{661}']),
        11 => (b'0' + r.below(10) as u8) as char,
        _ => loop {
            let c = r.below(0x11_0000) as u32;
            if let Some(c) = char::from_u32(c) {
                break c;
            }
        },
    }
}

fn gen_unicode(r: &mut Rng) -> String {
    let len = match r.below(8) {
        0 => r.below(3),
        1..=4 => r.below(40),
        _ => r.below(400),
    } as usize;
    (0..len).map(|_| random_char(r)).collect()
}

const IDENTS: &[&str] = &["x", "y", "i", "Foo", "bar_1", "_tmp", "Motor", "fb", "a", "b", "T", "D", "e5", "E", "X0", "MyEnum", "ns", "R_TRIG", "value"];

const LITERALS: &[&str] = &[
    "0", "1", "42", "1_000", "007", "1.", "1..", "1...", "1..2", "1.5", "1.e5", "1.5e-3", "1.5E+", "1e5", "3.", "3.x", "3._1", "1_", "1__2",
    "16#FF", "16#FF.", "16#", "16#G", "2#1010", "2#1010.", "2#2", "8#77", "8#8", "10#5", "16#FF_", "16#F_F",
    "T#1s", "T#1s.", "T#1.5s", "T#1.s", "TIME#-5s", "t#1h30m", "LT#14.7s", "LTIME#5m_30s_500ms_100.1us", "T#", "T#5", "T#5x",
    "D#2024-01-15", "DATE#2024-01-15", "D#2024-1-15", "LD#1984-06-25", "TOD#14:30:00", "TOD#14:30:00.", "TOD#14:30:00.5", "LTOD#15:36:55.360_227_400",
    "DT#2024-01-15-14:30:00", "DT#2024-01-15-14:30:00.", "LDT#1984-06-25-15:36:55.360_227_400", "DATE_AND_TIME#2024-01-15-14:30:00",
    "'abc'", "''", "'a$'b'", "'$N$$'", "'$4'", "'$41'", "'abc", "'a\nb'", "\"wide\"", "\"$0041\"", "\"w", "'\u{e9}\u{1F600}'", "'$'",
    "INT#", "INT#5", "INT#-5", "INT#16#FF", "BOOL#TRUE", "REAL#1.", "REAL#-1.5", "MyEnum#Red", "INT#+", "#", "INT##",
    "%IX0.0", "%IX0.", "%IX0..1", "%QW10", "%MD100", "%I*", "%Q", "%", "%IX", "%X1", "%MW1.2.3", "%MW1.2.3.",
];

const TRIVIA_SAMPLES: &[&str] = &[
    " ", " ", " ", "\n", "\n", "\t", "\r\n", "  ", "// c\n", "// c", "//", "(* c *)", "(* (* n *) *)", "(* open", "(*", "(*)", "*)", "(* \u{e9}", "/* \u{1F600}",
    "/* c */", "/* /* n */ */", "/* open", "/*", "/*/", "*/", "{pragma}", "{}", "{ open", "}", "{a}{b}", "(* \u{1F600} *)",
];

fn vary_case(r: &mut Rng, w: &str) -> String {
    match r.below(6) {
        0 => w.to_lowercase(),
        1 => w
            .chars()
            .map(|c| if r.bool() { c.to_ascii_lowercase() } else { c })
            .collect(),
        _ => w.to_string(),
    }
}

fn soup_word(r: &mut Rng, ctx: &Ctx) -> String {
    match r.below(20) {
        0..=8 => {
            let w = r.pick(&ctx.words);
            vary_case(r, w)
        }
        9..=11 => r.pick(IDENTS).to_string(),
        12..=15 => r.pick(LITERALS).to_string(),
        16..=17 => r.pick(TRIVIA_SAMPLES).to_string(),
        18 => random_char(r).to_string(),
        _ => r.pick(&[";", ";", ":=", ":", "(", ")", ",", ".", "[", "]"]).to_string(),
    }
}

fn gen_soup(r: &mut Rng, ctx: &Ctx) -> String {
    let n = match r.below(6) {
        0 => r.below(4),
        1..=3 => r.below(30),
        _ => r.below(200),
    };
    let glue = r.below(4); // 0: mostly no separator, else mostly spaces
    let mut s = String::new();
    for _ in 0..n {
        let w = soup_word(r, ctx);
        s.push_str(&w);
        let sep = if glue == 0 { r.below(3) == 0 } else { r.below(8) != 0 };
        if sep {
            s.push_str(*r.pick(&[" ", " ", " ", "\n", "\t", "  "]));
        }
    }
    s
}

/// A window of a corpus file of at most `max` bytes, cut at token boundaries.
fn corpus_window(r: &mut Rng, ctx: &Ctx) -> (String, String) {
    let (name, text) = r.pick(&ctx.corpus);
    if text.len() <= ctx.max_bytes {
        return (name.clone(), text.clone());
    }
    let toks = lex(text);
    let start_tok = r.below(toks.len() as u64) as usize;
    let a = usize::from(toks[start_tok].range.start());
    let mut b = a;
    for t in &toks[start_tok..] {
        let e = usize::from(t.range.end());
        if e - a > ctx.max_bytes {
            break;
        }
        b = e;
    }
    (format!("{name}[{a}..{b}]"), text[a..b].to_string())
}

fn char_boundary_at_or_before(s: &str, mut i: usize) -> usize {
    i = i.min(s.len());
    while !s.is_char_boundary(i) {
        i -= 1;
    }
    i
}

fn mutate(r: &mut Rng, ctx: &Ctx, text: String, notes: &mut String) -> String {
    let toks: Vec<(usize, usize, bool)> = match catch_unwind(AssertUnwindSafe(|| lex(&text))) {
        Ok(t) => t
            .iter()
            .map(|t| (usize::from(t.range.start()), usize::from(t.range.end()), t.kind.is_trivia()))
            .collect(),
        Err(_) => return text,
    };
    if toks.is_empty() {
        return soup_word(r, ctx);
    }
    let sig: Vec<usize> = (0..toks.len()).filter(|i| !toks[*i].2).collect();
    let pick_sig = |r: &mut Rng| -> usize {
        if sig.is_empty() {
            r.below(toks.len() as u64) as usize
        } else {
            sig[r.below(sig.len() as u64) as usize]
        }
    };
    let kind = r.below(14);
    let _ = write!(notes, " m{kind}");
    match kind {
        0 => {
            // delete a significant token
            let i = pick_sig(r);
            format!("{}{}", &text[..toks[i].0], &text[toks[i].1..])
        }
        1 => {
            // duplicate a token
            let i = pick_sig(r);
            format!("{}{} {}", &text[..toks[i].1], &text[toks[i].0..toks[i].1], &text[toks[i].1..])
        }
        2 => {
            // swap two significant tokens
            let (i, j) = (pick_sig(r), pick_sig(r));
            let (i, j) = (i.min(j), i.max(j));
            if i == j {
                return text;
            }
            format!(
                "{}{}{}{}{}",
                &text[..toks[i].0],
                &text[toks[j].0..toks[j].1],
                &text[toks[i].1..toks[j].0],
                &text[toks[i].0..toks[i].1],
                &text[toks[j].1..]
            )
        }
        3 => {
            // replace a token by a random word
            let i = pick_sig(r);
            let w = soup_word(r, ctx);
            format!("{}{}{}", &text[..toks[i].0], w, &text[toks[i].1..])
        }
        4 => {
            // insert a random word at a token boundary
            let i = r.below(toks.len() as u64) as usize;
            let w = soup_word(r, ctx);
            format!("{} {} {}", &text[..toks[i].0], w, &text[toks[i].0..])
        }
        5 => {
            // truncate at a random character
            let cut = char_boundary_at_or_before(&text, r.below(text.len() as u64 + 1) as usize);
            text[..cut].to_string()
        }
        6 => {
            // drop a prefix
            let cut = char_boundary_at_or_before(&text, r.below(text.len() as u64 + 1) as usize);
            text[cut..].to_string()
        }
        7 => {
            // delete a random character range
            let a = char_boundary_at_or_before(&text, r.below(text.len() as u64 + 1) as usize);
            let b = char_boundary_at_or_before(&text, (a + 1 + r.below(12) as usize).min(text.len()));
            format!("{}{}", &text[..a], &text[b.max(a)..])
        }
        8 => {
            // insert a random character
            let a = char_boundary_at_or_before(&text, r.below(text.len() as u64 + 1) as usize);
            format!("{}{}{}", &text[..a], random_char(r), &text[a..])
        }
        9 => {
            // splice: prefix of this text + suffix of another corpus text (token boundaries)
            let (_, other) = corpus_window(r, ctx);
            let otoks = lex(&other);
            let i = r.below(toks.len() as u64) as usize;
            let cut_b = if otoks.is_empty() {
                0
            } else {
                usize::from(otoks[r.below(otoks.len() as u64) as usize].range.start())
            };
            format!("{}{}", &text[..toks[i].0], &other[cut_b..])
        }
        10 => {
            // remove every semicolon / every END_* keyword with probability 1/2 each
            let mut s = String::new();
            for (a, b, _) in &toks {
                let w = &text[*a..*b];
                let drop = (w == ";" || w.to_ascii_uppercase().starts_with("END_")) && r.bool();
                if !drop {
                    s.push_str(w);
                }
            }
            s
        }
        11 => {
            // change the case of every keyword-like token
            let mut s = String::new();
            for (a, b, _) in &toks {
                let w = &text[*a..*b];
                if w.chars().all(|c| c.is_ascii_alphabetic() || c == '_') {
                    s.push_str(&vary_case(r, w));
                } else {
                    s.push_str(w);
                }
            }
            s
        }
        12 => {
            // replace a significant token by one of the literal samples (lexer edge cases in context)
            let i = pick_sig(r);
            format!("{}{}{}", &text[..toks[i].0], r.pick(LITERALS), &text[toks[i].1..])
        }
        _ => {
            // delete the whitespace between two tokens (token fusion)
            let ws: Vec<usize> = (0..toks.len()).filter(|i| toks[*i].2).collect();
            if ws.is_empty() {
                return text;
            }
            let i = ws[r.below(ws.len() as u64) as usize];
            format!("{}{}", &text[..toks[i].0], &text[toks[i].1..])
        }
    }
}

fn gen_corpus(r: &mut Rng, ctx: &Ctx, nmut: u64) -> (String, String) {
    let (name, mut text) = corpus_window(r, ctx);
    let mut notes = format!("file={name}");
    for _ in 0..nmut {
        text = mutate(r, ctx, text, &mut notes);
    }
    (notes, text)
}

// ---- valid program generator (error-free inputs for the trivia-insertion clause) -----------------

struct Gen<'a> {
    r: &'a mut Rng,
    s: String,
    budget: i64,
}

impl Gen<'_> {
    fn w(&mut self, t: &str) {
        self.s.push_str(t);
    }
    fn sp(&mut self) {
        let t = *self.r.pick(&[" ", " ", " ", "\n", "\n    ", "  ", "\t", " (* c *) ", " // c\n", " {p} "]);
        self.s.push_str(t);
    }
    fn osp(&mut self) {
        if self.r.chance(1, 3) {
            self.sp();
        }
    }
    fn ident(&mut self) {
        let t = *self.r.pick(IDENTS);
        self.s.push_str(t);
    }
    fn literal(&mut self) {
        let t = *self.r.pick(&[
            "0", "1", "42", "1_000", "16#FF", "2#1010", "8#17", "1.5", "2.0E3", "1.0e-2", "TRUE", "FALSE", "T#1s", "T#1h30m",
            "TIME#-5s", "LT#14.7s", "D#2024-01-15", "TOD#14:30:00", "DT#2024-01-15-14:30:00", "'abc'", "''", "'a$'b'", "'$N'",
            "\"wide\"", "INT#5", "INT#-5", "INT#16#FF", "BOOL#TRUE", "REAL#1.5", "MyEnum#Red", "NULL", "%IX0.0", "%QW10",
        ]);
        self.s.push_str(t);
    }
    fn type_ref(&mut self, depth: u32) {
        match if depth > 2 { 0 } else { self.r.below(10) } {
            0..=4 => {
                let t = *self.r.pick(&["BOOL", "INT", "DINT", "REAL", "LREAL", "TIME", "BYTE", "WORD", "UINT", "Foo", "ns.Foo", "STRING", "WSTRING"]);
                self.w(t)
            }
            5 => {
                self.w("ARRAY");
                self.osp();
                self.w("[");
                self.expr(2);
                self.w("..");
                self.expr(2);
                if self.r.chance(1, 3) {
                    self.w(", 0..3");
                }
                self.w("]");
                self.sp();
                self.w("OF");
                self.sp();
                self.type_ref(depth + 1);
            }
            6 => {
                self.w("POINTER TO ");
                self.type_ref(depth + 1);
            }
            7 => {
                self.w("REF_TO ");
                self.type_ref(depth + 1);
            }
            8 => {
                self.w("STRING[");
                self.expr(2);
                self.w("]");
            }
            _ => {
                self.w("INT");
                self.osp();
                self.w("(");
                self.w("0..10");
                self.w(")");
            }
        }
    }
    fn primary(&mut self, depth: u32) {
        self.budget -= 1;
        match if depth > 3 || self.budget < 0 { self.r.below(4) } else { self.r.below(14) } {
            0 | 1 => self.ident(),
            2 | 3 => self.literal(),
            4 => {
                self.w("(");
                self.osp();
                self.expr(depth + 1);
                self.osp();
                self.w(")");
            }
            5 => {
                let t = *self.r.pick(&["-", "+", "NOT "]);
                self.w(t);
                self.primary(depth + 1);
            }
            6 => {
                // call with positional / named arguments
                self.ident();
                self.w("(");
                let n = self.r.below(4);
                for i in 0..n {
                    if i > 0 {
                        self.w(",");
                        self.osp();
                    }
                    match self.r.below(4) {
                        0 => {
                            self.ident();
                            self.w(" := ");
                        }
                        1 => {
                            self.ident();
                            self.w(" => ");
                        }
                        _ => {}
                    }
                    self.expr(depth + 1);
                }
                self.w(")");
            }
            7 => {
                self.ident();
                self.w("[");
                self.expr(depth + 1);
                if self.r.chance(1, 3) {
                    self.w(", ");
                    self.expr(depth + 1);
                }
                self.w("]");
            }
            8 => {
                self.ident();
                self.w(".");
                self.ident();
                if self.r.chance(1, 2) {
                    self.w(".");
                    self.ident();
                }
            }
            9 => {
                self.ident();
                self.w("^");
                if self.r.chance(1, 3) {
                    self.w("^");
                }
            }
            10 => {
                self.w("ADR(");
                self.ident();
                self.w(")");
            }
            11 => {
                self.w("SIZEOF(");
                if self.r.bool() {
                    self.w("INT");
                } else {
                    self.ident();
                }
                self.w(")");
            }
            12 => {
                let t = *self.r.pick(&["THIS", "SUPER"]);
                self.w(t);
                self.w(".");
                self.ident();
            }
            _ => {
                self.ident();
                self.w(".");
                self.ident();
                self.w("(");
                self.expr(depth + 1);
                self.w(")");
                self.w("[1]");
            }
        }
    }
    fn expr(&mut self, depth: u32) {
        self.primary(depth);
        let n = if depth > 3 { 0 } else { self.r.below(4) };
        for _ in 0..n {
            let op = *self.r.pick(&["+", "-", "*", "/", " MOD ", "**", " AND ", " OR ", " XOR ", "&", "=", "<>", "<", "<=", ">", ">="]);
            self.osp();
            self.w(op);
            self.osp();
            self.primary(depth + 1);
        }
    }
    fn lvalue(&mut self) {
        self.ident();
        match self.r.below(6) {
            0 => {
                self.w(".");
                self.ident();
            }
            1 => {
                self.w("[");
                self.expr(2);
                self.w("]");
            }
            2 => self.w("^"),
            _ => {}
        }
    }
    fn stmts(&mut self, depth: u32) {
        let n = if depth > 3 || self.budget < 0 { self.r.below(2) } else { self.r.below(5) };
        for _ in 0..n {
            self.stmt(depth);
            self.sp();
        }
    }
    fn stmt(&mut self, depth: u32) {
        self.budget -= 2;
        match if depth > 3 || self.budget < 0 { self.r.below(4) } else { self.r.below(13) } {
            0..=2 => {
                self.lvalue();
                self.osp();
                self.w(":=");
                self.osp();
                self.expr(0);
                self.w(";");
            }
            3 => {
                self.ident();
                self.w("(");
                if self.r.bool() {
                    self.ident();
                    self.w(" := ");
                    self.expr(1);
                    if self.r.bool() {
                        self.w(", ");
                        self.ident();
                        self.w(" => ");
                        self.ident();
                    }
                }
                self.w(");");
            }
            4 | 5 => {
                self.w("IF");
                self.sp();
                self.expr(0);
                self.sp();
                self.w("THEN");
                self.sp();
                self.stmts(depth + 1);
                let n = self.r.below(3);
                for _ in 0..n {
                    self.w("ELSIF");
                    self.sp();
                    self.expr(1);
                    self.sp();
                    self.w("THEN");
                    self.sp();
                    self.stmts(depth + 1);
                }
                if self.r.bool() {
                    self.w("ELSE");
                    self.sp();
                    self.stmts(depth + 1);
                }
                self.w("END_IF");
                if self.r.chance(3, 4) {
                    self.w(";");
                }
            }
            6 => {
                self.w("CASE");
                self.sp();
                self.expr(1);
                self.sp();
                self.w("OF");
                self.sp();
                let n = 1 + self.r.below(3);
                for i in 0..n {
                    match self.r.below(4) {
                        0 => {
                            let _ = write!(self.s, "{}", i * 10);
                        }
                        1 => {
                            let _ = write!(self.s, "{}..{}", i * 10, i * 10 + 5);
                        }
                        2 => {
                            let _ = write!(self.s, "{}, {}", i * 10, i * 10 + 1);
                        }
                        _ => {
                            let _ = write!(self.s, "MyEnum.V{i}");
                        }
                    }
                    self.osp();
                    self.w(":");
                    self.sp();
                    self.lvalue();
                    self.w(" := ");
                    self.expr(2);
                    self.w(";");
                    self.sp();
                    if self.r.chance(1, 3) {
                        self.stmts(depth + 2);
                    }
                }
                if self.r.bool() {
                    self.w("ELSE");
                    self.sp();
                    self.stmts(depth + 1);
                }
                self.w("END_CASE");
                if self.r.chance(3, 4) {
                    self.w(";");
                }
            }
            7 => {
                self.w("FOR");
                self.sp();
                self.ident();
                self.w(" := ");
                self.expr(2);
                self.w(" TO ");
                self.expr(2);
                if self.r.bool() {
                    self.w(" BY ");
                    self.expr(2);
                }
                self.w(" DO");
                self.sp();
                self.stmts(depth + 1);
                self.w("END_FOR");
                if self.r.chance(3, 4) {
                    self.w(";");
                }
            }
            8 => {
                self.w("WHILE");
                self.sp();
                self.expr(1);
                self.sp();
                self.w("DO");
                self.sp();
                self.stmts(depth + 1);
                self.w("END_WHILE");
                if self.r.chance(3, 4) {
                    self.w(";");
                }
            }
            9 => {
                self.w("REPEAT");
                self.sp();
                self.stmts(depth + 1);
                self.w("UNTIL");
                self.sp();
                self.expr(1);
                self.sp();
                self.w("END_REPEAT");
                if self.r.chance(3, 4) {
                    self.w(";");
                }
            }
            10 => {
                let t = *self.r.pick(&["RETURN;", "EXIT;", "CONTINUE;", ";"]);
                self.w(t);
            }
            11 => {
                self.lvalue();
                self.w(" := ");
                self.expr(0);
                self.w(";");
            }
            _ => {
                self.ident();
                self.w(".");
                self.ident();
                self.w("(");
                self.expr(1);
                self.w(");");
            }
        }
    }
    fn var_block(&mut self) {
        let kw = *self.r.pick(&["VAR", "VAR", "VAR_INPUT", "VAR_OUTPUT", "VAR_IN_OUT", "VAR_TEMP", "VAR CONSTANT", "VAR RETAIN", "VAR_EXTERNAL"]);
        self.w(kw);
        self.sp();
        let n = self.r.below(4);
        for _ in 0..n {
            self.ident();
            if self.r.chance(1, 4) {
                self.w(", ");
                self.ident();
            }
            if self.r.chance(1, 8) {
                self.w(" AT %IX0.1");
            }
            self.osp();
            self.w(":");
            self.osp();
            self.type_ref(0);
            if self.r.chance(1, 3) {
                self.w(" := ");
                self.expr(1);
            }
            self.w(";");
            self.sp();
        }
        self.w("END_VAR");
        self.sp();
    }
    fn pou(&mut self) {
        match self.r.below(8) {
            0..=2 => {
                self.w("PROGRAM");
                self.sp();
                self.ident();
                self.sp();
                let n = self.r.below(3);
                for _ in 0..n {
                    self.var_block();
                }
                self.stmts(0);
                self.w("END_PROGRAM");
            }
            3 => {
                self.w("FUNCTION");
                self.sp();
                self.ident();
                self.osp();
                self.w(":");
                self.osp();
                self.type_ref(1);
                self.sp();
                let n = self.r.below(3);
                for _ in 0..n {
                    self.var_block();
                }
                self.stmts(0);
                self.w("END_FUNCTION");
            }
            4 | 5 => {
                self.w("FUNCTION_BLOCK");
                self.sp();
                self.ident();
                self.sp();
                let n = self.r.below(3);
                for _ in 0..n {
                    self.var_block();
                }
                self.stmts(0);
                self.w("END_FUNCTION_BLOCK");
            }
            6 => {
                self.w("TYPE");
                self.sp();
                self.ident();
                self.osp();
                self.w(":");
                self.sp();
                match self.r.below(4) {
                    0 => {
                        self.w("STRUCT");
                        self.sp();
                        let n = 1 + self.r.below(3);
                        for _ in 0..n {
                            self.ident();
                            self.w(" : ");
                            self.type_ref(0);
                            self.w(";");
                            self.sp();
                        }
                        self.w("END_STRUCT");
                        if self.r.bool() {
                            self.w(";");
                        }
                    }
                    1 => {
                        self.w("(Red, Green, Blue);");
                    }
                    2 => {
                        self.w("(A := 1, B := 2) := A;");
                    }
                    _ => {
                        self.type_ref(0);
                        self.w(";");
                    }
                }
                self.sp();
                self.w("END_TYPE");
            }
            _ => {
                self.w("NAMESPACE");
                self.sp();
                self.ident();
                self.sp();
                self.w("FUNCTION_BLOCK");
                self.sp();
                self.ident();
                self.sp();
                self.var_block();
                self.stmts(1);
                self.w("END_FUNCTION_BLOCK");
                self.sp();
                self.w("END_NAMESPACE");
            }
        }
        self.sp();
    }
}

fn gen_valid(r: &mut Rng, max: usize) -> String {
    let budget = *r.pick(&[5i64, 20, 60, 150]);
    let mut g = Gen {
        r,
        s: String::new(),
        budget,
    };
    if g.r.chance(1, 4) {
        g.sp();
    }
    let n = 1 + g.r.below(3);
    for _ in 0..n {
        g.pou();
    }
    let s = g.s;
    if s.len() > max {
        // never cut a valid program in the middle: fall back to a small fixed one
        "PROGRAM p VAR x : INT; END_VAR x := x + 1; END_PROGRAM\n".to_string()
    } else {
        s
    }
}

// ---- structured injection ("sweep") --------------------------------------------------------------
//
// Every grammar loop that expects "an item until END_x" (CASE branches and labels, VAR declarations,
// struct fields, enum values, argument lists, index lists, the statement list of every block kind,
// TYPE declarations, CONFIGURATION / RESOURCE / TASK / PROGRAM items, access and config declarations,
// namespace / using items, class / interface members, property accessors, actions) relies on its item
// parser making progress.  A sweep case takes one valid snippet and one token boundary and injects
// EVERY word of the real token table (plus literal samples, end of input, deletion and duplication of
// the next token) at that boundary; over a run the (snippet, boundary) pairs are enumerated without
// repetition, so each item position and each position right after an opener meets each closer.

const SNIPPETS: &[(&str, &str)] = &[
    ("case", "PROGRAM p CASE x OF 1: y := 1; 2, 3: z := 2; 4..6: f(y); ELSE y := 0; END_CASE; END_PROGRAM"),
    ("case-enum-nested", "PROGRAM p CASE a OF E.A: CASE b OF 1: x := 1; END_CASE; 2: IF c THEN x := 3; END_IF; END_CASE END_PROGRAM"),
    ("if", "PROGRAM p IF a > 1 THEN x := 1; ELSIF b THEN x := 2; y := 3; ELSE x := 4; END_IF; END_PROGRAM"),
    ("for", "PROGRAM p FOR i := 1 TO 10 BY 2 DO s := s + i; EXIT; END_FOR; END_PROGRAM"),
    ("while-repeat", "PROGRAM p WHILE a < 3 DO a := a + 1; CONTINUE; END_WHILE; REPEAT b := b - 1; UNTIL b = 0 END_REPEAT; END_PROGRAM"),
    ("var-blocks", "PROGRAM p VAR a, b : INT := 1; c AT %IX0.1 : BOOL; END_VAR VAR CONSTANT k : DINT := 16#FF; END_VAR a := b; END_PROGRAM"),
    ("array-types", "PROGRAM p VAR d : ARRAY[1..3, 0..1] OF REAL; s : STRING[10]; q : POINTER TO INT; r : REF_TO S; n : INT (0..10); END_VAR END_PROGRAM"),
    ("function", "FUNCTION f : INT VAR_INPUT a : INT; b : REAL := 1.5; END_VAR VAR_IN_OUT io : WORD; END_VAR f := a + 1; RETURN; END_FUNCTION"),
    ("calls", "PROGRAM p x := f(1, 2 + 3, g(4)); fb(IN := a, Q => q); y := arr[1, i + 1][2]; z := s.f.g(1).h^; w := ADR(v) + SIZEOF(INT); END_PROGRAM"),
    ("exprs", "PROGRAM p x := -a ** 2 * (b + c) / d MOD 3; y := NOT (a AND b) OR c XOR d & e; z := a = b OR a <> c; t := INT#5 + REAL#-1.5 + E#Red; END_PROGRAM"),
    ("struct-union", "TYPE S : STRUCT a : INT; b : ARRAY[0..3] OF BOOL; c : T := 1; END_STRUCT; U : UNION w : WORD; r : REAL; END_UNION; END_TYPE"),
    ("enum-alias", "TYPE E : (Red, Green := 2, Blue) := Red; F : INT (A := 1, B := 2); A : ARRAY[1..2] OF INT; T : INT; END_TYPE"),
    ("fb-method", "FUNCTION_BLOCK fb EXTENDS base IMPLEMENTS I1, I2 VAR n : INT; END_VAR METHOD PUBLIC m : BOOL VAR_INPUT a : INT; END_VAR m := a > n; END_METHOD n := n + 1; END_FUNCTION_BLOCK"),
    ("property", "FUNCTION_BLOCK fb PROPERTY Value : INT GET Value := n; END_GET SET n := Value; END_SET END_PROPERTY END_FUNCTION_BLOCK"),
    ("class", "CLASS FINAL C EXTENDS B IMPLEMENTS I VAR PRIVATE x : INT; END_VAR METHOD PUBLIC OVERRIDE Run x := x + 1; SUPER.Run(); THIS.x := 0; END_METHOD PROTECTED METHOD ABSTRACT Stop END_METHOD END_CLASS"),
    ("interface", "INTERFACE I EXTENDS J METHOD m : INT VAR_INPUT a : INT; END_VAR END_METHOD PROPERTY P : BOOL GET END_GET END_PROPERTY END_INTERFACE"),
    ("namespace-using", "USING A.B, C; NAMESPACE N.M USING D; TYPE T : INT; END_TYPE FUNCTION f : INT f := 1; END_FUNCTION NAMESPACE Inner PROGRAM q END_PROGRAM END_NAMESPACE END_NAMESPACE"),
    ("configuration", "CONFIGURATION Cfg VAR_GLOBAL g : INT; END_VAR RESOURCE Res ON PLC TASK Fast(INTERVAL := T#10ms, PRIORITY := 1); PROGRAM P1 WITH Fast : Main(a := 1, b => g); PROGRAM P2 : Other; END_RESOURCE END_CONFIGURATION"),
    ("access-config", "CONFIGURATION Cfg VAR_ACCESS A1 : Res.P1.x : INT READ_WRITE; A2 : Res.P1.arr[1] : BOOL READ_ONLY; END_VAR VAR_CONFIG Res.P1.y : INT := 1; Res.P1.z AT %QX0.0 : BOOL; END_VAR END_CONFIGURATION"),
    ("action", "FUNCTION_BLOCK fb VAR x : INT; END_VAR x := 1; ACTION Reset x := 0; y := 0; END_ACTION ACTION Inc x := x + 1; END_ACTION END_FUNCTION_BLOCK"),
    ("labels-jmp", "PROGRAM p start: x := x + 1; IF x < 3 THEN JMP start; END_IF; done: ; RETURN; END_PROGRAM"),
    ("test-pou", "TEST_PROGRAM t VAR r : INT; END_VAR r := f(1); END_TEST_PROGRAM TEST_FUNCTION_BLOCK tf VAR a : BOOL; END_VAR a := TRUE; END_TEST_FUNCTION_BLOCK"),
    ("initializers", "PROGRAM p VAR a : INT := f(1, 2) + 3; t : TIME := T#1s; r : REF_TO INT := REF(a); w : WSTRING[5] := \"ab\"; END_VAR r^ := 2; q^.x := 3; r ?= q; END_PROGRAM"),
    ("nested-one-liner", "PROGRAM p IF a THEN CASE b OF 1: FOR i := 1 TO 2 DO WHILE c DO REPEAT x := f(a[1], (2)); UNTIL d END_REPEAT; END_WHILE; END_FOR; END_CASE; END_IF; END_PROGRAM"),
];

/// `at` value of a sweep over every boundary of the snippet (with the focused word list).
pub const ALL_BOUNDARIES: usize = usize::MAX;
/// Thorough tier: the whole focused list (spaced, glued, followed by end of input) at every boundary.
/// Quick tier: the core list at every boundary plus a slice of the rest that rotates with seed and
/// boundary, so that repeated runs cover the whole list.
pub static SWEEP_FULL: std::sync::atomic::AtomicBool = std::sync::atomic::AtomicBool::new(false);
pub static SWEEP_SEED: std::sync::atomic::AtomicU64 = std::sync::atomic::AtomicU64::new(0);

/// Closers, separators and continuation keywords: injected at every boundary of every snippet in
/// every run.
const CORE_WORDS: &[&str] = &[
    ")", "]", ";", ":", ",", ":=", "(", "[", "THEN", "DO", "OF", "TO", "BY", "ELSE", "ELSIF", "UNTIL", "END_IF", "END_CASE", "END_VAR", "END_PROGRAM",
];

/// Words injected at one boundary: the whole `#[token]` table plus literal / identifier / trivia samples.
fn sweep_words(ctx: &Ctx) -> Vec<String> {
    let mut w: Vec<String> = ctx.words.clone();
    for x in ["x", "1", "1.", "1..2", "1.5", "16#FF", "'s'", "\"w\"", "'open", "T#1s", "D#2024-01-15", "%IX0.0", "INT#", "INT#5", "(* c *)", "// c\n", "{p}", "\u{e9}", "$", "\n", "(* \u{e9}", "/* \u{1F600}"] {
        w.push(x.to_string());
    }
    w
}

/// The focused list injected at EVERY boundary of every snippet: all punctuation of the real table,
/// every `END_*` keyword and the keywords that open, continue or close a construct.
fn focused_words(ctx: &Ctx) -> Vec<String> {
    const STRUCTURAL: &[&str] = &[
        "THEN", "DO", "OF", "TO", "BY", "ELSE", "ELSIF", "UNTIL", "WITH", "ON", "AT", "CASE", "IF", "FOR", "WHILE", "REPEAT", "VAR", "STRUCT",
        "TYPE", "PROGRAM", "FUNCTION", "METHOD", "ACTION", "RESOURCE", "TASK", "GET", "SET", "USING", "NAMESPACE",
    ];
    ctx.words
        .iter()
        .filter(|w| !w.chars().all(|c| c.is_ascii_alphanumeric() || c == '_') || w.starts_with("END_") || STRUCTURAL.contains(&w.as_str()))
        .cloned()
        .collect()
}

fn next_token_end(toks: &[Token], at: usize) -> usize {
    toks.iter()
        .find(|t| usize::from(t.range.start()) == at)
        .map(|t| usize::from(t.range.end()))
        .unwrap_or(at)
}

fn significant_boundaries(text: &str) -> Vec<usize> {
    let mut b: Vec<usize> = lex(text).iter().filter(|t| !t.kind.is_trivia()).map(|t| usize::from(t.range.start())).collect();
    b.push(text.len());
    b
}

/// The variants of `base` at boundary `at`: (label, text).
fn variants_at(base: &str, btoks: &[Token], at: usize, words: &[String], rich: bool, structural: bool) -> Vec<(String, String)> {
    let (pre, post) = (&base[..at], &base[at..]);
    let mut v = Vec::new();
    for w in words {
        v.push((format!("inject {w:?} at {at}"), format!("{pre} {w} {post}")));
        if rich && !w.chars().all(|c| c.is_ascii_alphanumeric() || c == '_') {
            v.push((format!("inject-glued {w:?} at {at}"), format!("{pre}{w}{post}")));
        }
        if rich && matches!(w.as_str(), ")" | "]" | "THEN" | "DO" | "OF" | "TO" | "BY" | "," | ";" | ":" | ":=" | "(" | "[" | "ELSE" | "UNTIL") {
            // the injected word is the last token of the input
            v.push((format!("inject-then-eof {w:?} at {at}"), format!("{pre} {w}")));
        }
    }
    v.push((format!("eof at {at}"), pre.to_string()));
    if !structural {
        return v;
    }
    let e = next_token_end(btoks, at);
    v.push((format!("delete-next-token at {at}"), format!("{pre}{}", &base[e..])));
    v.push((format!("duplicate-next-token at {at}"), format!("{pre}{} {post}", &base[at..e])));
    v
}

/// Trivia pieces inserted at the sweep position of the (error-free) base text.
const SWEEP_TRIVIA: &[&str] = &["\n", " (* c *) ", "\r\n\t", " /* c */\n"];

/// The property's own statement on one text with a single parse (no model operations, no event
/// hook): returns what fails.
fn quick_check(lang: &Lang, src: &str) -> (Vec<String>, Option<ParseObs>) {
    let mut fails = Vec::new();
    let ltoks = match catch_unwind(AssertUnwindSafe(|| lex(src))) {
        Ok(t) => t,
        Err(_) => return (vec!["lexer-panic".into()], None),
    };
    let toks: Vec<(u16, usize, usize)> = ltoks.iter().map(tok3).collect();
    if !tiles(&toks, src.len()) {
        fails.push("token-tiling".into());
    }
    if !toks.iter().all(|t| src.is_char_boundary(t.1) && src.is_char_boundary(t.2)) {
        fails.push("token-off-char-boundary".into());
        return (fails, None);
    }
    let p = match observe_parse(src) {
        Some(p) => p,
        None => {
            fails.push("parse-panic".into());
            return (fails, None);
        }
    };
    if !p.text_eq {
        fails.push("tree-text-differs-from-input".into());
    }
    let mut same = p.leaves.len() == ltoks.len();
    if same {
        for (t, l) in ltoks.iter().zip(p.leaves.iter()) {
            if (trust_syntax::syntax::SyntaxKind::from(t.kind) as u16, usize::from(t.range.start()), usize::from(t.range.end())) != *l {
                same = false;
                break;
            }
        }
    }
    if !same {
        fails.push("tree-leaves-differ-from-lexer-tokens".into());
    }
    if !p.errors.is_empty() {
        let sig: std::collections::HashSet<(usize, usize)> = toks.iter().filter(|t| !lang.is_trivia(t.0)).map(|t| (t.1, t.2)).collect();
        for (a, b, _) in &p.errors {
            if !(a <= b && *b <= src.len()) {
                fails.push("error-range-outside-text".into());
            } else if !(sig.contains(&(*a, *b)) || (*a == 0 && *b == 0)) {
                fails.push("error-range-not-a-token-range".into());
            }
        }
    }
    fails.dedup();
    (fails, Some(p))
}

fn write_progress(path: &str, idx: usize, label: &str, text: &str) {
    let _ = std::fs::write(path, format!("{idx} {} {}", hex(label.as_bytes()), hex(text.as_bytes())));
}

/// Run the sweep (child process only): returns (failures, notes).
fn run_sweep(ctx: &Ctx, lang: &Lang, sw: &Sweep, progress: &str, out: &mut Out) -> (Vec<String>, Vec<String>) {
    let mut fails: Vec<String> = Vec::new();
    let btoks = lex(&sw.base);
    let full = SWEEP_FULL.load(std::sync::atomic::Ordering::Relaxed);
    let seed = SWEEP_SEED.load(std::sync::atomic::Ordering::Relaxed) as usize;
    let focused = focused_words(ctx);
    let rest: Vec<String> = focused.iter().filter(|w| !CORE_WORDS.contains(&w.as_str())).cloned().collect();
    let all = sw.at == ALL_BOUNDARIES;
    let positions = if all { significant_boundaries(&sw.base) } else { vec![sw.at] };
    let table = sweep_words(ctx);
    let trivia: &[&str] = if full || !all { SWEEP_TRIVIA } else { &SWEEP_TRIVIA[..2] };
    write_progress(progress, 0, "base", &sw.base);
    let (bf, base) = quick_check(lang, &sw.base);
    if !bf.is_empty() {
        fails.push(format!("sweep base snippet {}: {}", sw.name, bf.join(",")));
    }
    let base_ok = base.as_ref().map(|b| b.errors.is_empty()).unwrap_or(false);
    if !base_ok {
        out.count("sweep_base_with_errors");
        if sw.at == ALL_BOUNDARIES {
            // the built-in snippets are meant to be valid: say so loudly (not a property failure)
            eprintln!("c12: snippet {} is not error-free: {:?}", sw.name, base.as_ref().map(|b| &b.errors));
        }
    }
    let bsig: Vec<(u16, usize, usize)> = btoks.iter().map(tok3).collect();
    let (mut checked, mut triv, mut idx) = (0u64, 0u64, 1usize);
    let mut accepted_variants = 0u64;
    for (pi, at) in positions.into_iter().enumerate() {
        let words: Vec<String> = if !all {
            table.clone()
        } else if full {
            focused.clone()
        } else {
            let mut w: Vec<String> = CORE_WORDS.iter().map(|x| x.to_string()).collect();
            for j in 0..3 {
                if !rest.is_empty() {
                    w.push(rest[(seed * 7 + pi * 3 + j) % rest.len()].clone());
                }
            }
            w
        };
        for (label, text) in variants_at(&sw.base, &btoks, at, &words, all && full, full || !all) {
            write_progress(progress, idx, &label, &text);
            idx += 1;
            let (f, vp) = quick_check(lang, &text);
            checked += 1;
            if !f.is_empty() && fails.len() < 4 {
                fails.push(format!("sweep {label}: {} text={}", f.join(","), hex(text.as_bytes())));
            }
            // a variant the CURRENT parser accepts without errors is a member of the pool of error-free
            // inputs: every piece at the boundaries of the two significant tokens on either side of the
            // injection point must leave its shape alone
            if let Some(vp) = vp.filter(|p| p.errors.is_empty() && !text.is_empty()) {
                accepted_variants += 1;
                let (n, f) = insertion_sweep(lang, &text, vp.dump.shape, KW_TRIVIA, Bounds::Near { at: at.min(text.len()), w: 2 }, 1);
                triv += n;
                if fails.len() < 4 {
                    fails.extend(f.into_iter().map(|m| format!("sweep {label} is accepted without errors, but {m}")));
                }
            }
        }
        // trivia at this boundary of the error-free base: same shape, still error-free
        if let (true, Some(b)) = (base_ok, base.as_ref()) {
            for piece in trivia {
                let t = format!("{}{}{}", &sw.base[..at], piece, &sw.base[at..]);
                write_progress(progress, idx, "trivia", &t);
                idx += 1;
                let ttoks: Vec<(u16, usize, usize)> = lex(&t).iter().map(tok3).collect();
                if significant(lang, &sw.base, &bsig) != significant(lang, &t, &ttoks) {
                    continue;
                }
                triv += 1;
                match observe_parse(&t) {
                    Some(q) => {
                        if q.dump.shape != b.dump.shape && fails.len() < 4 {
                            fails.push(format!("sweep trivia {piece:?} at {at} changes shape text={}", hex(t.as_bytes())));
                        } else if !q.errors.is_empty() && fails.len() < 4 {
                            fails.push(format!("sweep trivia {piece:?} at {at} introduces errors text={}", hex(t.as_bytes())));
                        }
                    }
                    None => fails.push(format!("sweep trivia {piece:?} at {at}: parse panic")),
                }
            }
        }
    }
    out.add("sweep_variants_checked", checked);
    out.add("sweep_trivia_checked", triv);
    out.add("sweep_variants_accepted_error_free", accepted_variants);
    let notes = vec![format!("sweep snippet={} variants={} trivia={}", sw.name, checked, triv)];
    (fails, notes)
}

/// The (snippet, boundary) pair of sweep case `n`: built-in snippets are enumerated without
/// repetition (stride coprime to the number of pairs); one case in four sweeps a corpus file instead.
fn gen_sweep(seed: u64, n: u64, r: &mut Rng, ctx: &Ctx) -> Sweep {
    if r.chance(1, 3) {
        let small: Vec<&(String, String)> = ctx.corpus.iter().filter(|(_, t)| t.len() <= 1500).collect();
        if !small.is_empty() {
            let (name, text) = *r.pick(&small);
            let b = significant_boundaries(text);
            return Sweep {
                name: name.clone(),
                base: text.clone(),
                at: b[r.below(b.len() as u64) as usize],
            };
        }
    }
    let pairs: Vec<(usize, usize)> = SNIPPETS
        .iter()
        .enumerate()
        .flat_map(|(i, (_, t))| significant_boundaries(t).into_iter().map(move |b| (i, b)))
        .collect();
    // 7919 is prime: consecutive case numbers walk through the pairs without repetition
    let idx = (n.wrapping_mul(7919).wrapping_add(seed.wrapping_mul(104_729))) % pairs.len() as u64;
    let (i, at) = pairs[idx as usize];
    Sweep {
        name: SNIPPETS[i].0.to_string(),
        base: SNIPPETS[i].1.to_string(),
        at,
    }
}

// ---- keywords in identifier positions ("kwpos") ---------------------------------------------------
//
// The trivia-insertion clause quantifies over the inputs WITHOUT SYNTAX ERRORS - by the verdict of the
// parser under test, not by this harness's idea of the language.  A parser (or lexer) that starts to
// accept a word in a position where it used to be rejected (a keyword as member name behind a `.`, as
// variable / field / type / POU name, behind `#`, as the name of a named argument, ...) enlarges that
// set, and the new members must be as insensitive to trivia as the old ones.  So the pool of error-free
// texts is taken from what the CURRENT parser accepts: every identifier-shaped token (kind Ident, or the
// word of a typed-literal prefix `w#`) of every base text below is a hole; every keyword of the real
// `#[token]` table (as spelled there, lower-cased and in mixed case) is put into every hole, one at a
// time.  Each candidate gets the lossless / tiling / error-range oracle; most are rejected with a
// syntax error (fine: not in the pool); every candidate the parser accepts without errors must keep
// its tree shape and stay error-free under insertion of each trivia piece between every pair of
// adjacent tokens.  Base texts: the 24 sweep snippets plus compact texts for the identifier positions
// the snippets do not have.

/// `at` value of a kwpos case.
pub const KW_POSITIONS: usize = usize::MAX - 1;

const KW_EXTRA: &[(&str, &str)] = &[
    ("kw-member", "PROGRAM _p _x := cfg.fld; _a.b.c := _d.e(_f).g; _h^.i[_j].k := THIS.l + SUPER.m(); END_PROGRAM"),
    ("kw-hash-typed", "PROGRAM p x := #v + E#Red - w#5; #y := f(#t, _a := #b); END_PROGRAM"),
    ("kw-named-args", "PROGRAM _p f(a := 1, b => c, d ?= e); _x := i(j := _k.l); END_PROGRAM"),
    ("kw-stmts", "PROGRAM _p lbl: _x := 1; JMP tgt; FOR i := a TO b BY c DO d(); END_FOR; CASE s OF E.A, B: _g(); C..D: ; END_CASE; r ?= q; END_PROGRAM"),
    ("kw-var-decl", "PROGRAM _p VAR a, b : T := c; d AT %IX0.1 : N.U; _e : ARRAY[lo.._hi] OF V; _f : W (l.._h); _g : STRING[n]; END_VAR END_PROGRAM"),
    ("kw-types", "TYPE T : U; S : STRUCT a : V; _b : N.W := c; END_STRUCT; H : UNION w : X; END_UNION; I : POINTER TO Y; J : REF_TO Z; END_TYPE"),
    ("kw-enums", "TYPE E : (A, B := x) := D; F : INT (C := 1, G); K : N.M (P, Q); END_TYPE"),
    ("kw-pou-names", "FUNCTION f : T _f := _a; END_FUNCTION FUNCTION_BLOCK fb EXTENDS base IMPLEMENTS I1, N.I2 METHOD m : R _m := _a; END_METHOD ACTION act _x := _y; END_ACTION END_FUNCTION_BLOCK"),
    ("kw-sizeof-adr", "PROGRAM _p _x := SIZEOF(T) + SIZEOF(v.w) + ADR(a) + REF(b); _y := _a.b^ + (c).d; END_PROGRAM"),
    ("kw-config", "CONFIGURATION Cfg RESOURCE Res ON PLC TASK Fast(INTERVAL := T#10ms, PRIORITY := p); PROGRAM P1 WITH Tk : N.Main(a := b, c => d); END_RESOURCE VAR_ACCESS A1 : R2.P2.x : T READ_WRITE; END_VAR VAR_CONFIG R3.P3.y : U := v; END_VAR END_CONFIGURATION"),
    ("kw-oop", "CLASS C EXTENDS B IMPLEMENTS I METHOD Run _x := 1; END_METHOD END_CLASS INTERFACE K EXTENDS J PROPERTY P : T GET END_GET END_PROPERTY END_INTERFACE USING A.U; NAMESPACE N.M END_NAMESPACE"),
];

/// Number of sweep snippets that serve as kwpos base texts in a quick run (rotating with the seed;
/// the thorough tier takes all of them).
const KW_SNIPPETS_PER_QUICK_RUN: usize = 3;

fn kw_bases(seed: u64) -> Vec<(&'static str, &'static str)> {
    let mut v: Vec<(&'static str, &'static str)> = KW_EXTRA.to_vec();
    if SWEEP_FULL.load(std::sync::atomic::Ordering::Relaxed) {
        v.extend(SNIPPETS.iter().copied());
    } else {
        for j in 0..KW_SNIPPETS_PER_QUICK_RUN {
            v.push(SNIPPETS[(seed as usize * KW_SNIPPETS_PER_QUICK_RUN + j) % SNIPPETS.len()]);
        }
    }
    v
}

fn ident_shaped(w: &str) -> bool {
    let mut cs = w.chars();
    matches!(cs.next(), Some(c) if c.is_ascii_alphabetic() || c == '_') && cs.all(|c| c.is_ascii_alphanumeric() || c == '_')
}

/// The identifier positions of `base`: byte ranges of the tokens that are identifier-shaped words
/// and not keywords (kind Ident; the word of a typed-literal prefix `w#`).  Names that start with
/// `_` are fillers: positions that are already a hole of another compact text.
fn kw_holes(base: &str) -> Vec<(usize, usize)> {
    lex(base)
        .iter()
        .filter(|t| !t.kind.is_trivia() && !t.kind.is_keyword())
        .filter_map(|t| {
            let (a, b) = (usize::from(t.range.start()), usize::from(t.range.end()));
            let w = &base[a..b];
            if w.starts_with('_') {
                None // a filler name of the compact texts (its position is a hole of another text)
            } else if ident_shaped(w) {
                Some((a, b))
            } else if w.ends_with('#') && ident_shaped(&w[..w.len() - 1]) {
                Some((a, b - 1))
            } else {
                None
            }
        })
        .collect()
}

/// Every word of the token table that is identifier-shaped (the keywords), as spelled in the table.
fn kw_words(ctx: &Ctx) -> Vec<String> {
    let mut w: Vec<String> = ctx.words.iter().filter(|w| ident_shaped(w)).cloned().collect();
    w.sort();
    w.dedup();
    w
}

fn mixed_case(w: &str) -> String {
    w.chars().enumerate().map(|(i, c)| if i % 2 == 0 { c.to_ascii_uppercase() } else { c.to_ascii_lowercase() }).collect()
}

/// Pieces inserted between every pair of adjacent tokens of an accepted candidate.
const KW_TRIVIA: &[&str] = &[" ", "\n", "(* c *)", "/* c */"];
const KW_TRIVIA_FULL: &[&str] = &[" ", "\n", "(* c *)", "/* c */", "\t", "\r\n", "(**)", " (* a (* n *) b *) ", "\n/* \u{e9} */\n"];

/// Run the kwpos family on one base text (child process only): returns (failures, notes, the first
/// accepted text that fails the insertion clause).
///
/// Every candidate is parsed (no panic, tree text = input, error ranges inside the text); a rotating
/// eighth of them and every accepted one get the whole lossless oracle (`quick_check`).  Every
/// candidate the parser accepts gets every piece at the boundaries of the hole token and of its two
/// neighbours (that is where the acceptance of the word was decided).  The first accepted candidate
/// of every distinct way the parser structured the text (pre-order sequence of node kinds), the first
/// accepted candidate of a quarter of the holes (rotating with the seed) get every piece between
/// EVERY pair of adjacent significant tokens; in the thorough tier the first three accepted
/// candidates of every hole and every new structure get all nine pieces at EVERY token boundary and
/// the others at the boundaries of the two significant tokens on either side of the hole.  The base
/// text itself gets every piece at every token boundary.  The family stops at the sixth failure.
fn run_kwpos(ctx: &Ctx, lang: &Lang, sw: &Sweep, progress: &str, out: &mut Out) -> (Vec<String>, Vec<String>, Option<String>) {
    let mut fails: Vec<String> = Vec::new();
    let mut witness: Option<String> = None;
    let full = SWEEP_FULL.load(std::sync::atomic::Ordering::Relaxed);
    let seed = SWEEP_SEED.load(std::sync::atomic::Ordering::Relaxed) as usize;
    let pieces: &[&str] = if full { KW_TRIVIA_FULL } else { KW_TRIVIA };
    let words = kw_words(ctx);
    let holes = kw_holes(&sw.base);
    write_progress(progress, 0, "base", &sw.base);
    let (bf, base) = quick_check(lang, &sw.base);
    if !bf.is_empty() {
        fails.push(format!("kwpos base text {}: {}", sw.name, bf.join(",")));
    }
    let (mut cands, mut accepted, mut inserted, mut exhaustive, mut idx) = (0u64, 0u64, 0u64, 0u64, 1usize);
    let mut accepted_words: std::collections::BTreeSet<String> = Default::default();
    match base.as_ref() {
        Some(b) if b.errors.is_empty() => {
            let (n, f) = insertion_sweep(lang, &sw.base, b.dump.shape, pieces, Bounds::All, 2);
            inserted += n;
            if !f.is_empty() && witness.is_none() {
                witness = Some(sw.base.clone());
            }
            fails.extend(f);
        }
        _ => {
            out.count("kwpos_base_with_errors");
            eprintln!("c12: kwpos base text {} is not error-free: {:?}", sw.name, base.as_ref().map(|b| &b.errors));
        }
    }
    let mut structures: std::collections::HashSet<u64> = Default::default();
    'family: for (hi, (a, b)) in holes.iter().copied().enumerate() {
        let mut accepted_here = 0usize;
        for (wi, w) in words.iter().enumerate() {
            if fails.len() >= 6 {
                break 'family;
            }
            // the spelling of the table always; lower case or mixed case for a slice of the words that
            // rotates with the seed (the lexer ignores ASCII case) - thorough: all three
            let mut spellings = vec![w.clone()];
            let extra = (wi + hi + seed) % 8;
            for (k, sp) in [w.to_ascii_lowercase(), mixed_case(w)].into_iter().enumerate() {
                if (full || extra == k) && !spellings.contains(&sp) {
                    spellings.push(sp);
                }
            }
            for sp in &spellings {
                let text = format!("{}{}{}", &sw.base[..a], sp, &sw.base[b..]);
                if idx % 16 == 0 {
                    write_progress(progress, idx, &format!("{sp} for {:?} at {a}", &sw.base[a..b]), &text);
                }
                idx += 1;
                cands += 1;
                let what = format!("kwpos {sp:?} for {:?} at {a}", &sw.base[a..b]);
                let Some(l) = observe_light(&text, false) else {
                    if fails.len() < 6 {
                        fails.push(format!("{what}: parse-panic text={}", hex(text.as_bytes())));
                    }
                    continue;
                };
                if !(l.text_eq && l.errors_inside) && fails.len() < 6 {
                    fails.push(format!("{what}: {} text={}", if l.text_eq { "error-range-outside-text" } else { "tree-text-differs-from-input" }, hex(text.as_bytes())));
                }
                if l.n_errors > 0 && (idx + seed) % 8 != 0 {
                    continue;
                }
                let (f, p) = quick_check(lang, &text);
                if !f.is_empty() && fails.len() < 6 {
                    fails.push(format!("{what}: {} text={}", f.join(","), hex(text.as_bytes())));
                }
                let Some(p) = p else { continue };
                if !p.errors.is_empty() {
                    continue;
                }
                // accepted by the current parser: a member of the pool of error-free inputs
                accepted += 1;
                accepted_words.insert(w.clone());
                write_progress(progress, idx, &format!("accepted {sp} for {:?} at {a}", &sw.base[a..b]), &text);
                let mut h = Fnv::new();
                for n in SyntaxNode::new_root(p.green.clone()).descendants() {
                    h.u16(n.kind() as u16);
                }
                let new_structure = structures.insert(h.0);
                let which = if full && (new_structure || accepted_here < 3) {
                    exhaustive += 1;
                    Bounds::All
                } else if full {
                    Bounds::Near { at: a, w: 2 }
                } else if new_structure || (accepted_here == 0 && (seed + hi) % 4 == 0) {
                    exhaustive += 1;
                    Bounds::Significant
                } else {
                    Bounds::Near { at: a, w: 1 }
                };
                accepted_here += 1;
                let (n, f) = insertion_sweep(lang, &text, p.dump.shape, pieces, which, 2);
                inserted += n;
                if !f.is_empty() {
                    if witness.is_none() {
                        witness = Some(text.clone());
                    }
                    if fails.len() < 6 {
                        fails.extend(f.into_iter().map(|m| format!("kwpos {sp:?} in the place of {:?} at {a} is accepted without errors, but {m}", &sw.base[a..b])));
                    }
                }
            }
        }
    }
    out.add("kwpos_holes", holes.len() as u64);
    out.add("kwpos_candidates", cands);
    out.add("kwpos_accepted_error_free", accepted);
    out.add("kwpos_accepted_checked_at_every_boundary", exhaustive);
    out.add("kwpos_insertions_checked", inserted);
    let aw: Vec<String> = accepted_words.into_iter().collect();
    let notes = vec![
        format!("kwpos base={} holes={} keywords={} candidates={} accepted={} exhaustive={} insertions={}", sw.name, holes.len(), words.len(), cands, accepted, exhaustive, inserted),
        format!("kwpos accepted-keywords {}", if aw.is_empty() { "-".to_string() } else { aw.join(",") }),
    ];
    (fails, notes, witness)
}

// ---- nesting-guard family ------------------------------------------------------------------------
//
// `parse_expr_bp` counts its own nesting in `expr_depth` and refuses to go deeper than
// MAX_EXPRESSION_DEPTH.  EVERY way an expression recurses must count: parentheses, prefix operators,
// call arguments (positional and named), index lists, the right operand of a right-associative
// operator, a prefix operator after a binary one, and alternations of these.  Forms that only loop
// (left-associative chains, member / deref / index / call postfix chains) wrap the left operand once
// per operator: the TREE is as deep as the chain is long, so they must count as well (one level per
// operator) - rowan drops a tree recursively.
// (name, opener, closer, core, expression levels per unit); levels = units * per + 1
const GUARD_FORMS: &[(&str, &str, &str, &str, u64)] = &[
    ("parens", "(", ")", "1", 1),
    ("call-args", "f(", ")", "1", 1),
    ("call-named-args", "f(x := ", ")", "1", 1),
    ("call-second-arg", "f(0, ", ")", "1", 1),
    ("index", "a[", "]", "1", 1),
    ("index-second", "a[0, ", "]", "1", 1),
    ("pow-right-assoc", "2 ** ", "", "2", 1),
    ("unary-minus", "-", "", "1", 1),
    ("unary-not", "NOT ", "", "a", 1),
    ("binary-then-unary-paren", "a + -(", ")", "1", 3),
    ("call-index-alternation", "f(a[", "])", "1", 2),
    ("adr-sizeof", "ADR(", ")", "v", 1),
    ("paren-call-mix", "(f(", "))", "1", 2),
    ("flat-left-assoc", "a + ", "", "a", 1),
    ("flat-member-chain", "", ".b", "a", 1),
    ("flat-deref-index-call-chain", "", "^[1](2)", "a", 3),
];

/// The (form, target level count) pairs of a run: at the guard, just beyond it and far beyond it in
/// every run; further out (and just below) in the thorough tier.
fn guard_cases() -> Vec<(usize, u64)> {
    let g = GUARD_LIMIT.load(std::sync::atomic::Ordering::Relaxed);
    let full = SWEEP_FULL.load(std::sync::atomic::Ordering::Relaxed);
    let mut v = Vec::new();
    for (i, form) in GUARD_FORMS.iter().enumerate() {
        let flat = form.0.starts_with("flat-");
        let mut t: Vec<u64> = vec![g, g + 1, g + 76];
        if flat {
            // chains: 10 x the limit in every run (unguarded, the drop of such a tree overflows 2 MiB)
            t.push(10 * g);
        }
        if full {
            t.extend([g - 24, 2000, 3000, 4000]);
            if flat {
                t.push(100 * g);
            }
        }
        v.extend(t.into_iter().map(|t| (i, t)));
    }
    v
}

/// MAX_EXPRESSION_DEPTH and the message of the guard, read from expressions.rs (fail closed).
pub static GUARD_LIMIT: std::sync::atomic::AtomicU64 = std::sync::atomic::AtomicU64::new(1024);
pub static GUARD_MESSAGE: std::sync::OnceLock<String> = std::sync::OnceLock::new();

pub const K_EXPR: usize = 0;
pub const K_STMT: usize = 1;
pub const K_TYPE: usize = 2;
pub const K_NS: usize = 3;
pub const KIND_NAMES: [&str; 4] = ["expression", "statement", "type", "namespace"];
/// (file under parser/grammar, constant, counter field) of each nesting guard
const GUARD_SOURCES: [(&str, &str, &str); 4] = [
    ("expressions.rs", "MAX_EXPRESSION_DEPTH", "expr_depth"),
    ("statements.rs", "MAX_STATEMENT_DEPTH", "stmt_depth"),
    ("declarations.rs", "MAX_TYPE_DEPTH", "type_depth"),
    ("pou.rs", "MAX_NAMESPACE_DEPTH", "namespace_depth"),
];
/// Depths used to lay out the cases of a kind whose guard the source does not have.
const DEFAULT_LIMITS: [u64; 4] = [1024, 256, 256, 256];
/// (limit, message) of each nesting guard as read from the source; `None` = the source has no such guard.
pub static NEST_LIMITS: std::sync::OnceLock<[Option<(u64, String)>; 4]> = std::sync::OnceLock::new();

fn nest_limit(kind: usize) -> u64 {
    NEST_LIMITS.get().and_then(|l| l[kind].as_ref().map(|x| x.0)).unwrap_or(DEFAULT_LIMITS[kind])
}

/// Limit and message of one nesting guard, read from the grammar source.  Ok(None): the constant does
/// not exist (no guard).  A constant without a recognisable guard test is an error (fail closed).
fn read_guard(repo: &str, kind: usize) -> Result<Option<(u64, String)>, String> {
    let (file, konst, field) = GUARD_SOURCES[kind];
    let path = std::path::Path::new(repo).join("crates/trust-syntax/src/parser/grammar").join(file);
    let text = std::fs::read_to_string(&path).map_err(|e| format!("{}: {e}", path.display()))?;
    let pat = format!("const {konst}: usize = ");
    let Some(i) = text.find(&pat) else { return Ok(None) };
    let rest = &text[i + pat.len()..];
    let n: u64 = rest[..rest.find(';').ok_or("no ;")?].trim().replace('_', "").parse().map_err(|e| format!("{e}"))?;
    let test = format!("self.{field} >= {konst}");
    let j = text.find(&test).ok_or(format!("guard test `{test}` not found"))?;
    let rest = &text[j..];
    let k = rest.find("self.error(\"").ok_or("guard message not found")?;
    let rest = &rest[k + "self.error(\"".len()..];
    let msg = rest[..rest.find('"').ok_or("unterminated message")?].to_string();
    if n < 64 || msg.is_empty() {
        return Err(format!("implausible guard: {n} {msg:?}"));
    }
    Ok(Some((n, msg)))
}

fn gen_guard_case(form: usize, target: u64, ins_seed: u64) -> CaseInput {
    let (name, open, close, core, per) = GUARD_FORMS[form];
    let g = GUARD_LIMIT.load(std::sync::atomic::Ordering::Relaxed);
    // units so that the level count is the largest <= target (targets up to the guard) or the
    // smallest >= target (targets beyond it)
    let (units, levels) = if target <= g {
        let u = (target - 1) / per;
        (u, u * per + 1)
    } else {
        let u = (target - 1).div_ceil(per);
        (u, u * per + 1)
    };
    let text = format!("PROGRAM p\nx := {}{}{};\nEND_PROGRAM\n", open.repeat(units as usize), core, close.repeat(units as usize));
    CaseInput {
        class: "deep",
        note: format!("guard form={name} units={units} levels={levels} limit={g}"),
        text,
        ins_seed,
        sweep: None,
        guard: Some(Guard {
            form: name,
            units,
            levels,
            // one parse per case: the random nesting class gives the same shapes the full treatment
            light: true,
            kind: K_EXPR,
        }),
        pre_fails: Vec::new(),
        pre_notes: Vec::new(),
    }
}

/// The oracle clause of the guard family on the reported errors: the nesting-limit error of the
/// guard that bounds the form is reported iff the form needs more levels than that limit, and no
/// other nesting guard fires.  A guard that the source does not have (`None`) has no limit: the
/// parse must simply return.
fn guard_verdict(g: &Guard, errors: &[(usize, usize, String)]) -> Option<String> {
    let limits = NEST_LIMITS.get().expect("limits are read before any case runs");
    for (k, l) in limits.iter().enumerate() {
        let Some((limit, msg)) = l else { continue };
        let fired = errors.iter().any(|(_, _, m)| m == msg);
        if k != g.kind {
            if fired {
                return Some(format!("{} nesting guard fired on form {} which nests {} only", KIND_NAMES[k], g.form, KIND_NAMES[g.kind]));
            }
            continue;
        }
        let want = g.levels > *limit;
        if fired != want {
            return Some(if want {
                format!("nesting guard did NOT fire: form {} needs {} {} levels (> {limit}) but no {msg:?} error was reported ({} errors)", g.form, g.levels, KIND_NAMES[k], errors.len())
            } else {
                format!("nesting guard fired although form {} needs only {} {} levels (<= {limit})", g.form, g.levels, KIND_NAMES[k])
            });
        }
    }
    None
}

/// Guard-family case with a single parse and no model operations.
fn run_case_light(n: u64, input: &CaseInput, lang: &Lang, out: &mut Out) -> bool {
    let src = input.text.as_str();
    let t_start = std::time::Instant::now();
    out.line(format!("case {n}"));
    out.line(format!("# class {} {}", input.class, input.note));
    out.count(&format!("class_{}", input.class));
    out.count("cases_oracle_only");
    out.count(if input.note.starts_with("nest ") { "nest_family_cases" } else { "guard_family_cases" });
    out.add("bytes", src.len() as u64);
    out.line(lang_line(lang, &[]));
    // far-out texts are large and regular: the note regenerates them, the file keeps the head
    if src.len() <= 65536 {
        out.line(format!("src {}", hex(src.as_bytes())));
    } else {
        out.line(format!("src {}", hex(&src.as_bytes()[..char_boundary_at_or_before(src, 4096)])));
        out.line(format!("# src truncated to 4096 of {} bytes (vharness c12 --nestprobe <form> --units <n> regenerates it)", src.len()));
    }
    out.line("# model operations skipped (nesting families: oracle only)");
    let (mut fails, p) = quick_check(lang, src);
    if let (Some(p), Some(g)) = (&p, &input.guard) {
        if let Some(f) = guard_verdict(g, &p.errors) {
            fails.push(f);
        }
        out.add("tree_nodes", p.dump.nodes);
        out.line(format!("# tree depth {} errors {} first-parse-ms {}", p.dump.max_depth, p.errors.len(), t_start.elapsed().as_millis()));
        let k = format!("max_tree_depth_{}", KIND_NAMES[g.kind]);
        let seen = out.stats.get(&k).copied().unwrap_or(0);
        if p.dump.max_depth > seen {
            out.add(&k, p.dump.max_depth - seen);
        }
        // purity: a second parse (after parsing something else) gives the same tree dump and errors
        // (skipped where one parse takes seconds: the far-out 1 MB texts)
        if t_start.elapsed().as_millis() < 1500 {
            let _ = catch_unwind(AssertUnwindSafe(|| parse("PROGRAM q x := 1 +; END_PROGRAM")));
            match observe_parse(src) {
                Some(p2) => {
                    out.count("nesting_second_parse_checked");
                    if p2.dump != p.dump || p2.errors != p.errors || p2.leaves != p.leaves {
                        fails.push("impure-second-parse-differs".into());
                    }
                }
                None => fails.push("impure-second-parse-panicked".into()),
            }
        }
    }
    out.add("ms_nesting_families", t_start.elapsed().as_millis() as u64);
    if fails.is_empty() {
        out.line("# oracle ok");
    } else {
        for f in &fails {
            out.line(format!("# oracle FAIL {f}"));
            out.count("oracle_failures");
        }
    }
    out.line("tag nontrivial");
    out.line("end");
    fails.is_empty()
}

// ---- nesting families: every recursive rule of the grammar -----------------------------------------
//
// The grammar functions that can reach themselves (read off grammar/*.rs):
//   statements    parse_statement -> parse_{if,case,for,while,repeat,label}_stmt -> parse_statement
//   types         parse_type_ref -> parse_array_type | POINTER [TO] | REF_TO -> parse_type_ref
//                 (parse_struct_def -> parse_var_decl -> parse_type_ref does not accept STRUCT: no cycle)
//   namespaces    parse_namespace -> parse_namespace
//   expressions   parse_expr_bp -> prefix | parse_primary_expr (parens, ADR, SIZEOF) | parse_postfix_expr
//                 (index, arguments) | right operand -> parse_expr_bp                   [GUARD_FORMS]
//   mixed         parse_primary_expr (SIZEOF) -> parse_type_ref -> subrange / STRING[..] / ARRAY[..]
//                 -> parse_expression; declarations (initialisers, subranges, case labels, enum values)
//                 -> parse_expression
//   tree depth    the loop of parse_expr_bp wraps the left operand once per postfix / binary operator
// Every form is generated at its guard's limit, one level beyond, 10 x and (rotating in the quick
// tier, all in the thorough tier) 100 x beyond, and is parsed in the capped child on a thread with a
// 2 MiB stack.  Oracle: the child survives (parse, second parse, drop), the light C12 oracle holds
// (tokens tile, tree text = input, leaves = tokens, error ranges inside the text, second parse gives
// the same dump and errors) and the nesting-limit error of the bounding guard is reported iff the
// form needs more levels than the limit read from the source.
pub struct NestForm {
    pub name: &'static str,
    pub kind: usize,
    pub pre: &'static str,
    pub open: &'static str,
    pub core: &'static str,
    pub close: &'static str,
    pub post: &'static str,
    /// levels of the bounding guard: units * per + base
    pub per: u64,
    pub base: u64,
}

const fn nf(name: &'static str, kind: usize, pre: &'static str, open: &'static str, core: &'static str, close: &'static str, post: &'static str, per: u64, base: u64) -> NestForm {
    NestForm { name, kind, pre, open, core, close, post, per, base }
}

const P0: &str = "PROGRAM p\n";
const P1: &str = "\nEND_PROGRAM\n";
const V0: &str = "PROGRAM p VAR v : ";
const V1: &str = "; END_VAR END_PROGRAM\n";

pub const NEST_FORMS: &[NestForm] = &[
    // statements: every statement that contains statements (one parse_statement per level + the core)
    nf("if", K_STMT, P0, "IF a THEN ", "x := 1;", " END_IF;", P1, 1, 1),
    nf("if-unclosed", K_STMT, P0, "IF a THEN ", "x := 1;", "", P1, 1, 1),
    nf("if-else", K_STMT, P0, "IF a THEN ELSE ", "x := 1;", " END_IF;", P1, 1, 1),
    nf("if-elsif", K_STMT, P0, "IF a THEN ELSIF b THEN ", "x := 1;", " END_IF;", P1, 1, 1),
    nf("case", K_STMT, P0, "CASE a OF 1: ", "x := 1;", " END_CASE;", P1, 1, 1),
    nf("case-else", K_STMT, P0, "CASE a OF 1: ; ELSE ", "x := 1;", " END_CASE;", P1, 1, 1),
    nf("for", K_STMT, P0, "FOR i := 1 TO 2 DO ", "x := 1;", " END_FOR;", P1, 1, 1),
    nf("while", K_STMT, P0, "WHILE a DO ", "x := 1;", " END_WHILE;", P1, 1, 1),
    nf("repeat", K_STMT, P0, "REPEAT ", "x := 1;", " UNTIL a END_REPEAT;", P1, 1, 1),
    nf("label", K_STMT, P0, "l: ", "x := 1;", "", P1, 1, 1),
    nf("while-for", K_STMT, P0, "WHILE a DO FOR i := 1 TO 2 DO ", "x := 1;", " END_FOR; END_WHILE;", P1, 2, 1),
    nf("if-in-method", K_STMT, "FUNCTION_BLOCK fb\nMETHOD m\n", "IF a THEN ", "x := 1;", " END_IF;", "\nEND_METHOD\nEND_FUNCTION_BLOCK\n", 1, 1),
    nf("repeat-in-action", K_STMT, "FUNCTION_BLOCK fb\nACTION act\n", "REPEAT ", "x := 1;", " UNTIL a END_REPEAT;", "\nEND_ACTION\nEND_FUNCTION_BLOCK\n", 1, 1),
    nf("case-in-function", K_STMT, "FUNCTION f : INT\n", "CASE a OF 1: ", "f := 1;", " END_CASE;", "\nEND_FUNCTION\n", 1, 1),
    // types: every type constructor that contains a type (one parse_type_ref per level + the core)
    nf("array-of-typedecl", K_TYPE, "TYPE t : ", "ARRAY[0..1] OF ", "INT", "", "; END_TYPE\n", 1, 0),
    nf("array-of-var", K_TYPE, V0, "ARRAY[0..1] OF ", "INT", "", V1, 1, 1),
    nf("array-of-bare", K_TYPE, V0, "ARRAY OF ", "INT", "", V1, 1, 1),
    nf("pointer-to", K_TYPE, V0, "POINTER TO ", "INT", "", V1, 1, 1),
    nf("pointer-bare", K_TYPE, V0, "POINTER ", "INT", "", V1, 1, 1),
    nf("ref-to", K_TYPE, V0, "REF_TO ", "INT", "", V1, 1, 1),
    nf("ref-to-return-type", K_TYPE, "FUNCTION f : ", "REF_TO ", "INT", "", "\nEND_FUNCTION\n", 1, 1),
    nf("ref-to-struct-field", K_TYPE, "TYPE t : STRUCT f : ", "REF_TO ", "INT", "", "; END_STRUCT; END_TYPE\n", 1, 1),
    nf("sizeof-pointer", K_TYPE, "PROGRAM p\nx := SIZEOF(", "POINTER TO ", "INT", "", ");\nEND_PROGRAM\n", 1, 1),
    // mixed: an expression inside a type inside an expression ... (both counters grow; the type guard is the lower one)
    nf("sizeof-subrange", K_TYPE, "PROGRAM p\nx := ", "SIZEOF(INT(", "1", "))", ";\nEND_PROGRAM\n", 1, 0),
    nf("sizeof-string", K_TYPE, "PROGRAM p\nx := ", "SIZEOF(STRING[", "1", "])", ";\nEND_PROGRAM\n", 1, 0),
    nf("sizeof-array-dim", K_TYPE, "PROGRAM p\nx := ", "SIZEOF(ARRAY[", "1", "..2] OF INT)", ";\nEND_PROGRAM\n", 1, 1),
    // namespaces
    nf("namespace", K_NS, "", "NAMESPACE n ", "TYPE t : INT; END_TYPE", " END_NAMESPACE", "\n", 1, 0),
    nf("namespace-unclosed", K_NS, "", "NAMESPACE n ", "TYPE t : INT; END_TYPE", "", "\n", 1, 0),
    nf("namespace-qualified", K_NS, "", "NAMESPACE a.b ", "PROGRAM p END_PROGRAM", " END_NAMESPACE", "\n", 1, 0),
    // expressions reached from declarations and statements (the expression guard must hold there too)
    nf("var-init-parens", K_EXPR, "PROGRAM p VAR v : INT := ", "(", "1", ")", V1, 1, 1),
    nf("type-subrange-parens", K_EXPR, "PROGRAM p VAR v : INT(", "(", "1", ")", "..2); END_VAR END_PROGRAM\n", 1, 1),
    nf("case-label-parens", K_EXPR, "PROGRAM p\nCASE a OF ", "(", "1", ")", ": ; END_CASE;\nEND_PROGRAM\n", 1, 1),
    nf("enum-value-parens", K_EXPR, "TYPE e : (a := ", "(", "1", ")", "); END_TYPE\n", 1, 1),
    nf("if-condition-parens", K_EXPR, "PROGRAM p\nIF ", "(", "a", ")", " THEN ; END_IF;\nEND_PROGRAM\n", 1, 1),
    // tree depth from the wrapping loop of parse_expr_bp: chains, and chains stacked on nesting
    // (`staircase`: every parenthesis is followed by a chain, the heights add up)
    nf("chain-compare", K_EXPR, "PROGRAM p\nx := ", "", "a", " = a", ";\nEND_PROGRAM\n", 1, 1),
    nf("chain-sum-of-products", K_EXPR, "PROGRAM p\nx := ", "", "a", " + a * a", ";\nEND_PROGRAM\n", 1, 2),
    nf("chain-and-or", K_EXPR, "PROGRAM p\nx := ", "", "a", " AND a OR a", ";\nEND_PROGRAM\n", 1, 2),
    nf("chain-in-call-arg", K_EXPR, "PROGRAM p\nx := f(", "", "a", " - a", ");\nEND_PROGRAM\n", 1, 2),
    nf("chain-in-condition", K_EXPR, "PROGRAM p\nWHILE ", "", "a", ".b", " DO ; END_WHILE;\nEND_PROGRAM\n", 1, 1),
    nf("chain-call-call", K_EXPR, "PROGRAM p\n", "", "f", "()", ";\nEND_PROGRAM\n", 1, 1),
    nf("staircase-binary", K_EXPR, "PROGRAM p\nx := ", "(", "a", ")+a+a+a", ";\nEND_PROGRAM\n", 4, 1),
    nf("staircase-postfix", K_EXPR, "PROGRAM p\nx := ", "(", "a", ").b^", ";\nEND_PROGRAM\n", 3, 1),
    nf("staircase-unary", K_EXPR, "PROGRAM p\nx := ", "-(", "a", ")*a", ";\nEND_PROGRAM\n", 3, 1),
];

/// (form, units) of the witnesses listed in known_findings.json (a little above the smallest depth
/// that overflowed a 2 MiB stack on the code before the fix; see evidence/C12.measurements.txt).
pub const NEST_WITNESSES: &[(&str, u64)] = &[
    ("if", 8000),
    ("case-else", 4000),
    ("label", 8000),
    ("while-for", 4000),
    ("array-of-var", 4000),
    ("ref-to-return-type", 4000),
    ("sizeof-array-dim", 3000),
    ("namespace", 8000),
    ("chain-compare", 8000),
    ("chain-call-call", 8000),
    ("staircase-postfix", 3000),
];

pub fn nest_text(f: &NestForm, units: u64) -> String {
    format!("{}{}{}{}{}", f.pre, f.open.repeat(units as usize), f.core, f.close.repeat(units as usize), f.post)
}

/// Units so that the level count is the largest <= target (targets up to the limit) or the smallest
/// >= target (beyond it).
fn nest_units(f: &NestForm, target: u64, limit: u64) -> u64 {
    let t = target.saturating_sub(f.base);
    if target <= limit {
        t / f.per
    } else {
        t.div_ceil(f.per)
    }
}

/// Largest text of the family (bytes): far-out targets are clipped to it.
const NEST_MAX_BYTES: u64 = 1 << 20;

/// The (form, units) pairs of a run.  (Far beyond an expression limit the parser restarts a statement
/// at every chunk and `has_assign_ahead` rescans the rest of the text: quadratic, so the 100 x cases of
/// the expression forms and the 1 MB chains are few in the quick tier.)
fn nest_cases() -> Vec<(usize, u64)> {
    let full = SWEEP_FULL.load(std::sync::atomic::Ordering::Relaxed);
    let seed = SWEEP_SEED.load(std::sync::atomic::Ordering::Relaxed);
    let mut v = Vec::new();
    for (i, f) in NEST_FORMS.iter().enumerate() {
        let l = nest_limit(f.kind);
        let mut t = vec![l, l + 1, 10 * l];
        if full || (f.kind != K_EXPR && (i as u64 + seed) % 3 == 0) {
            t.push(100 * l);
        }
        if full {
            t.extend([l - 1, 2 * l, 1000 * l]);
        }
        // staircase forms restart a statement per chunk beyond the limit and `has_assign_ahead` rescans the
        // rest of the text each time: quadratic (205 KB = 17 s in the dev profile), so 1 MB would outlast the
        // no-progress deadline without being a termination failure; they are clipped to 256 KB
        let max_bytes = if f.name.starts_with("staircase") { NEST_MAX_BYTES / 4 } else { NEST_MAX_BYTES };
        let cap = max_bytes / (f.open.len() + f.close.len()) as u64;
        let mut units: Vec<u64> = t.into_iter().map(|t| nest_units(f, t, l).min(cap)).collect();
        units.sort();
        units.dedup();
        v.extend(units.into_iter().map(|u| (i, u)));
    }
    // the witnesses of the recorded findings (known_findings.json, C12-*-overflow), in every run: on a
    // 2 MiB stack each of them killed the process before the nesting guards of the fix
    for (name, units) in NEST_WITNESSES {
        let i = NEST_FORMS.iter().position(|f| f.name == *name).expect("witness form");
        if !v.contains(&(i, *units)) {
            v.push((i, *units));
        }
    }
    // a flat chain of about 1 MB in every run (thorough: every chain form at 1 MB through 1000 x the limit)
    let i = NEST_FORMS.iter().position(|f| f.name == if seed % 2 == 0 { "chain-compare" } else { "chain-in-condition" }).expect("form");
    let f = &NEST_FORMS[i];
    let u = NEST_MAX_BYTES / (f.open.len() + f.close.len()) as u64;
    if !v.contains(&(i, u)) {
        v.push((i, u));
    }
    v
}

fn gen_nest_case(form: usize, units: u64, ins_seed: u64) -> CaseInput {
    let f = &NEST_FORMS[form];
    let levels = units * f.per + f.base;
    let limit = NEST_LIMITS.get().and_then(|l| l[f.kind].as_ref().map(|x| x.0.to_string())).unwrap_or_else(|| "none".into());
    CaseInput {
        class: "deep",
        note: format!("nest form={} kind={} units={units} levels={levels} limit={limit}", f.name, KIND_NAMES[f.kind]),
        text: nest_text(f, units),
        ins_seed,
        sweep: None,
        guard: Some(Guard {
            form: f.name,
            units,
            levels,
            light: true,
            kind: f.kind,
        }),
        pre_fails: Vec::new(),
        pre_notes: Vec::new(),
    }
}

/// `--nestprobe <form> --units <n> [--guardstack_kb <k>]`: parse one text of a family on a thread with
/// the given stack and report on stderr how far it got (a death is the observation).
fn nest_probe(form: &str, units: u64, stack_kb: usize) -> i32 {
    let text = match NEST_FORMS.iter().find(|f| f.name == form) {
        Some(f) => nest_text(f, units),
        // `--nestprobe file:<path>`: any text (composite worst cases)
        None if form.starts_with("file:") => match std::fs::read_to_string(&form[5..]) {
            Ok(t) => t,
            Err(e) => {
                eprintln!("{form}: {e}");
                return 3;
            }
        },
        None => match GUARD_FORMS.iter().find(|f| f.0 == form) {
            Some((_, open, close, core, _)) => format!("PROGRAM p\nx := {}{}{};\nEND_PROGRAM\n", open.repeat(units as usize), core, close.repeat(units as usize)),
            None => {
                eprintln!("unknown form {form}");
                return 3;
            }
        },
    };
    let h = std::thread::Builder::new()
        .stack_size(stack_kb << 10)
        .spawn(move || {
            eprintln!("bytes={}", text.len());
            let p = parse(&text);
            eprintln!("parsed errors={}", p.errors().len());
            let root = p.syntax();
            eprintln!("depth={}", dump_tree(&root).max_depth);
            drop(root);
            drop(p);
            eprintln!("dropped");
        })
        .expect("spawn");
    if h.join().is_err() {
        return 4;
    }
    0
}

/// One probe in a child process: (survived, bytes, phase reached, tree depth).
fn probe_child(exe: &std::path::Path, repo: &str, form: &str, units: u64, stack_kb: usize) -> (bool, u64, String, u64) {
    let o = std::process::Command::new(exe)
        .args(["c12", "--seed", "1", "--cases", "1", "--out", "/dev/null", "--repo", repo])
        .args(["--nestprobe", form, "--units", &units.to_string(), "--guardstack_kb", &stack_kb.to_string()])
        .output()
        .expect("probe child");
    let err = String::from_utf8_lossy(&o.stderr).to_string();
    let field = |k: &str| err.lines().find_map(|l| l.split(' ').find_map(|w| w.strip_prefix(k))).and_then(|v| v.parse::<u64>().ok()).unwrap_or(0);
    let phase = if err.contains("dropped") {
        "ok"
    } else if err.contains("depth=") {
        "drop"
    } else if err.contains("parsed") {
        "walk"
    } else {
        "parse"
    };
    (o.status.success() && phase == "ok", field("bytes="), phase.to_string(), field("depth="))
}

/// `--measure 1`: for every form the smallest number of units that kills a child parsing on a thread
/// of `guardstack_kb` KiB (doubling, then bisection), or the largest size tried if nothing dies.
/// `--measure 2`: for every form at its limit and at 10 x the limit the smallest stack (KiB) that survives.
fn measure(exe: &std::path::Path, repo: &str, mode: usize, stack_kb: usize, only: Option<&str>, cap_bytes: u64) -> i32 {
    let mut forms: Vec<(String, usize, u64, u64, u64)> = GUARD_FORMS.iter().map(|f| (f.0.to_string(), K_EXPR, f.4, 1, (f.1.len() + f.2.len()) as u64)).collect();
    forms.extend(NEST_FORMS.iter().map(|f| (f.name.to_string(), f.kind, f.per, f.base, (f.open.len() + f.close.len()) as u64)));
    for (name, kind, per, base, unit_bytes) in forms {
        if only.map(|o| !name.contains(o)).unwrap_or(false) {
            continue;
        }
        let cap = cap_bytes / unit_bytes;
        if mode == 1 {
            let (mut lo, mut hi) = (0u64, 64u64);
            let mut died = None;
            loop {
                let (ok, _, phase, _) = probe_child(exe, repo, &name, hi, stack_kb);
                if !ok {
                    died = Some(phase);
                    break;
                }
                lo = hi;
                if hi >= cap {
                    break;
                }
                hi = (hi * 2).min(cap);
            }
            if let Some(mut phase) = died {
                while hi - lo > 1 {
                    let mid = (lo + hi) / 2;
                    let (ok, _, ph, _) = probe_child(exe, repo, &name, mid, stack_kb);
                    if ok {
                        lo = mid;
                    } else {
                        hi = mid;
                        phase = ph;
                    }
                }
                let (_, bytes, _, _) = probe_child(exe, repo, &name, hi, 65536);
                println!("measure form={name} kind={} stack_kb={stack_kb} dies_at_units={hi} levels={} bytes={bytes} phase={phase}", KIND_NAMES[kind], hi * per + base);
            } else {
                let (_, bytes, _, depth) = probe_child(exe, repo, &name, lo, stack_kb);
                println!("measure form={name} kind={} stack_kb={stack_kb} survives_units={lo} levels={} bytes={bytes} tree_depth={depth}", KIND_NAMES[kind], lo * per + base);
            }
        } else {
            let l = nest_limit(kind);
            for target in [l, 10 * l] {
                let units = (target.saturating_sub(base) / per).min(cap);
                let (mut lo, mut hi) = (8usize, 16384usize);
                let (ok, bytes, _, depth) = probe_child(exe, repo, &name, units, hi);
                if !ok {
                    println!("measure form={name} kind={} units={units} bytes={bytes} needs more than {hi} KiB", KIND_NAMES[kind]);
                    continue;
                }
                while hi - lo > 8 {
                    let mid = (lo + hi) / 2;
                    if probe_child(exe, repo, &name, units, mid).0 {
                        hi = mid;
                    } else {
                        lo = mid;
                    }
                }
                println!("measure form={name} kind={} units={units} levels={} bytes={bytes} tree_depth={depth} min_stack_kb={hi}", KIND_NAMES[kind], units * per + base);
            }
        }
    }
    0
}

// ---- deep nesting ---------------------------------------------------------------------------------

/// Depths that are claimed (DESIGN.md C12): expressions are guarded by MAX_EXPRESSION_DEPTH = 1024
/// (so any depth terminates; generated up to 1500), statements / types / namespaces up to 200.
pub const STATED_STMT_DEPTH: u64 = 200;
pub const STATED_EXPR_DEPTH: u64 = 1500;
/// Prefix-operator chains are cut by MAX_EXPRESSION_DEPTH before they recurse; exercised to:
pub const GUARDED_EXPR_DEPTH: u64 = 40_000;

fn gen_deep(r: &mut Rng) -> (String, String) {
    let kind = r.below(18);
    let stmt_d = *r.pick(&[1u64, 2, 3, 10, 50, 100, 150, 199, STATED_STMT_DEPTH]);
    let expr_d = *r.pick(&[1u64, 2, 10, 100, 500, 1022, 1023, 1024, 1025, 1026, 1200, STATED_EXPR_DEPTH]);
    // bracketing shapes build trees as deep as the nesting and rowan's node cache is quadratic on
    // those, so most of them stay near the guard boundary
    let expr_d = if kind != 1 && expr_d > 1100 && r.chance(2, 3) { 1030 } else { expr_d };
    let wrap = |body: String| format!("PROGRAM p\n{body}\nEND_PROGRAM\n");
    let rep = |s: &str, n: u64| s.repeat(n as usize);
    let truncated = r.chance(1, 4); // leave the closers off: recovery from the deepest point
    let (note, text) = match kind {
        0 => {
            let d = expr_d;
            (format!("parens d={d}"), wrap(format!("x := {}1{};", rep("(", d), if truncated { String::new() } else { rep(")", d) })))
        }
        1 => {
            let d = expr_d;
            (format!("unary d={d}"), wrap(format!("x := {}1;", rep(*r.pick(&["-", "NOT ", "+", "- NOT "]), d))))
        }
        2 => {
            let d = expr_d;
            (format!("calls d={d}"), wrap(format!("x := {}1{};", rep("f(", d), if truncated { String::new() } else { rep(")", d) })))
        }
        3 => {
            let d = expr_d;
            (format!("index d={d}"), wrap(format!("x := {}1{};", rep("a[", d), if truncated { String::new() } else { rep("]", d) })))
        }
        4 => {
            let d = expr_d;
            (format!("pow-right-assoc d={d}"), wrap(format!("x := {}2;", rep("2**", d))))
        }
        5 => {
            let d = expr_d.min(400);
            let op = *r.pick(&["+", "-", "*", " AND ", " OR ", "=", "<"]);
            (format!("left-assoc chain n={d}"), wrap(format!("x := a{};", rep(&format!("{op}a"), d))))
        }
        6 => {
            let d = expr_d.min(1500);
            let op = *r.pick(&[".f", "^", "[1]", "(1)", ".f(1)[2]^"]);
            (format!("postfix chain n={d}"), wrap(format!("x := a{};", rep(op, d.min(4000 / op.len() as u64)))))
        }
        7 => {
            let d = stmt_d;
            (format!("if d={d}"), wrap(format!("{}x := 1;{}", rep("IF a THEN ", d), if truncated { String::new() } else { rep(" END_IF;", d) })))
        }
        8 => {
            let d = stmt_d;
            (
                format!("loops d={d}"),
                wrap(format!(
                    "{}x := 1;{}",
                    rep("WHILE a DO FOR i := 1 TO 2 DO ", d / 2 + 1),
                    if truncated { String::new() } else { rep(" END_FOR; END_WHILE;", d / 2 + 1) }
                )),
            )
        }
        9 => {
            let d = stmt_d;
            (format!("case d={d}"), wrap(format!("{}x := 1;{}", rep("CASE a OF 1: ", d), if truncated { String::new() } else { rep(" END_CASE;", d) })))
        }
        10 => {
            let d = stmt_d;
            (format!("repeat/else d={d}"), wrap(format!("{}x := 1;{}", rep("IF a THEN ELSE REPEAT ", d / 2 + 1), if truncated { String::new() } else { rep(" UNTIL b END_REPEAT; END_IF;", d / 2 + 1) })))
        }
        11 => {
            let d = stmt_d;
            (format!("array-of d={d}"), format!("TYPE t : {}INT; END_TYPE\n", rep("ARRAY[0..1] OF ", d)))
        }
        12 => {
            let d = stmt_d;
            (format!("pointer-to d={d}"), format!("PROGRAM p VAR v : {}INT; END_VAR END_PROGRAM\n", rep(*r.pick(&["POINTER TO ", "REF_TO "]), d)))
        }
        13 => {
            let d = stmt_d;
            (format!("struct d={d}"), format!("TYPE t : {}x : INT;{} END_TYPE\n", rep("STRUCT s : ", d), if truncated { String::new() } else { rep(" END_STRUCT;", d) }))
        }
        14 => {
            let d = stmt_d;
            (format!("namespace d={d}"), format!("{}TYPE t : INT; END_TYPE{}\n", rep("NAMESPACE n ", d), if truncated { String::new() } else { rep(" END_NAMESPACE", d) }))
        }
        15 => {
            // far beyond MAX_EXPRESSION_DEPTH through prefix operators (one parser frame per level and a
            // flat tree once the guard fires): the guard must turn this into errors, not into recursion
            let d = *r.pick(&[10_000u64, 20_000, GUARDED_EXPR_DEPTH]);
            let o = *r.pick(&["-", "NOT ", "+", "-+"]);
            (format!("guarded prefix-operator chain {o:?} d={d}"), wrap(format!("x := {}1;", rep(o, d))))
        }
        16 => {
            // beyond the guard with bracketing shapes (kept moderate: rowan's node cache makes deep
            // left-nested trees quadratic)
            let d = *r.pick(&[1_600u64, 2_000]);
            let (o, c) = *r.pick(&[("(", ")"), ("f(", ")"), ("a[", "]"), ("2**", ""), ("(-", ")"), ("ADR(", ")")]);
            (format!("guarded expr {o}{c} d={d}"), wrap(format!("x := {}1{};", rep(o, d), if truncated { String::new() } else { rep(c, d) })))
        }
        _ => {
            let d = *r.pick(&[1u64, 10, 1000, 1900]);
            let (o, c) = *r.pick(&[("(*", "*)"), ("/*", "*/")]);
            (format!("nested comment d={d}"), format!("{}x{} PROGRAM p END_PROGRAM", rep(o, d), if truncated { String::new() } else { rep(c, d) }))
        }
    };
    (if truncated { format!("{note} truncated") } else { note }, text)
}

// ------------------------------------------------------------------------------------------------
// case selection
// ------------------------------------------------------------------------------------------------

pub fn gen_case(seed: u64, n: u64, ctx: &Ctx) -> CaseInput {
    let mut r = Rng::for_case(seed, n);
    let ins_seed = r.next();
    // the first cases of every run are fixed edge cases
    const FIXED: &[&str] = &[
        "", " ", "\n", "1.", "1..", "1..2", "1...2", "x := 1.;", "ARRAY[1..5]", "1.e", "\u{feff}PROGRAM p END_PROGRAM", "(*", "'", "\"",
        "PROGRAM", "END_PROGRAM", ";", "PROGRAM p x := ; END_PROGRAM", "\0", "\u{1F600}", "a.1.2", "%IX0.", "T#1s.", "16#FF.", "1.\n.", "1. .", "1.(*c*).",
        // unterminated / nested comments, pragmas and strings that end in a multi-byte character
        "(* \u{e9}", "/* x \u{1F600}", "(* (* \u{e9} *)", "/* /* */ \u{4e2d}", "(*\u{e9}", "x (* a *) (* \u{1F600}", "{ \u{e9}", "'\u{e9}", "\"\u{1F600}", "// \u{e9}", "(* \u{e9} *)", "(**\u{e9}*",
        // witness of C12-lexer-context-dependent-literal (must stay the LAST entry): error-free, and `TOD#14:30:00`
        // directly before `..` is labelled Ident; swept exhaustively in run_case
        LEXER_CONTEXT_WITNESS,
    ];
    if (n as usize) < FIXED.len() {
        return CaseInput {
            class: "fixed",
            note: String::new(),
            text: FIXED[n as usize].to_string(),
            ins_seed,
            sweep: None,
            guard: None,
            pre_fails: Vec::new(),
            pre_notes: Vec::new(),
        };
    }
    let k = n as usize - FIXED.len();
    if k < SNIPPETS.len() {
        // one case per built-in snippet, in every run: every boundary x the focused word list
        return CaseInput {
            class: "sweep",
            note: format!("snippet={} all-boundaries", SNIPPETS[k].0),
            text: SNIPPETS[k].1.to_string(),
            ins_seed,
            sweep: Some(Sweep {
                name: SNIPPETS[k].0.to_string(),
                base: SNIPPETS[k].1.to_string(),
                at: ALL_BOUNDARIES,
            }),
            guard: None,
            pre_fails: Vec::new(),
            pre_notes: Vec::new(),
        };
    }
    let k = k - SNIPPETS.len();
    let kwb = kw_bases(seed);
    if k < kwb.len() {
        // one case per base text, in every run: every keyword in every identifier position
        return CaseInput {
            class: "kwpos",
            note: format!("base={} every-keyword-in-every-identifier-position", kwb[k].0),
            text: kwb[k].1.to_string(),
            ins_seed,
            sweep: Some(Sweep {
                name: kwb[k].0.to_string(),
                base: kwb[k].1.to_string(),
                at: KW_POSITIONS,
            }),
            guard: None,
            pre_fails: Vec::new(),
            pre_notes: Vec::new(),
        };
    }
    let k = k - kwb.len();
    let gcases = guard_cases();
    if k < gcases.len() {
        // the nesting-guard family, in every run: every recursive expression form x levels around the guard
        return gen_guard_case(gcases[k].0, gcases[k].1, ins_seed);
    }
    let k = k - gcases.len();
    let ncases = nest_cases();
    if k < ncases.len() {
        // the nesting families, in every run: every recursive rule of the grammar around and far beyond its guard
        return gen_nest_case(ncases[k].0, ncases[k].1, ins_seed);
    }
    let mut sweep = None;
    let (class, note, text) = match r.below(100) {
        0..=10 => ("unicode", String::new(), gen_unicode(&mut r)),
        11..=27 => ("soup", String::new(), gen_soup(&mut r, ctx)),
        28..=38 => {
            let (note, t) = gen_corpus(&mut r, ctx, 0);
            ("corpus", note, t)
        }
        39..=65 => {
            let k = 1 + r.below(4);
            let (note, t) = gen_corpus(&mut r, ctx, k);
            ("corpus-mutated", note, t)
        }
        66..=85 => ("valid", String::new(), gen_valid(&mut r, ctx.max_bytes)),
        86..=91 => {
            let t = gen_valid(&mut r, ctx.max_bytes);
            let mut notes = String::new();
            let t = mutate(&mut r, ctx, t, &mut notes);
            ("valid-mutated", notes, t)
        }
        92..=94 => {
            let sw = gen_sweep(seed, n, &mut r, ctx);
            // the case's own text (full treatment incl. the model operations): one random word injected
            let w = soup_word(&mut r, ctx);
            let t = format!("{} {} {}", &sw.base[..sw.at], w, &sw.base[sw.at..]);
            let note = format!("snippet={} at={} own-word={:?}", sw.name, sw.at, w);
            sweep = Some(sw);
            ("sweep", note, t)
        }
        _ => {
            let (note, t) = gen_deep(&mut r);
            ("deep", note, t)
        }
    };
    CaseInput {
        class,
        note,
        text: if class == "deep" { text } else { clip(text, ctx.max_bytes) },
        ins_seed,
        sweep,
        guard: None,
        pre_fails: Vec::new(),
        pre_notes: Vec::new(),
    }
}

// ------------------------------------------------------------------------------------------------
// driver
// ------------------------------------------------------------------------------------------------

/// Resident set size of this process (0 if /proc is not available).
fn rss_bytes() -> u64 {
    std::fs::read_to_string("/proc/self/statm")
        .ok()
        .and_then(|s| s.split(' ').nth(1).and_then(|p| p.parse::<u64>().ok()))
        .map(|pages| pages * 4096)
        .unwrap_or(0)
}

fn crashed_case(n: u64, input: &CaseInput, lang: &Lang, out: &mut Out, why: &str) {
    out.line(format!("case {n}"));
    out.line(format!("# class {} {}", input.class, input.note));
    out.line(lang_line(lang, &[]));
    out.line(format!("src {}", hex(input.text.as_bytes())));
    out.line(format!("# oracle FAIL {why}"));
    out.count("oracle_failures");
    out.line("tag nontrivial");
    out.line("end");
}

enum ChildOutcome {
    Done { block: String, stats: Vec<(String, u64)> },
    Crashed { witness: CaseInput, why: String },
}

/// Run one case in a child process (`--child 1 --only n`) and collect its block, or the text it died on.
/// Err = the child could not be started (a harness problem, not an observation).
#[allow(clippy::too_many_arguments)]
fn run_child_case(exe: &std::path::Path, args: &Args, repo: &str, max_bytes: usize, n: u64, input: &CaseInput, timeout: std::time::Duration, sub_timeout: std::time::Duration) -> Result<ChildOutcome, String> {
    let tmp = format!("{}.child{}", args.out, n);
    let progress = if std::path::Path::new("/dev/shm").is_dir() {
        format!("/dev/shm/vharness-c12-{}-{n}.progress", std::process::id())
    } else {
        format!("{tmp}.progress")
    };
    let _ = std::fs::remove_file(&progress);
    let deadline = if input.class == "sweep" || input.class == "kwpos" { sub_timeout } else { timeout };
    // snippets are tiny: a sweep child that needs more than 1 GiB is running away
    let memcap = if input.class == "sweep" || input.class == "kwpos" { args.extra_usize("sweepmemcap_mb", 1024) } else { args.extra_usize("memcap_mb", 3072) };
    // (a failure to *start* the child is a harness problem, not an observation: retry, then give up)
    let mut spawned = Err(std::io::Error::other("not started"));
    for attempt in 0..4 {
        spawned = std::process::Command::new(exe)
            .args(["c12", "--seed", &args.seed.to_string(), "--cases", &args.cases.to_string(), "--only", &n.to_string()])
            .args(["--out", &tmp, "--child", "1", "--repo", repo, "--maxbytes", &max_bytes.to_string()])
            .args(["--maxmodeltokens", &args.extra_usize("maxmodeltokens", 3000).to_string()])
            .args(["--maxparseevents", &args.extra_usize("maxparseevents", 4000).to_string()])
            .args(["--memcap_mb", &memcap.to_string()])
            .args(["--sweepfull", &args.extra_usize("sweepfull", 0).to_string()])
            .args(["--progress", &progress])
            .args(["--guardstack_kb", &args.extra_usize("guardstack_kb", 2048).to_string()])
            .stdout(std::process::Stdio::null())
            .stderr(std::process::Stdio::null())
            .spawn();
        if spawned.is_ok() {
            break;
        }
        std::thread::sleep(std::time::Duration::from_millis(200 << attempt));
    }
    let mut child = match spawned {
        Ok(c) => c,
        Err(e) => return Err(format!("c12: cannot start the child process for case {n}: {e}")),
    };
    let mut last_prog = String::new();
    let mut last_change = std::time::Instant::now();
    let mut hung = false;
    let mut ticks = 0u32;
    let status = loop {
        match child.try_wait() {
            Ok(Some(st)) => break Some(st),
            Ok(None) => {}
            Err(_) => break None,
        }
        std::thread::sleep(std::time::Duration::from_millis(5));
        ticks += 1;
        if ticks % 40 == 0 {
            let prog = std::fs::read_to_string(&progress).unwrap_or_default();
            if prog != last_prog {
                last_prog = prog;
                last_change = std::time::Instant::now();
            } else if last_change.elapsed() > deadline {
                let _ = child.kill();
                let _ = child.wait();
                hung = true;
                break None;
            }
        }
    };
    let ok = matches!(&status, Some(s) if s.success());
    let outcome = match (ok, std::fs::read_to_string(&tmp)) {
        (true, Ok(block)) => {
            let mut stats = Vec::new();
            if let Ok(st) = std::fs::read_to_string(format!("{tmp}.stats.json")) {
                if let Ok(serde_json::Value::Object(m)) = serde_json::from_str::<serde_json::Value>(&st) {
                    for (k, v) in m {
                        stats.push((k, v.as_u64().unwrap_or(0)));
                    }
                }
            }
            ChildOutcome::Done { block, stats }
        }
        _ => {
            // which (sub-)input was the child working on?
            let prog = std::fs::read_to_string(&progress).unwrap_or_default();
            let mut parts = prog.split(' ');
            let _idx = parts.next();
            let label = parts.next().map(|h| String::from_utf8_lossy(&crate::util::unhex(h)).to_string()).unwrap_or_default();
            let text = parts.next().map(|h| String::from_utf8_lossy(&crate::util::unhex(h)).to_string());
            let mut witness = CaseInput {
                class: input.class,
                note: format!("{} [{}]", input.note, label),
                text: text.unwrap_or_else(|| input.text.clone()),
                ins_seed: input.ins_seed,
                sweep: None,
                guard: None,
                pre_fails: Vec::new(),
                pre_notes: Vec::new(),
            };
            if witness.text.len() > 64 * 1024 {
                witness.text.truncate(char_boundary_at_or_before(&witness.text, 64 * 1024));
            }
            let stack = if input.guard.is_some() { format!(" on a thread with a {} KiB stack", args.extra_usize("guardstack_kb", 2048)) } else { String::new() };
            let why = if hung {
                format!("no progress within {} s on this text (non-termination); child killed", deadline.as_secs())
            } else {
                format!("child process died ({status:?}) while parsing this text{stack} (stack overflow, allocation failure under the {memcap} MiB address-space cap = run-away allocation, or abort)")
            };
            ChildOutcome::Crashed { witness, why }
        }
    };
    let _ = std::fs::remove_file(&tmp);
    let _ = std::fs::remove_file(&progress);
    let _ = std::fs::remove_file(format!("{tmp}.stats.json"));
    Ok(outcome)
}

pub fn run(args: &Args) -> i32 {
    std::panic::set_hook(Box::new(|_| {}));
    let repo = args
        .extra
        .get("repo")
        .cloned()
        .or_else(|| std::env::var("VERIF_REPO").ok())
        .unwrap_or_else(|| "/repo".to_string());
    let max_bytes = args.extra_usize("maxbytes", 4096);
    MAX_MODEL_TOKENS.store(args.extra_usize("maxmodeltokens", 3000), std::sync::atomic::Ordering::Relaxed);
    MAX_PARSE_EVENTS.store(args.extra_usize("maxparseevents", 4000), std::sync::atomic::Ordering::Relaxed);
    SWEEP_FULL.store(args.extra_usize("sweepfull", 0) != 0, std::sync::atomic::Ordering::Relaxed);
    SWEEP_SEED.store(args.seed, std::sync::atomic::Ordering::Relaxed);
    let ctx = match Ctx::load(&repo, max_bytes) {
        Ok(c) => c,
        Err(e) => {
            eprintln!("c12: cannot load corpus / keyword table: {e}");
            return 3;
        }
    };
    let mut limits: [Option<(u64, String)>; 4] = [None, None, None, None];
    for (k, slot) in limits.iter_mut().enumerate() {
        match read_guard(&repo, k) {
            Ok(l) => *slot = l,
            Err(e) => {
                eprintln!("c12: cannot read the {} nesting guard from grammar/{}: {e}", KIND_NAMES[k], GUARD_SOURCES[k].0);
                return 3;
            }
        }
    }
    match &limits[K_EXPR] {
        Some((n, msg)) => {
            GUARD_LIMIT.store(*n, std::sync::atomic::Ordering::Relaxed);
            let _ = GUARD_MESSAGE.set(msg.clone());
        }
        None => {
            eprintln!("c12: MAX_EXPRESSION_DEPTH not found in grammar/expressions.rs");
            return 3;
        }
    }
    let _ = NEST_LIMITS.set(limits);
    if let Some(form) = args.extra.get("nestprobe") {
        return nest_probe(form, args.extra_usize("units", 1) as u64, args.extra_usize("guardstack_kb", 2048));
    }
    if args.extra.contains_key("measure") {
        let exe = std::env::current_exe().expect("current_exe");
        return measure(&exe, &repo, args.extra_usize("measure", 1), args.extra_usize("guardstack_kb", 2048), args.extra.get("forms").map(|s| s.as_str()), (args.extra_usize("measurecap_kb", 256) as u64) << 10);
    }
    let lang = Lang::probe();
    if lang.trivia.len() != 4 {
        eprintln!("c12: expected 4 trivia kinds, probe found {:?}", lang.trivia);
        return 3;
    }
    let dump = args.extra.contains_key("dump");
    let timeout = std::time::Duration::from_secs(args.extra_usize("timeout", 120) as u64);
    let is_child = args.extra.contains_key("child");
    let mut out = Out::new();
    out.add("corpus_files", ctx.corpus.len() as u64);
    out.add("keyword_table", ctx.words.len() as u64);

    if let Some(path) = args.extra.get("file") {
        // ad-hoc replay of one text (witnesses): `vharness c12 --file <path> --out <cases> [--dump 1]`
        let text = match std::fs::read_to_string(path) {
            Ok(t) => t,
            Err(e) => {
                eprintln!("c12: {path}: {e}");
                return 3;
            }
        };
        if let Some(mode) = args.extra.get("probe") {
            // stack probes for the report: where does a deep input die?  1 = parse and leak the result,
            // 2 = parse and drop the result, 3 = lex only
            eprintln!("probe {mode}: {} bytes", text.len());
            match mode.as_str() {
                "3" => eprintln!("tokens: {}", lex(&text).len()),
                "1" => {
                    let p = parse(&text);
                    eprintln!("parsed, errors: {}", p.errors().len());
                    let root = p.syntax();
                    eprintln!("max depth: {}", dump_tree(&root).max_depth);
                    std::mem::forget(root);
                    std::mem::forget(p);
                    eprintln!("leaked");
                }
                _ => {
                    let p = parse(&text);
                    eprintln!("parsed, errors: {}", p.errors().len());
                    drop(p);
                    eprintln!("dropped");
                }
            }
            return 0;
        }
        let input = CaseInput {
            class: "file",
            note: path.clone(),
            text,
            ins_seed: args.seed,
            sweep: None,
            guard: None,
            pre_fails: Vec::new(),
            pre_notes: Vec::new(),
        };
        let ok = run_case(0, &input, &lang, &mut out, dump);
        out.finish(&args.out);
        eprintln!("c12: oracle {}", if ok { "ok" } else { "FAIL" });
        return 0;
    }

    if is_child {
        // exactly one case, on this (main) thread with the process's own stack, under an address-space
        // cap so that a parser that allocates without end dies quickly instead of taking the machine
        let cap = (args.extra_usize("memcap_mb", 3072) as u64) << 20;
        let lim = libc::rlimit {
            rlim_cur: cap,
            rlim_max: cap,
        };
        // SAFETY: plain setrlimit call on this process
        unsafe {
            libc::setrlimit(libc::RLIMIT_AS, &lim);
        }
        let n = args.only.expect("--child needs --only");
        let progress = args.extra.get("progress").cloned().unwrap_or_else(|| format!("{}.progress", args.out));
        let mut input = gen_case(args.seed, n, &ctx);
        write_progress(&progress, 0, "own", &input.text);
        if let Some(sw) = input.sweep.clone() {
            if sw.at == KW_POSITIONS {
                let (f, notes, witness) = run_kwpos(&ctx, &lang, &sw, &progress, &mut out);
                input.pre_fails = f;
                input.pre_notes = notes;
                if let Some(w) = witness {
                    // the case's own text becomes the accepted text that fails the clause (the failing input)
                    input.note = format!("{} FAILING-INPUT-IS-THE-CASE-TEXT", input.note);
                    input.text = w;
                }
            } else {
                let (f, notes) = run_sweep(&ctx, &lang, &sw, &progress, &mut out);
                input.pre_fails = f;
                input.pre_notes = notes;
            }
            write_progress(&progress, usize::MAX, "own", &input.text);
        }
        if input.guard.is_some() {
            // the guard family runs on a thread with the stack size of an ordinary spawned thread
            // (2 MiB unless told otherwise): that is where a language server or a test parses
            let kb = args.extra_usize("guardstack_kb", 2048);
            let lang2 = Lang {
                int: lang.int,
                dot: lang.dot,
                dotdot: lang.dotdot,
                eof: lang.eof,
                trivia: lang.trivia.clone(),
            };
            let h = std::thread::Builder::new()
                .stack_size(kb << 10)
                .spawn(move || {
                    let mut o = Out::new();
                    run_case(n, &input, &lang2, &mut o, dump);
                    o
                })
                .expect("spawn");
            match h.join() {
                Ok(o) => {
                    out.buf.push_str(&o.buf);
                    for (k, v) in o.stats {
                        out.add(&k, v);
                    }
                }
                Err(_) => return 4,
            }
        } else {
            run_case(n, &input, &lang, &mut out, dump);
        }
        out.finish(&args.out);
        return 0;
    }

    let exe = std::env::current_exe().expect("current_exe");
    let sub_timeout = std::time::Duration::from_secs(args.extra_usize("subtimeout", 20) as u64);
    let mem_growth_limit = (args.extra_usize("memgrowth_mb", 1536) as u64) << 20;
    let mut crashes = 0u32;
    let lang_ref: &'static Lang = Box::leak(Box::new(Lang {
        int: lang.int,
        dot: lang.dot,
        dotdot: lang.dotdot,
        eof: lang.eof,
        trivia: lang.trivia.clone(),
    }));
    // The nesting families (one child each, about 200 of them, deep trees are slow to build) run
    // `childjobs` at a time ahead of the main loop; their results are merged in case order below.
    let mut prefetched: std::collections::HashMap<u64, Result<ChildOutcome, String>> = std::collections::HashMap::new();
    {
        let family: Vec<(u64, CaseInput)> = args.case_numbers().into_iter().map(|n| (n, gen_case(args.seed, n, &ctx))).take_while(|(n, c)| c.guard.is_some() || (*n as usize) < 512).filter(|(_, c)| c.guard.is_some() || c.class == "kwpos").collect();
        let jobs = args.extra_usize("childjobs", 4).max(1);
        let next = std::sync::atomic::AtomicUsize::new(0);
        let results = std::sync::Mutex::new(Vec::new());
        std::thread::scope(|sc| {
            for _ in 0..jobs.min(family.len()) {
                sc.spawn(|| loop {
                    let i = next.fetch_add(1, std::sync::atomic::Ordering::Relaxed);
                    let Some((n, input)) = family.get(i) else { break };
                    let r = run_child_case(&exe, args, &repo, max_bytes, *n, input, timeout, sub_timeout);
                    results.lock().expect("results").push((*n, r));
                });
            }
        });
        prefetched.extend(results.into_inner().expect("results"));
    }
    for n in args.case_numbers() {
        let input = gen_case(args.seed, n, &ctx);
        out.count("cases");
        if input.class == "deep" || input.class == "sweep" || input.class == "kwpos" {
            // child process: a stack overflow (SIGSEGV / abort), an allocation failure under the memory cap
            // or a hang is an observable, not a harness crash.  The child reports the (sub-)input it is
            // working on through a progress file; no progress within the deadline = non-termination.
            let outcome = match prefetched.remove(&n) {
                Some(o) => o,
                None => run_child_case(&exe, args, &repo, max_bytes, n, &input, timeout, sub_timeout),
            };
            match outcome {
                Err(e) => {
                    eprintln!("{e}");
                    return 3;
                }
                Ok(ChildOutcome::Done { block, stats }) => {
                    out.buf.push_str(&block);
                    for (k, v) in stats {
                        if k.starts_with("max_") {
                            let seen = out.stats.get(&k).copied().unwrap_or(0);
                            out.add(&k, v.saturating_sub(seen));
                        } else if k != "corpus_files" && k != "keyword_table" {
                            out.add(&k, v);
                        }
                    }
                }
                Ok(ChildOutcome::Crashed { witness, why }) => {
                    crashed_case(n, &witness, &lang, &mut out, &why);
                    crashes += 1;
                }
            }
            if crashes >= 3 {
                eprintln!("c12: {crashes} crashing / hanging inputs found; stopping the run early");
                break;
            }
            continue;
        }
        // worker thread + watchdog
        let (tx, rx) = std::sync::mpsc::channel();
        let input2 = CaseInput {
            class: input.class,
            note: input.note.clone(),
            text: input.text.clone(),
            ins_seed: input.ins_seed,
            sweep: None,
            guard: None,
            pre_fails: Vec::new(),
            pre_notes: Vec::new(),
        };
        let handle = std::thread::Builder::new()
            .stack_size(8 << 20)
            .spawn(move || {
                let mut o = Out::new();
                run_case(n, &input2, lang_ref, &mut o, dump);
                let _ = tx.send(o);
            })
            .expect("spawn");
        let started = std::time::Instant::now();
        let rss0 = rss_bytes();
        let verdict = loop {
            match rx.recv_timeout(std::time::Duration::from_millis(50)) {
                Ok(o) => break Ok(o),
                Err(std::sync::mpsc::RecvTimeoutError::Timeout) => {
                    if started.elapsed() > timeout {
                        break Err(format!("no answer within {} s (non-termination)", timeout.as_secs()));
                    }
                    let grown = rss_bytes().saturating_sub(rss0);
                    if grown > mem_growth_limit {
                        break Err(format!(
                            "memory grew by {} MiB in {:.1} s while handling this text (run-away allocation / non-termination)",
                            grown >> 20,
                            started.elapsed().as_secs_f64()
                        ));
                    }
                }
                Err(std::sync::mpsc::RecvTimeoutError::Disconnected) => break Err(String::new()),
            }
        };
        match verdict {
            Ok(o) => {
                let _ = handle.join();
                out.buf.push_str(&o.buf);
                for (k, v) in o.stats {
                    out.add(&k, v);
                }
            }
            Err(why) if why.is_empty() => {
                let _ = handle.join();
                crashed_case(n, &input, &lang, &mut out, "worker thread died without an answer");
            }
            Err(why) => {
                crashed_case(n, &input, &lang, &mut out, &why);
                out.finish(&args.out);
                eprintln!("c12: case {n}: {why}; stopping the run");
                // the stuck thread cannot be cancelled: leave through exit
                std::process::exit(0);
            }
        }
    }
    out.finish(&args.out);
    0
}
