//! C13 — incremental analysis equals from-scratch analysis after any edit history.
//!
//! Two streams of cases:
//!
//! * `stream db` (the claim): a generated history of `set / rm / q` operations over 1..5 files with
//!   cross-file references is applied to a real `trust_hir::Database`.  After **every** operation
//!   the `verif_views()` hook (the three file-set views + both revision counters) is written as the
//!   `impl` line and compared with the Lean model of the `Database` bookkeeping.  Every query is
//!   additionally judged by the property's own differential oracle, evaluated on the
//!   implementation (`#o` lines, read by `checks/c13.py`): the answer must equal the answer of a
//!   brand-new `Database` loaded with the final texts (tracked by the harness itself, not read back
//!   from the database under test), a repeated query must return the same answer, and nothing may
//!   panic (`catch_unwind`).
//! * `stream proj` (layer note of DESIGN.md, reported separately): the same kind of history one
//!   level up, through `trust_hir::Project` (files identified by key; a re-added key gets a new
//!   `FileId`).  The key→id table and the views are compared with the Lean model of the registry;
//!   `#p` lines record whether the answers (with file ids renamed to keys) equal those of a fresh
//!   `Project` loaded (a) in an order that reproduces the same relative id order, (b) in key order.
//!
//! Protocol (one case):
//!   case <n> / stream db|proj / text <k> <hex> / set <fid> <k> / rm <fid> / q <kind> <fid> <arg>
//!   pset <key> <k> / prm <key> / pq <kind> <key> <arg> / impl … / #o … / #p … / tag … / end

use crate::rng::Rng;
use crate::util::{hex, Out};
use crate::Args;
use std::collections::{BTreeMap, HashMap};
use std::fmt::Write as _;
use std::panic::{catch_unwind, AssertUnwindSafe};
use std::sync::Arc;
use trust_hir::db::{Database, FileId, SemanticDatabase, SourceDatabase};
use trust_hir::diagnostics::Diagnostic;
use trust_hir::symbols::SymbolTable;
use trust_hir::TypeId;
use trust_hir::{Project, SourceKey};

// ------------------------------------------------------------------------------------------------
// Answers and their canonical form
// ------------------------------------------------------------------------------------------------

#[derive(Clone, Copy, Debug, PartialEq, Eq)]
pub enum Kind {
    Analyze,
    Diagnostics,
    FileSymbols,
    TypeOf,
    ExprIdAt,
}

pub const KINDS: [Kind; 5] = [
    Kind::Analyze,
    Kind::Diagnostics,
    Kind::FileSymbols,
    Kind::TypeOf,
    Kind::ExprIdAt,
];

impl Kind {
    pub fn name(self) -> &'static str {
        match self {
            Kind::Analyze => "analyze",
            Kind::Diagnostics => "diagnostics",
            Kind::FileSymbols => "fsyms",
            Kind::TypeOf => "typeof",
            Kind::ExprIdAt => "exprat",
        }
    }
}

/// One answer of the database.  Equality is the structural `PartialEq` of the real types.
#[derive(Clone, PartialEq)]
pub enum Ans {
    Analysis(Arc<SymbolTable>, Arc<Vec<Diagnostic>>),
    Diags(Arc<Vec<Diagnostic>>),
    Syms(Arc<SymbolTable>),
    /// the type id and, for the id-insensitive form, its rendering through the file's own table
    Ty(TypeId, Option<String>),
    Expr(Option<u32>),
}

/// Id-insensitive rendering of a type (type ids are numbered in import order).
fn type_str(t: &SymbolTable, id: TypeId, depth: u32) -> String {
    use trust_hir::Type;
    if let Some(n) = id.builtin_name() {
        return n.to_string();
    }
    if depth > 6 {
        return "…".into();
    }
    match t.type_by_id(id) {
        None => format!("?{}", id.0),
        Some(ty) => match ty {
            Type::Array { element, dimensions } => {
                format!("ARRAY{dimensions:?} OF {}", type_str(t, *element, depth + 1))
            }
            Type::Struct { name, fields } => format!(
                "STRUCT {name} {{{}}}",
                fields
                    .iter()
                    .map(|f| format!("{}:{}", f.name, type_str(t, f.type_id, depth + 1)))
                    .collect::<Vec<_>>()
                    .join(",")
            ),
            Type::Union { name, variants } => format!(
                "UNION {name} {{{}}}",
                variants
                    .iter()
                    .map(|f| format!("{}:{}", f.name, type_str(t, f.type_id, depth + 1)))
                    .collect::<Vec<_>>()
                    .join(",")
            ),
            Type::Enum { name, base, values } => {
                format!("ENUM {name} {} {values:?}", type_str(t, *base, depth + 1))
            }
            Type::Pointer { target } => format!("POINTER TO {}", type_str(t, *target, depth + 1)),
            Type::Reference { target } => format!("REF_TO {}", type_str(t, *target, depth + 1)),
            Type::Subrange { base, lower, upper } => {
                format!("{}({lower}..{upper})", type_str(t, *base, depth + 1))
            }
            Type::Alias { name, target } => {
                format!("ALIAS {name} = {}", type_str(t, *target, depth + 1))
            }
            other => format!("{other:?}"),
        },
    }
}

pub fn ask(db: &Database, kind: Kind, file: FileId, arg: u32, visible: bool) -> Ans {
    match kind {
        Kind::Analyze => {
            let a = db.analyze(file);
            Ans::Analysis(a.symbols.clone(), a.diagnostics.clone())
        }
        Kind::Diagnostics => Ans::Diags(db.diagnostics(file)),
        Kind::FileSymbols => Ans::Syms(db.file_symbols(file)),
        Kind::TypeOf => {
            let ty = db.type_of(file, arg);
            let name = visible.then(|| type_str(&db.analyze(file).symbols, ty, 0));
            Ans::Ty(ty, name)
        }
        Kind::ExprIdAt => Ans::Expr(db.expr_id_at_offset(file, arg)),
    }
}

fn dump_diags(out: &mut String, diags: &[Diagnostic], ren: &dyn Fn(u32) -> String) {
    let _ = ren;
    for d in diags {
        let _ = writeln!(
            out,
            "D {} {:?} {}..{} {:?}",
            d.code.code(),
            d.severity,
            u32::from(d.range.start()),
            u32::from(d.range.end()),
            d.message
        );
        for r in &d.related {
            let _ = writeln!(
                out,
                "  R {}..{} {:?}",
                u32::from(r.range.start()),
                u32::from(r.range.end()),
                r.message
            );
        }
    }
}

/// Canonical dump of a symbol table: symbols by id, scopes with sorted name tables, the types the
/// symbols refer to, extends/implements.  `ren` renames file ids (identity at the Database layer,
/// id→key at the Project layer).
fn dump_symbols(out: &mut String, t: &SymbolTable, ren: &dyn Fn(u32) -> String) {
    let mut syms: Vec<_> = t.iter().collect();
    syms.sort_by_key(|s| s.id.0);
    let mut type_ids: Vec<u32> = Vec::new();
    for s in &syms {
        let origin = match s.origin {
            Some(o) => format!("{}#{}", ren(o.file_id.0), o.symbol_id.0),
            None => "-".into(),
        };
        let _ = writeln!(
            out,
            "S {} {:?} {:?} ty={} addr={:?} vis={:?} mods={:?} {}..{} origin={} parent={:?} doc={:?} ext={:?} impl={:?}",
            s.id.0,
            s.name.as_str(),
            s.kind,
            s.type_id.0,
            s.direct_address,
            s.visibility,
            s.modifiers,
            u32::from(s.range.start()),
            u32::from(s.range.end()),
            origin,
            s.parent.map(|p| p.0),
            s.doc,
            t.extends_name(s.id),
            t.implements_names(s.id),
        );
        type_ids.push(s.type_id.0);
    }
    for sc in t.scopes() {
        let mut names: Vec<(String, u32)> = sc
            .symbols
            .iter()
            .map(|(k, v)| (k.to_string(), v.0))
            .collect();
        names.sort();
        let _ = writeln!(
            out,
            "C {} parent={:?} owner={:?} {:?} using={:?} names={:?}",
            sc.id.0,
            sc.parent.map(|p| p.0),
            sc.owner.map(|p| p.0),
            sc.kind,
            sc.using_directives,
            names
        );
    }
    type_ids.sort_unstable();
    type_ids.dedup();
    for id in type_ids {
        if let Some(ty) = t.type_by_id(TypeId(id)) {
            let _ = writeln!(out, "T {} {:?}", id, ty);
        }
    }
}

/// Id-insensitive dump of a symbol table (Project layer): the *set* of symbols described by name,
/// kind, rendered type, range, origin key and parent name.  Symbol and type ids are numbered in
/// import order and are meaningless to a user, so they are left out.
fn dump_symbols_visible(out: &mut String, t: &SymbolTable, ren: &dyn Fn(u32) -> String) {
    use trust_hir::symbols::SymbolKind;
    let mut rows: Vec<String> = Vec::new();
    for s in t.iter() {
        let origin = match s.origin {
            Some(o) => ren(o.file_id.0),
            None => "-".into(),
        };
        let kind = match &s.kind {
            SymbolKind::Function { return_type, parameters } => format!(
                "Function({};{})",
                type_str(t, *return_type, 0),
                parameters
                    .iter()
                    .map(|p| t.get(*p).map(|x| x.name.to_string()).unwrap_or_else(|| "?".into()))
                    .collect::<Vec<_>>()
                    .join(",")
            ),
            SymbolKind::Method { return_type, parameters } => format!(
                "Method({};{})",
                return_type.map(|r| type_str(t, r, 0)).unwrap_or_else(|| "-".into()),
                parameters
                    .iter()
                    .map(|p| t.get(*p).map(|x| x.name.to_string()).unwrap_or_else(|| "?".into()))
                    .collect::<Vec<_>>()
                    .join(",")
            ),
            SymbolKind::Property { prop_type, has_get, has_set } => {
                format!("Property({};{has_get};{has_set})", type_str(t, *prop_type, 0))
            }
            other => format!("{other:?}"),
        };
        let parent = s
            .parent
            .and_then(|p| t.get(p))
            .map(|p| p.name.to_string())
            .unwrap_or_else(|| "-".into());
        rows.push(format!(
            "V {:?} {kind} ty={} addr={:?} vis={:?} mods={:?} {}..{} origin={origin} parent={parent} ext={:?} impl={:?}",
            s.name.as_str(),
            type_str(t, s.type_id, 0),
            s.direct_address,
            s.visibility,
            s.modifiers,
            u32::from(s.range.start()),
            u32::from(s.range.end()),
            t.extends_name(s.id),
            t.implements_names(s.id),
        ));
    }
    rows.sort();
    for r in rows {
        out.push_str(&r);
        out.push('\n');
    }
}

impl Ans {
    /// The id-insensitive form used at the Project layer.
    pub fn dump_visible(&self, ren: &dyn Fn(u32) -> String) -> String {
        let mut s = String::new();
        match self {
            Ans::Analysis(t, d) => {
                dump_symbols_visible(&mut s, t, ren);
                dump_diags(&mut s, d, ren);
            }
            Ans::Diags(d) => dump_diags(&mut s, d, ren),
            Ans::Syms(t) => dump_symbols_visible(&mut s, t, ren),
            Ans::Ty(_, name) => {
                let _ = writeln!(s, "Y {name:?}");
            }
            Ans::Expr(e) => {
                let _ = writeln!(s, "E {e:?}");
            }
        }
        s
    }
    pub fn dump(&self, ren: &dyn Fn(u32) -> String) -> String {
        let mut s = String::new();
        match self {
            Ans::Analysis(t, d) => {
                dump_symbols(&mut s, t, ren);
                dump_diags(&mut s, d, ren);
            }
            Ans::Diags(d) => dump_diags(&mut s, d, ren),
            Ans::Syms(t) => dump_symbols(&mut s, t, ren),
            Ans::Ty(t, _) => {
                let _ = writeln!(s, "Y {}", t.0);
            }
            Ans::Expr(e) => {
                let _ = writeln!(s, "E {e:?}");
            }
        }
        s
    }
    pub fn size(&self) -> usize {
        match self {
            Ans::Analysis(t, d) => t.len() + d.len(),
            Ans::Diags(d) => d.len(),
            Ans::Syms(t) => t.len(),
            Ans::Ty(t, _) => t.0 as usize,
            Ans::Expr(e) => e.map(|v| v as usize + 1).unwrap_or(0),
        }
    }
}

/// Last panic message seen by the hook installed in `run` (a panic is an observable here).
static LAST_PANIC: std::sync::Mutex<String> = std::sync::Mutex::new(String::new());

fn take_panic() -> String {
    let mut g = LAST_PANIC.lock().unwrap_or_else(|e| e.into_inner());
    std::mem::take(&mut *g)
}

pub fn fnv(s: &str) -> u64 {
    let mut h: u64 = 0xcbf2_9ce4_8422_2325;
    for b in s.as_bytes() {
        h ^= u64::from(*b);
        h = h.wrapping_mul(0x0000_0100_0000_01b3);
    }
    h
}

fn ident(id: u32) -> String {
    id.to_string()
}

// ------------------------------------------------------------------------------------------------
// Text pool
// ------------------------------------------------------------------------------------------------

/// A slot is a role in a small project (library, user, types…) with interchangeable variants.
pub struct Slot {
    pub variants: Vec<String>,
}

fn slot(vs: &[&str]) -> Slot {
    Slot {
        variants: vs.iter().map(|s| s.to_string()).collect(),
    }
}

fn theme_func() -> Vec<Slot> {
    vec![
        slot(&[
            "FUNCTION AddOne : INT\nVAR_INPUT\n    x : INT;\nEND_VAR\nAddOne := x + 1;\nEND_FUNCTION\n",
            "FUNCTION AddOne : DINT\nVAR_INPUT\n    x : INT;\nEND_VAR\nAddOne := x + 1;\nEND_FUNCTION\n",
            "FUNCTION AddOne : INT\nVAR_INPUT\n    x : BOOL;\nEND_VAR\nAddOne := 1;\nEND_FUNCTION\n",
            "FUNCTION AddOne : INT\nVAR_INPUT\n    x : INT;\n    y : INT;\nEND_VAR\nAddOne := x + y;\nEND_FUNCTION\n",
            "FUNCTION AddTwo : INT\nVAR_INPUT\n    x : INT;\nEND_VAR\nAddTwo := x + 2;\nEND_FUNCTION\n",
            "FUNCTION AddOne : INT\nVAR_INPUT\n    x : INT;\nEND_VAR\nAddOne := x + 2;\nEND_FUNCTION\n",
            "(* lib *)\nFUNCTION AddOne : INT\nVAR_INPUT\n    x : INT;\nEND_VAR\nAddOne := x + 1;\nEND_FUNCTION\n",
            "FUNCTION AddOne : INT\nVAR_INPUT\n    x : INT;\nEND_VAR\nAddOne := x + 1;\n",
            "FUNCTION AddOne : INT\nVAR_INPUT\n    x : INT;\nEND_VAR\nAddOne := Helper(x) + 1;\nEND_FUNCTION\n\nFUNCTION Helper : INT\nVAR_INPUT\n    a : INT;\nEND_VAR\nHelper := a * 2;\nEND_FUNCTION\n",
            "FUNCTION AddOne : BOOL\nVAR_INPUT\n    x : INT;\nEND_VAR\nAddOne := x > 1;\nEND_FUNCTION\n",
        ]),
        slot(&[
            "PROGRAM Main\nVAR\n    value : INT;\nEND_VAR\nvalue := AddOne(1);\nEND_PROGRAM\n",
            "PROGRAM Main\nVAR\n    value : BOOL;\nEND_VAR\nvalue := AddOne(1);\nEND_PROGRAM\n",
            "PROGRAM Main\nVAR\n    value : INT;\nEND_VAR\nvalue := AddOne(TRUE);\nEND_PROGRAM\n",
            "PROGRAM Main\nVAR\n    value : INT;\nEND_VAR\nvalue := AddOne(1, 2);\nEND_PROGRAM\n",
            "PROGRAM Main\nVAR\n    value : INT;\n    spare : INT;\nEND_VAR\nvalue := Helper(AddOne(x := 3));\nEND_PROGRAM\n",
            "PROGRAM Main\nVAR\n    value : INT;\nEND_VAR\nvalue := AddTwo(value) + AddOne(value);\nIF value > 3 THEN\n    value := 0;\nEND_IF;\nEND_PROGRAM\n",
            "PROGRAM Main\nVAR\n    value : DINT;\nEND_VAR\nvalue := AddOne(1);\nvalue := value + 1;\nEND_PROGRAM\n",
        ]),
        slot(&[
            "PROGRAM Aux\nVAR\n    flag : BOOL;\nEND_VAR\nflag := TRUE;\nEND_PROGRAM\n",
            "PROGRAM Aux\nVAR\n    flag : BOOL;\nEND_VAR\nflag := FALSE;\nEND_PROGRAM\n",
            "PROGRAM Aux\nVAR\n    n : INT;\nEND_VAR\nn := AddOne(n);\nEND_PROGRAM\n",
            "FUNCTION AddOne : BOOL\nVAR_INPUT\n    x : BOOL;\nEND_VAR\nAddOne := NOT x;\nEND_FUNCTION\n\nPROGRAM Aux\nVAR\n    flag : BOOL;\nEND_VAR\nflag := AddOne(flag);\nEND_PROGRAM\n",
            "FUNCTION Helper : DINT\nVAR_INPUT\n    a : DINT;\nEND_VAR\nHelper := a;\nEND_FUNCTION\n",
        ]),
    ]
}

fn theme_types() -> Vec<Slot> {
    vec![
        slot(&[
            "TYPE\n    E_State : (Idle := 0, Starting := 1, Running := 2, Fault := 3);\n    ST_Cmd :\n    STRUCT\n        Enable : BOOL;\n        Speed : REAL;\n    END_STRUCT;\n    MyInt : INT;\nEND_TYPE\n",
            "TYPE\n    E_State : (Idle := 0, Starting := 1, Running := 2);\n    ST_Cmd :\n    STRUCT\n        Enable : BOOL;\n        Speed : REAL;\n    END_STRUCT;\n    MyInt : INT;\nEND_TYPE\n",
            "TYPE\n    E_State : (Idle := 0, Starting := 1, Running := 2, Fault := 3);\n    ST_Cmd :\n    STRUCT\n        Enable : BOOL;\n        Target : INT;\n    END_STRUCT;\n    MyInt : DINT;\nEND_TYPE\n",
            "TYPE\n    E_State : (Idle := 0, Starting := 1, Running := 2, Fault := 3);\n    MyInt : BOOL;\nEND_TYPE\n",
            "TYPE\n    ST_Cmd :\n    STRUCT\n        Enable : BOOL;\n        Speed : REAL;\n    END_STRUCT;\n    Arr : ARRAY[0..3] OF INT;\n    Small : INT(0..10);\n    MyInt : Small;\nEND_TYPE\n",
            "TYPE\n    E_State : (Idle := 0, Starting := 1, Running := 2, Fault := 3);\n    ST_Cmd :\n    STRUCT\n        Enable : BOOL;\n        Speed : REAL;\n    END_STRUCT\n    MyInt : INT;\n",
        ]),
        slot(&[
            "FUNCTION_BLOCK FB_Pump\nVAR_INPUT\n    Cmd : ST_Cmd;\nEND_VAR\nVAR_OUTPUT\n    State : E_State;\n    Count : MyInt;\nEND_VAR\nIF Cmd.Enable THEN\n    State := E_State#Running;\nELSE\n    State := E_State#Idle;\nEND_IF;\nCount := Count + 1;\nEND_FUNCTION_BLOCK\n",
            "FUNCTION_BLOCK FB_Pump\nVAR_INPUT\n    Cmd : ST_Cmd;\nEND_VAR\nVAR_OUTPUT\n    State : E_State;\nEND_VAR\nIF Cmd.Speed > 1.0 THEN\n    State := E_State#Fault;\nEND_IF;\nEND_FUNCTION_BLOCK\n",
            "FUNCTION_BLOCK FB_Pump\nVAR_INPUT\n    Enable : BOOL;\nEND_VAR\nVAR_OUTPUT\n    State : INT;\nEND_VAR\nState := 1;\nEND_FUNCTION_BLOCK\n",
            "FUNCTION_BLOCK FB_Motor\nVAR_INPUT\n    Cmd : ST_Cmd;\nEND_VAR\nVAR\n    Inner : FB_Pump;\nEND_VAR\nInner(Cmd := Cmd);\nEND_FUNCTION_BLOCK\n",
        ]),
        slot(&[
            "PROGRAM Plant\nVAR\n    Pump : FB_Pump;\n    Cmd : ST_Cmd;\n    Halt : BOOL;\nEND_VAR\nCmd.Enable := NOT Halt;\nCmd.Speed := 1.5;\nPump(Cmd := Cmd);\nIF Pump.State = E_State#Fault THEN\n    Halt := TRUE;\nEND_IF;\nEND_PROGRAM\n",
            "PROGRAM Plant\nVAR\n    Pump : FB_Pump;\n    Cmd : ST_Cmd;\n    n : MyInt;\nEND_VAR\nCmd.Target := 3;\nPump(Cmd := Cmd);\nn := Pump.Count;\nEND_PROGRAM\n",
            "PROGRAM Plant\nVAR\n    Pump : FB_Pump;\n    a : Arr;\n    s : Small;\nEND_VAR\nPump(Enable := TRUE);\na[1] := Pump.State;\ns := 11;\nEND_PROGRAM\n",
            "PROGRAM Plant\nVAR\n    M : FB_Motor;\n    st : E_State;\nEND_VAR\nM();\nst := E_State#Starting;\nCASE st OF\n    E_State#Idle: st := E_State#Running;\n    E_State#Fault: st := E_State#Idle;\nEND_CASE;\nEND_PROGRAM\n",
        ]),
    ]
}

fn theme_globals() -> Vec<Slot> {
    vec![
        slot(&[
            "CONFIGURATION Conf\nVAR_GLOBAL\n    Shared : INT;\n    gFlag : BOOL;\nEND_VAR\nRESOURCE R ON CPU\n    TASK Fast (INTERVAL := T#10ms, PRIORITY := 1);\n    TASK Slow (INTERVAL := T#20ms, PRIORITY := 2);\n    PROGRAM P1 WITH Fast : Writer;\n    PROGRAM P2 WITH Slow : Reader;\nEND_RESOURCE\nEND_CONFIGURATION\n",
            "CONFIGURATION Conf\nVAR_GLOBAL\n    Shared : INT;\n    gFlag : BOOL;\nEND_VAR\nRESOURCE R ON CPU\n    TASK Fast (INTERVAL := T#10ms, PRIORITY := 1);\n    PROGRAM P1 WITH Fast : Writer;\n    PROGRAM P2 WITH Fast : Reader;\nEND_RESOURCE\nEND_CONFIGURATION\n",
            "CONFIGURATION Conf\nVAR_GLOBAL\n    Shared : DINT;\nEND_VAR\nRESOURCE R ON CPU\n    TASK Fast (INTERVAL := T#10ms, PRIORITY := 1);\n    TASK Slow (INTERVAL := T#20ms, PRIORITY := 2);\n    PROGRAM P1 WITH Fast : Writer;\n    PROGRAM P2 WITH Slow : Reader;\n    PROGRAM P3 WITH Slowest : Reader;\nEND_RESOURCE\nEND_CONFIGURATION\n",
            "CONFIGURATION Conf\nVAR_GLOBAL\n    Other : INT;\nEND_VAR\nTASK Fast (INTERVAL := T#10ms, PRIORITY := 1);\nPROGRAM P1 WITH Fast : Writer;\nEND_CONFIGURATION\n",
            "CONFIGURATION Conf\nVAR_GLOBAL\n    Shared : INT;\n    gFlag : BOOL;\nEND_VAR\nRESOURCE R ON CPU\n    TASK Fast (INTERVAL := T#10ms);\n    PROGRAM P1 WITH Fast : Writer;\n",
        ]),
        slot(&[
            "PROGRAM Writer\nVAR_EXTERNAL\n    Shared : INT;\nEND_VAR\nShared := Shared + 1;\nEND_PROGRAM\n",
            "PROGRAM Writer\nVAR_EXTERNAL\n    Shared : DINT;\nEND_VAR\nShared := Shared + 1;\nEND_PROGRAM\n",
            "PROGRAM Writer\nVAR_EXTERNAL\n    Shared : INT;\n    gFlag : BOOL;\nEND_VAR\nVAR\n    t : INT;\nEND_VAR\nt := Shared;\ngFlag := TRUE;\nEND_PROGRAM\n",
            "PROGRAM Writer\n    Shared := Shared + 1;\nEND_PROGRAM\n",
            "PROGRAM Writer\nVAR_EXTERNAL\n    Missing : INT;\nEND_VAR\nMissing := 1;\nEND_PROGRAM\n",
        ]),
        slot(&[
            "PROGRAM Reader\nVAR_EXTERNAL\n    Shared : INT;\nEND_VAR\nVAR\n    x : INT;\nEND_VAR\nx := Shared;\nEND_PROGRAM\n",
            "PROGRAM Reader\nVAR_EXTERNAL\n    Shared : INT;\nEND_VAR\nShared := 0;\nEND_PROGRAM\n",
            "PROGRAM Reader\n    VAR x : INT; END_VAR\n    x := Shared;\nEND_PROGRAM\n",
            "PROGRAM Reader\nVAR_EXTERNAL\n    gFlag : BOOL;\nEND_VAR\nVAR\n    x : INT;\nEND_VAR\nIF gFlag THEN\n    x := 1;\nEND_IF;\nEND_PROGRAM\n",
        ]),
    ]
}

fn theme_ns() -> Vec<Slot> {
    vec![
        slot(&[
            "NAMESPACE Lib\nFUNCTION Inc : INT\nVAR_INPUT\n    x : INT;\nEND_VAR\nInc := x + INT#1;\nEND_FUNCTION\nEND_NAMESPACE\n",
            "NAMESPACE Lib\nFUNCTION Inc : DINT\nVAR_INPUT\n    x : DINT;\nEND_VAR\nInc := x + DINT#1;\nEND_FUNCTION\nEND_NAMESPACE\n",
            "NAMESPACE Lib\nNAMESPACE Sub\nFUNCTION Inc : INT\nVAR_INPUT\n    x : INT;\nEND_VAR\nInc := x + INT#1;\nEND_FUNCTION\nEND_NAMESPACE\nEND_NAMESPACE\n",
            "NAMESPACE Lib2\nFUNCTION Inc : INT\nVAR_INPUT\n    x : INT;\nEND_VAR\nInc := x + INT#1;\nEND_FUNCTION\nEND_NAMESPACE\n",
            "NAMESPACE Lib\nTYPE\n    Level : (Low, High);\nEND_TYPE\nFUNCTION Inc : INT\nVAR_INPUT\n    x : INT;\nEND_VAR\nInc := x + INT#1;\nEND_FUNCTION\nEND_NAMESPACE\n",
        ]),
        slot(&[
            "NAMESPACE Lib\nFUNCTION Dec : INT\nVAR_INPUT\n    x : INT;\nEND_VAR\nDec := x - INT#1;\nEND_FUNCTION\nEND_NAMESPACE\n",
            "NAMESPACE Lib\nFUNCTION Inc : BOOL\nVAR_INPUT\n    x : BOOL;\nEND_VAR\nInc := NOT x;\nEND_FUNCTION\nEND_NAMESPACE\n",
            "NAMESPACE Lib\nNAMESPACE Sub\nFUNCTION Dec : INT\nVAR_INPUT\n    x : INT;\nEND_VAR\nDec := x - INT#1;\nEND_FUNCTION\nEND_NAMESPACE\nEND_NAMESPACE\n",
            "FUNCTION Dec : INT\nVAR_INPUT\n    x : INT;\nEND_VAR\nDec := x - INT#1;\nEND_FUNCTION\n",
        ]),
        slot(&[
            "USING Lib;\nPROGRAM Main\nVAR\n    y : INT;\nEND_VAR\ny := Inc(INT#1);\nEND_PROGRAM\n",
            "PROGRAM Main\nVAR\n    y : INT;\nEND_VAR\ny := Lib.Inc(INT#1);\ny := Lib.Dec(y);\nEND_PROGRAM\n",
            "USING Lib.Sub;\nPROGRAM Main\nVAR\n    y : INT;\nEND_VAR\ny := Inc(INT#1) + Dec(INT#2);\nEND_PROGRAM\n",
            "USING Lib;\nUSING Lib2;\nPROGRAM Main\nVAR\n    y : INT;\n    l : Level;\nEND_VAR\ny := Inc(INT#1);\ny := Dec(y);\nEND_PROGRAM\n",
            "PROGRAM Main\nVAR\n    y : INT;\nEND_VAR\ny := Inc(INT#1);\nEND_PROGRAM\n",
        ]),
    ]
}

fn theme_oop() -> Vec<Slot> {
    vec![
        slot(&[
            "INTERFACE IDevice\n    METHOD Start : BOOL\n    END_METHOD\nEND_INTERFACE\n",
            "INTERFACE IDevice\n    METHOD Start : BOOL\n    END_METHOD\n    METHOD Stop : BOOL\n    END_METHOD\nEND_INTERFACE\n",
            "INTERFACE IDevice\n    METHOD Start : INT\n    END_METHOD\n    PROPERTY Speed : INT\n        GET\n        END_GET\n    END_PROPERTY\nEND_INTERFACE\n",
            "INTERFACE IDevice EXTENDS IBase\n    METHOD Start : BOOL\n    END_METHOD\nEND_INTERFACE\n\nINTERFACE IBase\n    METHOD Reset : BOOL\n    END_METHOD\nEND_INTERFACE\n",
            "INTERFACE IOther\n    METHOD Start : BOOL\n    END_METHOD\nEND_INTERFACE\n",
        ]),
        slot(&[
            "FUNCTION_BLOCK FB_Base IMPLEMENTS IDevice\nVAR\n    running : BOOL;\nEND_VAR\nMETHOD PUBLIC Start : BOOL\n    running := TRUE;\n    Start := running;\nEND_METHOD\nEND_FUNCTION_BLOCK\n",
            "FUNCTION_BLOCK FB_Base IMPLEMENTS IDevice\nVAR\n    running : BOOL;\nEND_VAR\nMETHOD PUBLIC Start : BOOL\n    Start := TRUE;\nEND_METHOD\nMETHOD PUBLIC Stop : BOOL\n    running := FALSE;\n    Stop := TRUE;\nEND_METHOD\nEND_FUNCTION_BLOCK\n",
            "FUNCTION_BLOCK FINAL FB_Base\nVAR\n    running : BOOL;\nEND_VAR\nMETHOD PUBLIC Start : BOOL\n    Start := TRUE;\nEND_METHOD\nEND_FUNCTION_BLOCK\n",
            "FUNCTION_BLOCK ABSTRACT FB_Base IMPLEMENTS IDevice\nMETHOD PUBLIC ABSTRACT Start : BOOL\nEND_METHOD\nEND_FUNCTION_BLOCK\n",
            "CLASS FB_Base IMPLEMENTS IDevice\nMETHOD PUBLIC Start : BOOL\n    Start := TRUE;\nEND_METHOD\nEND_CLASS\n",
        ]),
        slot(&[
            "FUNCTION_BLOCK FB_Child EXTENDS FB_Base\nMETHOD PUBLIC OVERRIDE Start : BOOL\n    Start := FALSE;\nEND_METHOD\nEND_FUNCTION_BLOCK\n",
            "FUNCTION_BLOCK FB_Child EXTENDS FB_Base\nMETHOD PUBLIC Extra : INT\n    Extra := 1;\nEND_METHOD\nEND_FUNCTION_BLOCK\n",
            "FUNCTION_BLOCK FB_Child EXTENDS FB_Child\nEND_FUNCTION_BLOCK\n",
            "FUNCTION_BLOCK FB_Child EXTENDS FB_Missing\nMETHOD PUBLIC OVERRIDE Start : BOOL\n    Start := FALSE;\nEND_METHOD\nEND_FUNCTION_BLOCK\n",
        ]),
        slot(&[
            "PROGRAM Main\nVAR\n    dev : FB_Child;\n    ok : BOOL;\nEND_VAR\nok := dev.Start();\nEND_PROGRAM\n",
            "PROGRAM Main\nVAR\n    dev : FB_Base;\n    itf : IDevice;\n    ok : BOOL;\nEND_VAR\nitf := dev;\nok := itf.Start();\nEND_PROGRAM\n",
            "PROGRAM Main\nVAR\n    dev : FB_Child;\n    n : INT;\nEND_VAR\nn := dev.Extra();\nn := dev.Missing();\nEND_PROGRAM\n",
        ]),
    ]
}

/// Same global names defined in several files: the cross-file import is in file-id order, so
/// which definition a user sees depends on the relative id order of the defining files.
fn theme_dups() -> Vec<Slot> {
    vec![
        slot(&[
            "FUNCTION Conv : INT\nVAR_INPUT\n    x : INT;\nEND_VAR\nConv := x;\nEND_FUNCTION\n",
            "FUNCTION Conv : INT\nVAR_INPUT\n    x : INT;\nEND_VAR\nConv := x + 1;\nEND_FUNCTION\n\nTYPE\n    T_Val : INT;\nEND_TYPE\n",
        ]),
        slot(&[
            "FUNCTION Conv : BOOL\nVAR_INPUT\n    x : BOOL;\nEND_VAR\nConv := x;\nEND_FUNCTION\n",
            "FUNCTION Conv : BOOL\nVAR_INPUT\n    x : BOOL;\nEND_VAR\nConv := NOT x;\nEND_FUNCTION\n\nTYPE\n    T_Val : BOOL;\nEND_TYPE\n",
        ]),
        slot(&[
            "FUNCTION Conv : REAL\nVAR_INPUT\n    x : REAL;\n    y : REAL;\nEND_VAR\nConv := x + y;\nEND_FUNCTION\n",
            "TYPE\n    T_Val : REAL;\nEND_TYPE\n",
        ]),
        slot(&[
            "PROGRAM User\nVAR\n    a : INT;\nEND_VAR\na := Conv(a);\nEND_PROGRAM\n",
            "PROGRAM User\nVAR\n    b : BOOL;\n    v : T_Val;\nEND_VAR\nb := Conv(b);\nv := 1;\nEND_PROGRAM\n",
            "PROGRAM User\nVAR\n    a : INT;\n    v : T_Val;\nEND_VAR\na := Conv(1);\nv := TRUE;\nEND_PROGRAM\n",
        ]),
    ]
}

fn corpus_slots(dir: &str) -> Vec<Slot> {
    let mut slots = Vec::new();
    for sub in ["filling_line/src", "plant_demo/src"] {
        let path = format!("{dir}/{sub}");
        let Ok(rd) = std::fs::read_dir(&path) else {
            continue;
        };
        let mut names: Vec<_> = rd
            .filter_map(|e| e.ok())
            .map(|e| e.path())
            .filter(|p| p.extension().map(|e| e == "st").unwrap_or(false))
            .collect();
        names.sort();
        for p in names {
            if let Ok(text) = std::fs::read_to_string(&p) {
                slots.push(Slot {
                    variants: vec![text],
                });
            }
        }
    }
    slots
}

const SOUP: [&str; 40] = [
    "PROGRAM", "END_PROGRAM", "FUNCTION", "END_FUNCTION", "FUNCTION_BLOCK", "END_FUNCTION_BLOCK",
    "VAR", "END_VAR", "VAR_INPUT", "VAR_GLOBAL", "VAR_EXTERNAL", "TYPE", "END_TYPE", "STRUCT",
    "END_STRUCT", "NAMESPACE", "END_NAMESPACE", "USING", "IF", "THEN", "END_IF", "CASE", "OF",
    "INT", "BOOL", ":=", ":", ";", "(", ")", "x", "Main", "AddOne", "1", "16#FF", "T#1s", "+",
    ".", "#", "\n",
];

fn soup(rng: &mut Rng) -> String {
    let n = rng.below(30) as usize;
    let mut s = String::new();
    for _ in 0..n {
        s.push_str(*rng.pick(&SOUP[..]));
        s.push(if rng.chance(1, 6) { '\n' } else { ' ' });
    }
    if rng.chance(1, 4) {
        s.push_str("(* unterminated ");
    }
    if rng.chance(1, 4) {
        s.push_str("'é😀\u{0}");
    }
    s
}

/// Generic text mutations (applied on a char boundary).
fn mutate(rng: &mut Rng, text: &str) -> String {
    let lines: Vec<&str> = text.split_inclusive('\n').collect();
    match rng.below(8) {
        0 => {
            // truncate
            let mut cut = rng.below(text.len() as u64 + 1) as usize;
            while !text.is_char_boundary(cut) {
                cut -= 1;
            }
            text[..cut].to_string()
        }
        1 if !lines.is_empty() => {
            let k = rng.below(lines.len() as u64) as usize;
            lines
                .iter()
                .enumerate()
                .filter(|(i, _)| *i != k)
                .map(|(_, l)| *l)
                .collect()
        }
        2 if !lines.is_empty() => {
            let k = rng.below(lines.len() as u64) as usize;
            let mut v: Vec<&str> = lines.clone();
            v.insert(k, lines[k]);
            v.concat()
        }
        3 => format!("{text}\n(* edit {} *)\n", rng.below(4)),
        4 => format!("\n  {text}"),
        5 => text.replace("INT", "DINT"),
        6 => text.replacen(";", " ", 1),
        _ => {
            let mut cut = rng.below(text.len() as u64 + 1) as usize;
            while !text.is_char_boundary(cut) {
                cut -= 1;
            }
            format!("{}{}{}", &text[..cut], *rng.pick(&SOUP[..]), &text[cut..])
        }
    }
}

/// The texts available to one case: per file a slot, plus foreign slots for cross-pollination.
pub struct Pool {
    pub slots: Vec<Slot>,
    pub theme: &'static str,
}

pub fn pick_pool(rng: &mut Rng, corpus: &[Slot]) -> Pool {
    let themes: [(&'static str, fn() -> Vec<Slot>); 6] = [
        ("func", theme_func),
        ("types", theme_types),
        ("globals", theme_globals),
        ("ns", theme_ns),
        ("oop", theme_oop),
        ("dups", theme_dups),
    ];
    let r = rng.below(16);
    if r < 12 {
        let (name, f) = themes[(r % 6) as usize];
        let mut slots = f();
        if rng.chance(1, 3) {
            // widen with a second theme (up to five files in total)
            let (_, g) = themes[rng.below(6) as usize];
            for s in g() {
                if slots.len() < 5 {
                    slots.push(s);
                }
            }
        }
        Pool { slots, theme: name }
    } else if r < 14 && corpus.len() >= 2 {
        // a real example project (or a part of it)
        let start = rng.below(corpus.len() as u64) as usize;
        let n = 2 + rng.below(4) as usize;
        let slots = (0..n)
            .map(|i| Slot {
                variants: corpus[(start + i) % corpus.len()].variants.clone(),
            })
            .collect();
        Pool {
            slots,
            theme: "corpus",
        }
    } else {
        // mixed bag incl. garbage
        let mut slots = Vec::new();
        for _ in 0..(1 + rng.below(5)) {
            let (_, f) = themes[rng.below(6) as usize];
            let mut ss = f();
            let k = rng.below(ss.len() as u64) as usize;
            slots.push(ss.swap_remove(k));
        }
        Pool {
            slots,
            theme: "mixed",
        }
    }
}

/// A new text for the file that plays `slot` and currently holds `cur`.
fn next_text(rng: &mut Rng, pool: &Pool, slot: usize, cur: Option<&str>, out: &mut Out) -> String {
    let s = &pool.slots[slot % pool.slots.len()];
    let r = rng.below(100);
    if r < 50 {
        out.count("text_variant");
        rng.pick(&s.variants).clone()
    } else if r < 68 {
        out.count("text_mutated");
        let base = cur
            .map(|c| c.to_string())
            .unwrap_or_else(|| rng.pick(&s.variants).clone());
        mutate(rng, &base)
    } else if r < 78 {
        out.count("text_foreign_slot");
        let other = &pool.slots[rng.below(pool.slots.len() as u64) as usize];
        rng.pick(&other.variants).clone()
    } else if r < 86 {
        out.count("text_identical");
        cur.map(|c| c.to_string())
            .unwrap_or_else(|| rng.pick(&s.variants).clone())
    } else if r < 91 {
        out.count("text_empty");
        if rng.bool() {
            String::new()
        } else {
            " \n\t\n".into()
        }
    } else if r < 95 {
        out.count("text_soup");
        soup(rng)
    } else {
        out.count("text_variant");
        s.variants[0].clone()
    }
}

// ------------------------------------------------------------------------------------------------
// Text table of a case
// ------------------------------------------------------------------------------------------------

#[derive(Default)]
pub struct Texts {
    list: Vec<String>,
    index: HashMap<String, usize>,
}

impl Texts {
    fn intern(&mut self, s: &str, out: &mut Out) -> usize {
        if let Some(i) = self.index.get(s) {
            return *i;
        }
        let i = self.list.len();
        self.list.push(s.to_string());
        self.index.insert(s.to_string(), i);
        out.line(format!("text {i} {}", hex(s.as_bytes())));
        i
    }
    fn name(&self, s: &str) -> String {
        match self.index.get(s) {
            Some(i) => i.to_string(),
            None => format!("?{}", hex(s.as_bytes())),
        }
    }
}

fn render_list(v: &[(u32, String)], texts: &Texts) -> String {
    if v.is_empty() {
        return "-".into();
    }
    v.iter()
        .map(|(id, t)| format!("{id}:{}", texts.name(t)))
        .collect::<Vec<_>>()
        .join(",")
}

/// The `impl` line: what the `verif_views()` hook shows.
fn render_view(db: &Database, texts: &Texts) -> String {
    let (src, salsa, proj, rev, synced) = db.verif_views();
    let proj = match proj {
        None => "none".to_string(),
        Some(p) => render_list(&p, texts),
    };
    format!(
        "src={} salsa={} proj={} dirty={}",
        render_list(&src, texts),
        render_list(&salsa, texts),
        proj,
        u8::from(rev != synced)
    )
}

/// What the query read, as far as the hook shows it: `P` (project-keyed query on a file salsa
/// knows), `F:<k>` (per-file query: the text behind the file's input), `D` (unknown file).
fn render_reads(db: &Database, texts: &Texts, kind: Kind, file: u32) -> String {
    let (_, salsa, _, _, _) = db.verif_views();
    match salsa.iter().find(|(id, _)| *id == file) {
        None => "D".into(),
        Some((_, t)) => match kind {
            Kind::Analyze | Kind::Diagnostics | Kind::TypeOf => "P".into(),
            Kind::FileSymbols | Kind::ExprIdAt => format!("F:{}", texts.name(t)),
        },
    }
}

// ------------------------------------------------------------------------------------------------
// The differential oracle (the property's own statement, evaluated on the implementation)
// ------------------------------------------------------------------------------------------------

fn fresh_db(rng: &mut Rng, finals: &BTreeMap<u32, String>) -> Database {
    let mut order: Vec<(&u32, &String)> = finals.iter().collect();
    match rng.below(3) {
        0 => {}
        1 => order.reverse(),
        _ => {
            for i in (1..order.len()).rev() {
                let j = rng.below(i as u64 + 1) as usize;
                order.swap(i, j);
            }
        }
    }
    let mut db = Database::new();
    for (id, text) in order {
        db.set_source_text(FileId(*id), text.clone());
    }
    db
}

struct Verdict {
    fresh: bool,
    repeat: bool,
    panic: bool,
    hash: u64,
    size: usize,
    detail: Option<(String, String)>,
}

/// Asks the database under test (twice) and a fresh database; all under `catch_unwind`.
fn judge(
    db: &Database,
    fresh: &Database,
    kind: Kind,
    file: u32,
    arg: u32,
    ren_inc: &dyn Fn(u32) -> String,
    ren_fresh: &dyn Fn(u32) -> String,
    fresh_file: u32,
    structural: bool,
) -> Verdict {
    let r = catch_unwind(AssertUnwindSafe(|| {
        let a1 = ask(db, kind, FileId(file), arg, !structural);
        let a2 = ask(db, kind, FileId(file), arg, !structural);
        let af = ask(fresh, kind, FileId(fresh_file), arg, !structural);
        (a1, a2, af)
    }));
    match r {
        Err(_) => Verdict {
            fresh: false,
            repeat: false,
            panic: true,
            hash: 0,
            size: 0,
            detail: Some((take_panic(), String::new())),
        },
        Ok((a1, a2, af)) => {
            let (d1, df) = if structural {
                (a1.dump(ren_inc), af.dump(ren_fresh))
            } else {
                (a1.dump_visible(ren_inc), af.dump_visible(ren_fresh))
            };
            // at the Database layer: structural equality of the real values AND of the dumps;
            // at the Project layer ids are renamed, so only the dumps can be compared
            let fresh_ok = d1 == df && (!structural || a1 == af);
            let d2 = if structural { a2.dump(ren_inc) } else { a2.dump_visible(ren_inc) };
            let repeat_ok = a1 == a2 && d1 == d2;
            Verdict {
                fresh: fresh_ok,
                repeat: repeat_ok,
                panic: false,
                hash: fnv(&d1),
                size: a1.size(),
                detail: if fresh_ok { None } else { Some((d1, df)) },
            }
        }
    }
}

// ------------------------------------------------------------------------------------------------
// Stream `db`
// ------------------------------------------------------------------------------------------------

const ID_POOL: [u32; 10] = [0, 1, 2, 3, 4, 5, 7, 10, 11, 4_294_967_295];

fn pick_arg(rng: &mut Rng, kind: Kind, text: Option<&str>, db: &Database, file: u32) -> u32 {
    match kind {
        Kind::TypeOf => {
            // mostly an id the implementation itself hands out, sometimes an arbitrary one
            if rng.chance(3, 4) {
                if let Some(t) = text {
                    if !t.is_empty() {
                        let off = rng.below(t.len() as u64) as u32;
                        if let Ok(Some(id)) = catch_unwind(AssertUnwindSafe(|| {
                            db.expr_id_at_offset(FileId(file), off)
                        })) {
                            return id;
                        }
                    }
                }
            }
            *rng.pick(&[0u32, 1, 2, 3, 5, 8, 13, 40, 4_294_967_295])
        }
        Kind::ExprIdAt => match text {
            Some(t) if !t.is_empty() && rng.chance(7, 8) => rng.below(t.len() as u64 + 2) as u32,
            _ => *rng.pick(&[0u32, 1, 17, 4_294_967_295]),
        },
        _ => 0,
    }
}

fn run_db_case(n: u64, rng: &mut Rng, steps: usize, corpus: &[Slot], out: &mut Out) {
    let pool = pick_pool(rng, corpus);
    out.count(&format!("theme_{}", pool.theme));
    let nfiles = pool.slots.len().min(5).max(1);
    // distinct file ids in random relative order
    let mut ids: Vec<u32> = Vec::new();
    while ids.len() < nfiles {
        let id = *rng.pick(&ID_POOL);
        if !ids.contains(&id) {
            ids.push(id);
        }
    }
    let ghost = loop {
        let id = *rng.pick(&ID_POOL);
        if !ids.contains(&id) {
            break id;
        }
    };
    out.line(format!("case {n}"));
    out.line("stream db");
    let mut texts = Texts::default();
    let mut db = Database::new();
    let mut finals: BTreeMap<u32, String> = BTreeMap::new();
    let mut ever_removed = false;
    let mut readded = false;
    let mut removed_once: Vec<u32> = Vec::new();
    let mut queried_before_edit = false;
    let mut edits_after_query = 0u32;
    let mut burst_fresh: Option<Database> = None;
    let mut aborted = false;
    // an initial load of some of the files, so that most histories start from a project
    let preload = if rng.chance(3, 4) { rng.below(nfiles as u64 + 1) as usize } else { 0 };
    let mut script: Vec<u8> = vec![0; preload]; // 0 = set, 1 = rm, 2 = query
    while script.len() < steps {
        let r = rng.below(100);
        script.push(if r < 42 { 0 } else if r < 53 { 1 } else { 2 });
    }
    if let Some(last) = script.last_mut() {
        *last = 2; // every history ends with a sweep over all files and kinds
    }
    let total = script.len();
    for (step, op) in script.into_iter().enumerate() {
        let sweep = step + 1 == total;
        match op {
            0 => {
                let k = if step < preload { step } else { rng.below(nfiles as u64) as usize };
                let id = if rng.chance(1, 40) { ghost } else { ids[k] };
                let text = next_text(rng, &pool, k, finals.get(&id).map(|s| s.as_str()), out);
                let ti = texts.intern(&text, out);
                out.line(format!("set {id} {ti}"));
                if finals.get(&id) == Some(&text) {
                    out.count("op_set_identical");
                } else if finals.contains_key(&id) {
                    out.count("op_set_edit");
                } else if removed_once.contains(&id) {
                    out.count("op_set_readd");
                    readded = true;
                } else {
                    out.count("op_set_new");
                }
                if queried_before_edit {
                    edits_after_query += 1;
                }
                let r = catch_unwind(AssertUnwindSafe(|| db.set_source_text(FileId(id), text.clone())));
                finals.insert(id, text);
                burst_fresh = None;
                if r.is_err() {
                    out.line("impl panic");
                    out.line(format!("#o set {id} 0 fresh=1 repeat=1 panic=1 h=0"));
                    out.line(format!("#x panic {}", hex(take_panic().as_bytes())));
                    aborted = true;
                    break;
                }
                out.line(format!("impl {}", render_view(&db, &texts)));
            }
            1 => {
                let present: Vec<u32> = finals.keys().copied().collect();
                let r = rng.below(100);
                let id = if r < 75 && !present.is_empty() {
                    *rng.pick(&present)
                } else if r < 90 {
                    ids[rng.below(nfiles as u64) as usize]
                } else {
                    ghost
                };
                out.line(format!("rm {id}"));
                if finals.remove(&id).is_some() {
                    out.count("op_rm_present");
                    ever_removed = true;
                    if !removed_once.contains(&id) {
                        removed_once.push(id);
                    }
                } else {
                    out.count("op_rm_absent");
                }
                if queried_before_edit {
                    edits_after_query += 1;
                }
                let r = catch_unwind(AssertUnwindSafe(|| db.remove_source_text(FileId(id))));
                burst_fresh = None;
                if r.is_err() {
                    out.line("impl panic");
                    out.line(format!("#o rm {id} 0 fresh=1 repeat=1 panic=1 h=0"));
                    out.line(format!("#x panic {}", hex(take_panic().as_bytes())));
                    aborted = true;
                    break;
                }
                out.line(format!("impl {}", render_view(&db, &texts)));
            }
            _ => {
                // one query, or (last step) a sweep over every file, an absent file and every kind
                let mut qs: Vec<(Kind, u32, u32)> = Vec::new();
                if sweep {
                    let mut files: Vec<u32> = ids.clone();
                    files.push(ghost);
                    for f in files {
                        for kind in KINDS {
                            let reps = if matches!(kind, Kind::TypeOf | Kind::ExprIdAt) { 4 } else { 1 };
                            for _ in 0..reps {
                                let arg = pick_arg(rng, kind, finals.get(&f).map(|s| s.as_str()), &db, f);
                                qs.push((kind, f, arg));
                            }
                        }
                    }
                    // random order: which query is memoised first must not matter
                    for i in (1..qs.len()).rev() {
                        let j = rng.below(i as u64 + 1) as usize;
                        qs.swap(i, j);
                    }
                } else {
                    // a burst of 1..3 queries: which of them is memoised first varies
                    for _ in 0..(1 + rng.below(3)) {
                        let kind = *rng.pick(&KINDS);
                        let present: Vec<u32> = finals.keys().copied().collect();
                        let r = rng.below(100);
                        let f = if r < 80 && !present.is_empty() {
                            *rng.pick(&present)
                        } else if r < 92 {
                            ids[rng.below(nfiles as u64) as usize]
                        } else {
                            ghost
                        };
                        let arg = pick_arg(rng, kind, finals.get(&f).map(|s| s.as_str()), &db, f);
                        qs.push((kind, f, arg));
                    }
                }
                for (kind, f, arg) in qs {
                    out.line(format!("q {} {f} {arg}", kind.name()));
                    out.count(&format!("q_{}", kind.name()));
                    if finals.contains_key(&f) {
                        out.count("q_on_present_file");
                    } else if removed_once.contains(&f) {
                        out.count("q_on_removed_file");
                    } else {
                        out.count("q_on_unknown_file");
                    }
                    // strict: a brand-new database for this very query (1 in 3), otherwise the
                    // fresh database of the current burst of queries (no edit in between)
                    if burst_fresh.is_none() || rng.chance(1, 3) {
                        match catch_unwind(AssertUnwindSafe(|| fresh_db(rng, &finals))) {
                            Ok(f) => burst_fresh = Some(f),
                            Err(_) => {
                                out.line("impl panic");
                                out.line(format!("#o {} {f} {arg} fresh=1 repeat=1 panic=1 h=0", kind.name()));
                                out.line(format!("#x panic {}", hex(take_panic().as_bytes())));
                                aborted = true;
                                break;
                            }
                        }
                        out.count("fresh_databases");
                    }
                    let fresh = burst_fresh.as_ref().expect("fresh");
                    let v = judge(&db, fresh, kind, f, arg, &ident, &ident, f, true);
                    if v.panic {
                        out.line("impl panic");
                    } else {
                        out.line(format!(
                            "impl {} reads={}",
                            render_view(&db, &texts),
                            render_reads(&db, &texts, kind, f)
                        ));
                    }
                    out.line(format!(
                        "#o {} {f} {arg} fresh={} repeat={} panic={} h={:016x}",
                        kind.name(),
                        u8::from(v.fresh),
                        u8::from(v.repeat),
                        u8::from(v.panic),
                        v.hash
                    ));
                    if let Some((a, b)) = v.detail {
                        if v.panic {
                            out.line(format!("#x panic {}", hex(a.as_bytes())));
                        } else {
                            out.line(format!("#x inc {}", hex(a.as_bytes())));
                            out.line(format!("#x fresh {}", hex(b.as_bytes())));
                        }
                    }
                    if v.size > 0 {
                        out.count("q_nonempty_answer");
                        if kind == Kind::TypeOf {
                            out.count("q_typeof_known_type");
                        }
                    }
                    out.count(&format!("files_at_query_{}", finals.len()));
                    if v.panic {
                        aborted = true;
                        break;
                    }
                    queried_before_edit = true;
                }
                if aborted {
                    break;
                }
            }
        }
    }
    if aborted {
        out.count("cases_aborted_by_panic");
    }
    // rule: a query was memoised before a later edit, and a file was removed (and ideally re-added)
    if edits_after_query >= 1 && ever_removed && finals.len() >= 1 {
        out.line("tag nontrivial");
    }
    if readded {
        out.line("tag readd");
    }
    out.line("end");
}

// ------------------------------------------------------------------------------------------------
// Stream `proj` (layer note; reported, not folded into the claim)
// ------------------------------------------------------------------------------------------------

fn key_of(k: usize) -> SourceKey {
    SourceKey::from_virtual(format!("mem:///k{k}.st"))
}

fn key_index(key: &SourceKey) -> Option<usize> {
    let s = key.display();
    s.strip_prefix("mem:///k")?.strip_suffix(".st")?.parse().ok()
}

fn project_ids(p: &Project) -> Vec<(usize, u32)> {
    let mut v: Vec<(usize, u32)> = p
        .sources()
        .iter()
        .filter_map(|(k, id)| key_index(k).map(|i| (i, id.0)))
        .collect();
    v.sort();
    v
}

fn fresh_project(order: &[usize], finals: &BTreeMap<usize, String>) -> Project {
    let mut p = Project::new();
    for k in order {
        if let Some(t) = finals.get(k) {
            p.set_source_text(key_of(*k), t.clone());
        }
    }
    p
}

#[derive(Clone)]
enum POp {
    Set(usize, String),
    Rm(usize),
    Q(Kind, usize, Option<u32>),
}

/// The recorded witness of the Project-layer finding (known_findings.json, `C13-project-readd-id-order`):
/// two files define `Conv` with different signatures, a third uses it; removing and re-adding the
/// first file moves it behind the second in file-id order, so the user now sees the other `Conv`.
fn witness_script() -> Vec<POp> {
    let a = "FUNCTION Conv : INT\nVAR_INPUT\n    x : INT;\nEND_VAR\nConv := x;\nEND_FUNCTION\n";
    let b = "FUNCTION Conv : BOOL\nVAR_INPUT\n    x : BOOL;\nEND_VAR\nConv := x;\nEND_FUNCTION\n";
    let c = "PROGRAM User\nVAR\n    a : INT;\nEND_VAR\na := Conv(a);\nEND_PROGRAM\n";
    vec![
        POp::Set(0, a.into()),
        POp::Set(1, b.into()),
        POp::Set(2, c.into()),
        POp::Q(Kind::Diagnostics, 2, Some(0)),
        POp::Rm(0),
        POp::Set(0, a.into()),
        POp::Q(Kind::Diagnostics, 2, Some(0)),
    ]
}

fn run_proj_case(
    n: u64,
    rng: &mut Rng,
    steps: usize,
    corpus: &[Slot],
    out: &mut Out,
    forced: Option<Vec<POp>>,
) {
    // duplicate global names across files half of the time: that is where id order can matter
    let pool = if forced.is_some() || rng.bool() {
        Pool {
            slots: theme_dups(),
            theme: "dups",
        }
    } else {
        pick_pool(rng, corpus)
    };
    if forced.is_none() {
        out.count(&format!("proj_theme_{}", pool.theme));
    }
    let nkeys = pool.slots.len().min(5).max(1);
    out.line(format!("case {n}"));
    out.line("stream proj");
    if forced.is_some() {
        out.line("tag witness");
    }
    let mut texts = Texts::default();
    let mut proj = Project::new();
    let mut finals: BTreeMap<usize, String> = BTreeMap::new();
    let mut readded = false;
    let mut removed: Vec<usize> = Vec::new();
    let mut aborted = false;
    let steps = forced.as_ref().map(|f| f.len()).unwrap_or(steps);
    for step in 0..steps {
        let op = match &forced {
            Some(f) => f[step].clone(),
            None => {
                let r = rng.below(100);
                if step < nkeys && r < 80 || r < 35 {
                    let k = if step < nkeys { step } else { rng.below(nkeys as u64) as usize };
                    POp::Set(k, next_text(rng, &pool, k, finals.get(&k).map(|s| s.as_str()), out))
                } else if r < 55 {
                    POp::Rm(rng.below(nkeys as u64 + 1) as usize) // nkeys = a key never added
                } else {
                    POp::Q(*rng.pick(&KINDS), rng.below(nkeys as u64) as usize, None)
                }
            }
        };
        match op {
            POp::Set(k, text) => {
                let ti = texts.intern(&text, out);
                out.line(format!("pset {k} {ti}"));
                if !finals.contains_key(&k) && removed.contains(&k) {
                    readded = true;
                    out.count("proj_readd");
                }
                let r = catch_unwind(AssertUnwindSafe(|| {
                    proj.set_source_text(key_of(k), text.clone());
                }));
                finals.insert(k, text);
                if r.is_err() {
                    out.line("impl panic");
                    out.line(format!("#p set {k} 0 same_order=1 key_order=1 repeat=1 panic=1 order_differs=0"));
                    out.line(format!("#x panic {}", hex(take_panic().as_bytes())));
                    aborted = true;
                    break;
                }
            }
            POp::Rm(k) => {
                out.line(format!("prm {k}"));
                if finals.remove(&k).is_some() && !removed.contains(&k) {
                    removed.push(k);
                }
                let r = catch_unwind(AssertUnwindSafe(|| {
                    proj.remove_source(&key_of(k));
                }));
                if r.is_err() {
                    out.line("impl panic");
                    out.line(format!("#p rm {k} 0 same_order=1 key_order=1 repeat=1 panic=1 order_differs=0"));
                    out.line(format!("#x panic {}", hex(take_panic().as_bytes())));
                    aborted = true;
                    break;
                }
            }
            POp::Q(kind, k, arg) => {
                let Some(fid) = proj.file_id_for_key(&key_of(k)) else {
                    out.line(format!("pq {} {k} 0", kind.name()));
                    out.line(format!(
                        "impl nokey ids={} {}",
                        render_ids(&project_ids(&proj)),
                        render_view(proj.database(), &texts)
                    ));
                    continue;
                };
                let arg = arg.unwrap_or_else(|| {
                    pick_arg(rng, kind, finals.get(&k).map(|s| s.as_str()), proj.database(), fid.0)
                });
                out.line(format!("pq {} {k} {arg}", kind.name()));
                // (a) fresh project loaded in the order that reproduces the relative id order,
                // (b) fresh project loaded in key order
                let ids = project_ids(&proj);
                let mut by_id: Vec<(u32, usize)> = ids.iter().map(|(k, id)| (*id, *k)).collect();
                by_id.sort();
                let same_order: Vec<usize> = by_id.iter().map(|(_, k)| *k).collect();
                let key_order: Vec<usize> = finals.keys().copied().collect();
                let verdicts = catch_unwind(AssertUnwindSafe(|| {
                    let fa = fresh_project(&same_order, &finals);
                    let fb = fresh_project(&key_order, &finals);
                    let ren = |p: &Project| {
                        let m: HashMap<u32, usize> =
                            project_ids(p).into_iter().map(|(k, id)| (id, k)).collect();
                        move |id: u32| match m.get(&id) {
                            Some(k) => format!("k{k}"),
                            None => format!("?{id}"),
                        }
                    };
                    let ri = ren(&proj);
                    let ra = ren(&fa);
                    let rb = ren(&fb);
                    let ida = fa.file_id_for_key(&key_of(k)).map(|f| f.0).unwrap_or(u32::MAX);
                    let idb = fb.file_id_for_key(&key_of(k)).map(|f| f.0).unwrap_or(u32::MAX);
                    let va = judge(proj.database(), fa.database(), kind, fid.0, arg, &ri, &ra, ida, false);
                    let vb = judge(proj.database(), fb.database(), kind, fid.0, arg, &ri, &rb, idb, false);
                    (va, vb)
                }));
                match verdicts {
                    Err(_) => {
                        out.line("impl panic");
                        out.line(format!(
                            "#p {} {k} {arg} same_order=1 key_order=1 repeat=1 panic=1 order_differs=0",
                            kind.name()
                        ));
                        out.line(format!("#x panic {}", hex(take_panic().as_bytes())));
                        aborted = true;
                        break;
                    }
                    Ok((va, vb)) => {
                        out.line(format!(
                            "impl ids={} {} reads={}",
                            render_ids(&project_ids(&proj)),
                            render_view(proj.database(), &texts),
                            render_reads(proj.database(), &texts, kind, fid.0)
                        ));
                        let order_differs = same_order != key_order;
                        out.line(format!(
                            "#p {} {k} {arg} same_order={} key_order={} repeat={} panic={} order_differs={}",
                            kind.name(),
                            u8::from(va.fresh),
                            u8::from(vb.fresh),
                            u8::from(va.repeat),
                            u8::from(va.panic || vb.panic),
                            u8::from(order_differs)
                        ));
                        out.count("proj_queries");
                        if va.panic || vb.panic {
                            out.line(format!("#x panic {}", hex(take_panic().as_bytes())));
                        }
                        if !va.fresh && !va.panic {
                            out.count("proj_differs_from_fresh_same_order");
                            if let Some((a, b)) = va.detail {
                                out.line(format!("#x inc {}", hex(a.as_bytes())));
                                out.line(format!("#x fresh_same_order {}", hex(b.as_bytes())));
                            }
                        }
                        if !vb.fresh && !vb.panic {
                            out.count("proj_differs_from_fresh_key_order");
                            if let Some((a, b)) = vb.detail {
                                out.line(format!("#x inc {}", hex(a.as_bytes())));
                                out.line(format!("#x fresh_key_order {}", hex(b.as_bytes())));
                            }
                        }
                        if order_differs {
                            out.count("proj_queries_with_permuted_ids");
                        }
                        if va.panic || vb.panic {
                            aborted = true;
                            break;
                        }
                    }
                }
                continue;
            }
        }
        out.line(format!(
            "impl ids={} {}",
            render_ids(&project_ids(&proj)),
            render_view(proj.database(), &texts)
        ));
    }
    if aborted {
        out.count("cases_aborted_by_panic");
    }
    if readded {
        out.line("tag nontrivial");
        out.line("tag readd");
    }
    out.line("end");
}

fn render_ids(ids: &[(usize, u32)]) -> String {
    if ids.is_empty() {
        return "-".into();
    }
    ids.iter()
        .map(|(k, id)| format!("{k}:{id}"))
        .collect::<Vec<_>>()
        .join(",")
}

// ------------------------------------------------------------------------------------------------

/// `--freshq <file>`: answer ONE query in this (brand-new) process on a brand-new database.
/// File: first line `<kind> <fid> <arg>`, then one line `<fid> <hex text>` per file.  Prints
/// `h=<hash of the canonical dump>` (or `panic`).  Used by checks/c13.py to compare sampled answers
/// of the long-running harness process with a process that has no history at all (so that state
/// outside the `Database` object, which an in-process fresh database would share, is seen too).
fn run_freshq(path: &str) -> i32 {
    let Ok(text) = std::fs::read_to_string(path) else {
        eprintln!("cannot read {path}");
        return 2;
    };
    let mut lines = text.lines();
    let head: Vec<&str> = lines.next().unwrap_or("").split_whitespace().collect();
    if head.len() != 3 {
        eprintln!("bad request head");
        return 2;
    }
    let Some(kind) = KINDS.iter().copied().find(|k| k.name() == head[0]) else {
        eprintln!("bad kind");
        return 2;
    };
    let (Ok(fid), Ok(arg)) = (head[1].parse::<u32>(), head[2].parse::<u32>()) else {
        eprintln!("bad numbers");
        return 2;
    };
    let mut db = Database::new();
    for l in lines {
        let w: Vec<&str> = l.split_whitespace().collect();
        if w.len() != 2 {
            continue;
        }
        let Ok(id) = w[0].parse::<u32>() else {
            return 2;
        };
        let Ok(t) = String::from_utf8(crate::util::unhex(w[1])) else {
            return 2;
        };
        db.set_source_text(FileId(id), t);
    }
    match catch_unwind(AssertUnwindSafe(|| ask(&db, kind, FileId(fid), arg, false).dump(&ident))) {
        Ok(d) => println!("h={:016x}", fnv(&d)),
        Err(_) => println!("panic"),
    }
    0
}

pub fn run(args: &Args) -> i32 {
    if let Some(path) = args.extra.get("freshq") {
        return run_freshq(path);
    }
    let mut out = Out::new();
    let steps = args.extra_usize("steps", 25);
    let proj_every = args.extra_usize("projevery", 5).max(2) as u64;
    let corpus_dir = args
        .extra
        .get("corpus")
        .cloned()
        .unwrap_or_else(|| "/repo/examples".to_string());
    let corpus = corpus_slots(&corpus_dir);
    out.add("corpus_files", corpus.len() as u64);
    // panics are observables here; keep stderr quiet but remember the last message
    std::panic::set_hook(Box::new(|info| {
        let mut g = LAST_PANIC.lock().unwrap_or_else(|e| e.into_inner());
        *g = info.to_string();
    }));
    for n in args.case_numbers() {
        let mut rng = Rng::for_case(args.seed, n);
        if n % proj_every == proj_every - 1 {
            run_proj_case(n, &mut rng, steps, &corpus, &mut out, None);
            out.count("cases_proj");
        } else {
            run_db_case(n, &mut rng, steps, &corpus, &mut out);
            out.count("cases_db");
        }
        out.count("cases");
    }
    // the recorded witness of the Project-layer finding runs last (case number = `--cases`)
    if args.only.is_none() || args.only == Some(args.cases) {
        let mut rng = Rng::for_case(args.seed, args.cases);
        run_proj_case(args.cases, &mut rng, 0, &corpus, &mut out, Some(witness_script()));
        out.count("cases_witness");
    }
    let _ = std::panic::take_hook();
    out.finish(&args.out);
    0
}
