//! C13 — incremental analysis equals from-scratch analysis after any edit history.
//!
//! Two streams of cases:
//!
//! * `stream db` (the claim): a generated history of `set / rm / q` operations over 1..5 files with
//!   cross-file references is applied to a real `trust_hir::Database`.  After **every** operation
//!   the `verif_views()` hook (the three file-set views + both revision counters) is written as the
//!   `impl` line and compared with the Lean model of the `Database` bookkeeping.  Every query is
//!   additionally judged by the property's own differential oracle, evaluated on the
//!   implementation (`#o` lines, read by `checks/c13.py`): the answer must equal the answer of a
//!   brand-new `Database` loaded with the final texts (tracked by the harness itself, not read back
//!   from the database under test), a repeated query must return the same answer, and nothing may
//!   panic (`catch_unwind`).
//! * `stream proj` (layer note of DESIGN.md, reported separately): the same kind of history one
//!   level up, through `trust_hir::Project` (files identified by key; a re-added key gets a new
//!   `FileId`).  The key→id table and the views are compared with the Lean model of the registry;
//!   `#p` lines record whether the answers (with file ids renamed to keys) equal those of a fresh
//!   `Project` loaded (a) in an order that reproduces the same relative id order, (b) in key order.
//!
//! The Database/Project cases run in a WORKER process (`supervise`): the worker hands every operation
//! line to the supervising process before it runs the operation, so an operation that kills the
//! process (unbounded recursion ends in a stack overflow = abort, which `catch_unwind` cannot see)
//! or hangs it is recorded as `impl abort` + `#o/#p … panic=1` + `#x panic process died …`, and the
//! run continues with the next case in a new worker (`--inproc 1`: everything in one process).
//!
//! Round-3 generator additions: themes `inherit` (bases / derived / interfaces / users in different
//! files, variants that differ only in the name after EXTENDS / IMPLEMENTS, same length) and
//! `rectypes` (types reaching themselves through REF_TO / POINTER TO / ARRAY OF / alias, within one
//! file and across two), edits that move nothing (`swap_ident`, `same_shape_variants`, `DOp::SetSwap`).
//!
//! Protocol (one case):
//!   case <n> / stream db|proj / text <k> <hex> / set <fid> <k> / rm <fid> / q <kind> <fid> <arg>
//!   pset <key> <k> / prm <key> / pq <kind> <key> <arg> / impl … / #o … / #p … / tag … / end

use crate::rng::Rng;
use crate::util::{hex, Out};
use crate::Args;
use std::collections::{BTreeMap, HashMap};
use std::fmt::Write as _;
use std::panic::{catch_unwind, AssertUnwindSafe};
use std::sync::Arc;
use trust_hir::db::{Database, FileId, SemanticDatabase, SourceDatabase};
use trust_hir::diagnostics::Diagnostic;
use trust_hir::symbols::SymbolTable;
use trust_hir::TypeId;
use trust_hir::{Project, SourceKey};

#[path = "c13/lsp.rs"]
mod lsp_layer;

// ------------------------------------------------------------------------------------------------
// Answers and their canonical form
// ------------------------------------------------------------------------------------------------

#[derive(Clone, Copy, Debug, PartialEq, Eq)]
pub enum Kind {
    Analyze,
    Diagnostics,
    FileSymbols,
    TypeOf,
    ExprIdAt,
}

pub const KINDS: [Kind; 5] = [
    Kind::Analyze,
    Kind::Diagnostics,
    Kind::FileSymbols,
    Kind::TypeOf,
    Kind::ExprIdAt,
];

impl Kind {
    pub fn name(self) -> &'static str {
        match self {
            Kind::Analyze => "analyze",
            Kind::Diagnostics => "diagnostics",
            Kind::FileSymbols => "fsyms",
            Kind::TypeOf => "typeof",
            Kind::ExprIdAt => "exprat",
        }
    }
}

/// One answer of the database.  Equality is the structural `PartialEq` of the real types.
#[derive(Clone, PartialEq)]
pub enum Ans {
    Analysis(Arc<SymbolTable>, Arc<Vec<Diagnostic>>),
    Diags(Arc<Vec<Diagnostic>>),
    Syms(Arc<SymbolTable>),
    /// the type id and, for the id-insensitive form, its rendering through the file's own table
    Ty(TypeId, Option<String>),
    Expr(Option<u32>),
}

/// Id-insensitive rendering of a type (type ids are numbered in import order).
fn type_str(t: &SymbolTable, id: TypeId, depth: u32) -> String {
    use trust_hir::Type;
    if let Some(n) = id.builtin_name() {
        return n.to_string();
    }
    if depth > 6 {
        return "…".into();
    }
    match t.type_by_id(id) {
        None => format!("?{}", id.0),
        Some(ty) => match ty {
            Type::Array { element, dimensions } => {
                format!("ARRAY{dimensions:?} OF {}", type_str(t, *element, depth + 1))
            }
            Type::Struct { name, fields } => format!(
                "STRUCT {name} {{{}}}",
                fields
                    .iter()
                    .map(|f| format!("{}:{}", f.name, type_str(t, f.type_id, depth + 1)))
                    .collect::<Vec<_>>()
                    .join(",")
            ),
            Type::Union { name, variants } => format!(
                "UNION {name} {{{}}}",
                variants
                    .iter()
                    .map(|f| format!("{}:{}", f.name, type_str(t, f.type_id, depth + 1)))
                    .collect::<Vec<_>>()
                    .join(",")
            ),
            Type::Enum { name, base, values } => {
                format!("ENUM {name} {} {values:?}", type_str(t, *base, depth + 1))
            }
            Type::Pointer { target } => format!("POINTER TO {}", type_str(t, *target, depth + 1)),
            Type::Reference { target } => format!("REF_TO {}", type_str(t, *target, depth + 1)),
            Type::Subrange { base, lower, upper } => {
                format!("{}({lower}..{upper})", type_str(t, *base, depth + 1))
            }
            Type::Alias { name, target } => {
                format!("ALIAS {name} = {}", type_str(t, *target, depth + 1))
            }
            other => format!("{other:?}"),
        },
    }
}

pub fn ask(db: &Database, kind: Kind, file: FileId, arg: u32, visible: bool) -> Ans {
    match kind {
        Kind::Analyze => {
            let a = db.analyze(file);
            Ans::Analysis(a.symbols.clone(), a.diagnostics.clone())
        }
        Kind::Diagnostics => Ans::Diags(db.diagnostics(file)),
        Kind::FileSymbols => Ans::Syms(db.file_symbols(file)),
        Kind::TypeOf => {
            let ty = db.type_of(file, arg);
            let name = visible.then(|| type_str(&db.analyze(file).symbols, ty, 0));
            Ans::Ty(ty, name)
        }
        Kind::ExprIdAt => Ans::Expr(db.expr_id_at_offset(file, arg)),
    }
}

fn dump_diags(out: &mut String, diags: &[Diagnostic], ren: &dyn Fn(u32) -> String) {
    let _ = ren;
    for d in diags {
        let _ = writeln!(
            out,
            "D {} {:?} {}..{} {:?}",
            d.code.code(),
            d.severity,
            u32::from(d.range.start()),
            u32::from(d.range.end()),
            d.message
        );
        for r in &d.related {
            let _ = writeln!(
                out,
                "  R {}..{} {:?}",
                u32::from(r.range.start()),
                u32::from(r.range.end()),
                r.message
            );
        }
    }
}

/// Canonical dump of a symbol table: symbols by id, scopes with sorted name tables, the types the
/// symbols refer to, extends/implements.  `ren` renames file ids (identity at the Database layer,
/// id→key at the Project layer).
fn dump_symbols(out: &mut String, t: &SymbolTable, ren: &dyn Fn(u32) -> String) {
    let mut syms: Vec<_> = t.iter().collect();
    syms.sort_by_key(|s| s.id.0);
    let mut type_ids: Vec<u32> = Vec::new();
    for s in &syms {
        let origin = match s.origin {
            Some(o) => format!("{}#{}", ren(o.file_id.0), o.symbol_id.0),
            None => "-".into(),
        };
        let _ = writeln!(
            out,
            "S {} {:?} {:?} ty={} addr={:?} vis={:?} mods={:?} {}..{} origin={} parent={:?} doc={:?} ext={:?} impl={:?}",
            s.id.0,
            s.name.as_str(),
            s.kind,
            s.type_id.0,
            s.direct_address,
            s.visibility,
            s.modifiers,
            u32::from(s.range.start()),
            u32::from(s.range.end()),
            origin,
            s.parent.map(|p| p.0),
            s.doc,
            t.extends_name(s.id),
            t.implements_names(s.id),
        );
        type_ids.push(s.type_id.0);
    }
    for sc in t.scopes() {
        let mut names: Vec<(String, u32)> = sc
            .symbols
            .iter()
            .map(|(k, v)| (k.to_string(), v.0))
            .collect();
        names.sort();
        let _ = writeln!(
            out,
            "C {} parent={:?} owner={:?} {:?} using={:?} names={:?}",
            sc.id.0,
            sc.parent.map(|p| p.0),
            sc.owner.map(|p| p.0),
            sc.kind,
            sc.using_directives,
            names
        );
    }
    type_ids.sort_unstable();
    type_ids.dedup();
    for id in type_ids {
        if let Some(ty) = t.type_by_id(TypeId(id)) {
            let _ = writeln!(out, "T {} {:?}", id, ty);
        }
    }
}

/// Id-insensitive dump of a symbol table (Project layer): the *set* of symbols described by name,
/// kind, rendered type, range, origin key and parent name.  Symbol and type ids are numbered in
/// import order and are meaningless to a user, so they are left out.
fn dump_symbols_visible(out: &mut String, t: &SymbolTable, ren: &dyn Fn(u32) -> String) {
    use trust_hir::symbols::SymbolKind;
    let mut rows: Vec<String> = Vec::new();
    for s in t.iter() {
        let origin = match s.origin {
            Some(o) => ren(o.file_id.0),
            None => "-".into(),
        };
        let kind = match &s.kind {
            SymbolKind::Function { return_type, parameters } => format!(
                "Function({};{})",
                type_str(t, *return_type, 0),
                parameters
                    .iter()
                    .map(|p| t.get(*p).map(|x| x.name.to_string()).unwrap_or_else(|| "?".into()))
                    .collect::<Vec<_>>()
                    .join(",")
            ),
            SymbolKind::Method { return_type, parameters } => format!(
                "Method({};{})",
                return_type.map(|r| type_str(t, r, 0)).unwrap_or_else(|| "-".into()),
                parameters
                    .iter()
                    .map(|p| t.get(*p).map(|x| x.name.to_string()).unwrap_or_else(|| "?".into()))
                    .collect::<Vec<_>>()
                    .join(",")
            ),
            SymbolKind::Property { prop_type, has_get, has_set } => {
                format!("Property({};{has_get};{has_set})", type_str(t, *prop_type, 0))
            }
            other => format!("{other:?}"),
        };
        let parent = s
            .parent
            .and_then(|p| t.get(p))
            .map(|p| p.name.to_string())
            .unwrap_or_else(|| "-".into());
        rows.push(format!(
            "V {:?} {kind} ty={} addr={:?} vis={:?} mods={:?} {}..{} origin={origin} parent={parent} ext={:?} impl={:?}",
            s.name.as_str(),
            type_str(t, s.type_id, 0),
            s.direct_address,
            s.visibility,
            s.modifiers,
            u32::from(s.range.start()),
            u32::from(s.range.end()),
            t.extends_name(s.id),
            t.implements_names(s.id),
        ));
    }
    rows.sort();
    for r in rows {
        out.push_str(&r);
        out.push('\n');
    }
}

impl Ans {
    /// The id-insensitive form used at the Project layer.
    pub fn dump_visible(&self, ren: &dyn Fn(u32) -> String) -> String {
        let mut s = String::new();
        match self {
            Ans::Analysis(t, d) => {
                dump_symbols_visible(&mut s, t, ren);
                dump_diags(&mut s, d, ren);
            }
            Ans::Diags(d) => dump_diags(&mut s, d, ren),
            Ans::Syms(t) => dump_symbols_visible(&mut s, t, ren),
            Ans::Ty(_, name) => {
                let _ = writeln!(s, "Y {name:?}");
            }
            Ans::Expr(e) => {
                let _ = writeln!(s, "E {e:?}");
            }
        }
        s
    }
    pub fn dump(&self, ren: &dyn Fn(u32) -> String) -> String {
        let mut s = String::new();
        match self {
            Ans::Analysis(t, d) => {
                dump_symbols(&mut s, t, ren);
                dump_diags(&mut s, d, ren);
            }
            Ans::Diags(d) => dump_diags(&mut s, d, ren),
            Ans::Syms(t) => dump_symbols(&mut s, t, ren),
            Ans::Ty(t, _) => {
                let _ = writeln!(s, "Y {}", t.0);
            }
            Ans::Expr(e) => {
                let _ = writeln!(s, "E {e:?}");
            }
        }
        s
    }
    pub fn size(&self) -> usize {
        match self {
            Ans::Analysis(t, d) => t.len() + d.len(),
            Ans::Diags(d) => d.len(),
            Ans::Syms(t) => t.len(),
            Ans::Ty(t, _) => t.0 as usize,
            Ans::Expr(e) => e.map(|v| v as usize + 1).unwrap_or(0),
        }
    }
}

/// Set in the worker process (see `supervise`): every line is handed to the supervising process
/// before the operation it announces runs, so that an operation that kills the process (stack
/// overflow, failed allocation: an abort, not an unwinding panic) is known by name.
static WORKER: std::sync::atomic::AtomicBool = std::sync::atomic::AtomicBool::new(false);

fn sync(out: &mut Out) {
    if WORKER.load(std::sync::atomic::Ordering::Relaxed) && !out.buf.is_empty() {
        use std::io::Write as _;
        let so = std::io::stdout();
        let mut l = so.lock();
        let _ = l.write_all(out.buf.as_bytes());
        let _ = l.flush();
        out.buf.clear();
    }
}

/// Last panic message seen by the hook installed in `run` (a panic is an observable here).
static LAST_PANIC: std::sync::Mutex<String> = std::sync::Mutex::new(String::new());

fn take_panic() -> String {
    let mut g = LAST_PANIC.lock().unwrap_or_else(|e| e.into_inner());
    std::mem::take(&mut *g)
}

pub fn fnv(s: &str) -> u64 {
    let mut h: u64 = 0xcbf2_9ce4_8422_2325;
    for b in s.as_bytes() {
        h ^= u64::from(*b);
        h = h.wrapping_mul(0x0000_0100_0000_01b3);
    }
    h
}

fn ident(id: u32) -> String {
    id.to_string()
}

// ------------------------------------------------------------------------------------------------
// Text pool
// ------------------------------------------------------------------------------------------------

/// A slot is a role in a small project (library, user, types…) with interchangeable variants.
pub struct Slot {
    pub variants: Vec<String>,
}

fn slot(vs: &[&str]) -> Slot {
    Slot {
        variants: vs.iter().map(|s| s.to_string()).collect(),
    }
}

fn theme_func(_rng: &mut Rng) -> Vec<Slot> {
    vec![
        slot(&[
            "FUNCTION AddOne : INT\nVAR_INPUT\n    x : INT;\nEND_VAR\nAddOne := x + 1;\nEND_FUNCTION\n",
            "FUNCTION AddOne : DINT\nVAR_INPUT\n    x : INT;\nEND_VAR\nAddOne := x + 1;\nEND_FUNCTION\n",
            "FUNCTION AddOne : INT\nVAR_INPUT\n    x : BOOL;\nEND_VAR\nAddOne := 1;\nEND_FUNCTION\n",
            "FUNCTION AddOne : INT\nVAR_INPUT\n    x : INT;\n    y : INT;\nEND_VAR\nAddOne := x + y;\nEND_FUNCTION\n",
            "FUNCTION AddTwo : INT\nVAR_INPUT\n    x : INT;\nEND_VAR\nAddTwo := x + 2;\nEND_FUNCTION\n",
            "FUNCTION AddOne : INT\nVAR_INPUT\n    x : INT;\nEND_VAR\nAddOne := x + 2;\nEND_FUNCTION\n",
            "(* lib *)\nFUNCTION AddOne : INT\nVAR_INPUT\n    x : INT;\nEND_VAR\nAddOne := x + 1;\nEND_FUNCTION\n",
            "FUNCTION AddOne : INT\nVAR_INPUT\n    x : INT;\nEND_VAR\nAddOne := x + 1;\n",
            "FUNCTION AddOne : INT\nVAR_INPUT\n    x : INT;\nEND_VAR\nAddOne := Helper(x) + 1;\nEND_FUNCTION\n\nFUNCTION Helper : INT\nVAR_INPUT\n    a : INT;\nEND_VAR\nHelper := a * 2;\nEND_FUNCTION\n",
            "FUNCTION AddOne : BOOL\nVAR_INPUT\n    x : INT;\nEND_VAR\nAddOne := x > 1;\nEND_FUNCTION\n",
        ]),
        slot(&[
            "PROGRAM Main\nVAR\n    value : INT;\nEND_VAR\nvalue := AddOne(1);\nEND_PROGRAM\n",
            "PROGRAM Main\nVAR\n    value : BOOL;\nEND_VAR\nvalue := AddOne(1);\nEND_PROGRAM\n",
            "PROGRAM Main\nVAR\n    value : INT;\nEND_VAR\nvalue := AddOne(TRUE);\nEND_PROGRAM\n",
            "PROGRAM Main\nVAR\n    value : INT;\nEND_VAR\nvalue := AddOne(1, 2);\nEND_PROGRAM\n",
            "PROGRAM Main\nVAR\n    value : INT;\n    spare : INT;\nEND_VAR\nvalue := Helper(AddOne(x := 3));\nEND_PROGRAM\n",
            "PROGRAM Main\nVAR\n    value : INT;\nEND_VAR\nvalue := AddTwo(value) + AddOne(value);\nIF value > 3 THEN\n    value := 0;\nEND_IF;\nEND_PROGRAM\n",
            "PROGRAM Main\nVAR\n    value : DINT;\nEND_VAR\nvalue := AddOne(1);\nvalue := value + 1;\nEND_PROGRAM\n",
        ]),
        slot(&[
            "PROGRAM Aux\nVAR\n    flag : BOOL;\nEND_VAR\nflag := TRUE;\nEND_PROGRAM\n",
            "PROGRAM Aux\nVAR\n    flag : BOOL;\nEND_VAR\nflag := FALSE;\nEND_PROGRAM\n",
            "PROGRAM Aux\nVAR\n    n : INT;\nEND_VAR\nn := AddOne(n);\nEND_PROGRAM\n",
            "FUNCTION AddOne : BOOL\nVAR_INPUT\n    x : BOOL;\nEND_VAR\nAddOne := NOT x;\nEND_FUNCTION\n\nPROGRAM Aux\nVAR\n    flag : BOOL;\nEND_VAR\nflag := AddOne(flag);\nEND_PROGRAM\n",
            "FUNCTION Helper : DINT\nVAR_INPUT\n    a : DINT;\nEND_VAR\nHelper := a;\nEND_FUNCTION\n",
        ]),
    ]
}

fn theme_types(_rng: &mut Rng) -> Vec<Slot> {
    vec![
        slot(&[
            "TYPE\n    E_State : (Idle := 0, Starting := 1, Running := 2, Fault := 3);\n    ST_Cmd :\n    STRUCT\n        Enable : BOOL;\n        Speed : REAL;\n    END_STRUCT;\n    MyInt : INT;\nEND_TYPE\n",
            "TYPE\n    E_State : (Idle := 0, Starting := 1, Running := 2);\n    ST_Cmd :\n    STRUCT\n        Enable : BOOL;\n        Speed : REAL;\n    END_STRUCT;\n    MyInt : INT;\nEND_TYPE\n",
            "TYPE\n    E_State : (Idle := 0, Starting := 1, Running := 2, Fault := 3);\n    ST_Cmd :\n    STRUCT\n        Enable : BOOL;\n        Target : INT;\n    END_STRUCT;\n    MyInt : DINT;\nEND_TYPE\n",
            "TYPE\n    E_State : (Idle := 0, Starting := 1, Running := 2, Fault := 3);\n    MyInt : BOOL;\nEND_TYPE\n",
            "TYPE\n    ST_Cmd :\n    STRUCT\n        Enable : BOOL;\n        Speed : REAL;\n    END_STRUCT;\n    Arr : ARRAY[0..3] OF INT;\n    Small : INT(0..10);\n    MyInt : Small;\nEND_TYPE\n",
            "TYPE\n    E_State : (Idle := 0, Starting := 1, Running := 2, Fault := 3);\n    ST_Cmd :\n    STRUCT\n        Enable : BOOL;\n        Speed : REAL;\n    END_STRUCT\n    MyInt : INT;\n",
        ]),
        slot(&[
            "FUNCTION_BLOCK FB_Pump\nVAR_INPUT\n    Cmd : ST_Cmd;\nEND_VAR\nVAR_OUTPUT\n    State : E_State;\n    Count : MyInt;\nEND_VAR\nIF Cmd.Enable THEN\n    State := E_State#Running;\nELSE\n    State := E_State#Idle;\nEND_IF;\nCount := Count + 1;\nEND_FUNCTION_BLOCK\n",
            "FUNCTION_BLOCK FB_Pump\nVAR_INPUT\n    Cmd : ST_Cmd;\nEND_VAR\nVAR_OUTPUT\n    State : E_State;\nEND_VAR\nIF Cmd.Speed > 1.0 THEN\n    State := E_State#Fault;\nEND_IF;\nEND_FUNCTION_BLOCK\n",
            "FUNCTION_BLOCK FB_Pump\nVAR_INPUT\n    Enable : BOOL;\nEND_VAR\nVAR_OUTPUT\n    State : INT;\nEND_VAR\nState := 1;\nEND_FUNCTION_BLOCK\n",
            "FUNCTION_BLOCK FB_Motor\nVAR_INPUT\n    Cmd : ST_Cmd;\nEND_VAR\nVAR\n    Inner : FB_Pump;\nEND_VAR\nInner(Cmd := Cmd);\nEND_FUNCTION_BLOCK\n",
        ]),
        slot(&[
            "PROGRAM Plant\nVAR\n    Pump : FB_Pump;\n    Cmd : ST_Cmd;\n    Halt : BOOL;\nEND_VAR\nCmd.Enable := NOT Halt;\nCmd.Speed := 1.5;\nPump(Cmd := Cmd);\nIF Pump.State = E_State#Fault THEN\n    Halt := TRUE;\nEND_IF;\nEND_PROGRAM\n",
            "PROGRAM Plant\nVAR\n    Pump : FB_Pump;\n    Cmd : ST_Cmd;\n    n : MyInt;\nEND_VAR\nCmd.Target := 3;\nPump(Cmd := Cmd);\nn := Pump.Count;\nEND_PROGRAM\n",
            "PROGRAM Plant\nVAR\n    Pump : FB_Pump;\n    a : Arr;\n    s : Small;\nEND_VAR\nPump(Enable := TRUE);\na[1] := Pump.State;\ns := 11;\nEND_PROGRAM\n",
            "PROGRAM Plant\nVAR\n    M : FB_Motor;\n    st : E_State;\nEND_VAR\nM();\nst := E_State#Starting;\nCASE st OF\n    E_State#Idle: st := E_State#Running;\n    E_State#Fault: st := E_State#Idle;\nEND_CASE;\nEND_PROGRAM\n",
        ]),
    ]
}

fn theme_globals(_rng: &mut Rng) -> Vec<Slot> {
    vec![
        slot(&[
            "CONFIGURATION Conf\nVAR_GLOBAL\n    Shared : INT;\n    gFlag : BOOL;\nEND_VAR\nRESOURCE R ON CPU\n    TASK Fast (INTERVAL := T#10ms, PRIORITY := 1);\n    TASK Slow (INTERVAL := T#20ms, PRIORITY := 2);\n    PROGRAM P1 WITH Fast : Writer;\n    PROGRAM P2 WITH Slow : Reader;\nEND_RESOURCE\nEND_CONFIGURATION\n",
            "CONFIGURATION Conf\nVAR_GLOBAL\n    Shared : INT;\n    gFlag : BOOL;\nEND_VAR\nRESOURCE R ON CPU\n    TASK Fast (INTERVAL := T#10ms, PRIORITY := 1);\n    PROGRAM P1 WITH Fast : Writer;\n    PROGRAM P2 WITH Fast : Reader;\nEND_RESOURCE\nEND_CONFIGURATION\n",
            "CONFIGURATION Conf\nVAR_GLOBAL\n    Shared : DINT;\nEND_VAR\nRESOURCE R ON CPU\n    TASK Fast (INTERVAL := T#10ms, PRIORITY := 1);\n    TASK Slow (INTERVAL := T#20ms, PRIORITY := 2);\n    PROGRAM P1 WITH Fast : Writer;\n    PROGRAM P2 WITH Slow : Reader;\n    PROGRAM P3 WITH Slowest : Reader;\nEND_RESOURCE\nEND_CONFIGURATION\n",
            "CONFIGURATION Conf\nVAR_GLOBAL\n    Other : INT;\nEND_VAR\nTASK Fast (INTERVAL := T#10ms, PRIORITY := 1);\nPROGRAM P1 WITH Fast : Writer;\nEND_CONFIGURATION\n",
            "CONFIGURATION Conf\nVAR_GLOBAL\n    Shared : INT;\n    gFlag : BOOL;\nEND_VAR\nRESOURCE R ON CPU\n    TASK Fast (INTERVAL := T#10ms);\n    PROGRAM P1 WITH Fast : Writer;\n",
        ]),
        slot(&[
            "PROGRAM Writer\nVAR_EXTERNAL\n    Shared : INT;\nEND_VAR\nShared := Shared + 1;\nEND_PROGRAM\n",
            "PROGRAM Writer\nVAR_EXTERNAL\n    Shared : DINT;\nEND_VAR\nShared := Shared + 1;\nEND_PROGRAM\n",
            "PROGRAM Writer\nVAR_EXTERNAL\n    Shared : INT;\n    gFlag : BOOL;\nEND_VAR\nVAR\n    t : INT;\nEND_VAR\nt := Shared;\ngFlag := TRUE;\nEND_PROGRAM\n",
            "PROGRAM Writer\n    Shared := Shared + 1;\nEND_PROGRAM\n",
            "PROGRAM Writer\nVAR_EXTERNAL\n    Missing : INT;\nEND_VAR\nMissing := 1;\nEND_PROGRAM\n",
        ]),
        slot(&[
            "PROGRAM Reader\nVAR_EXTERNAL\n    Shared : INT;\nEND_VAR\nVAR\n    x : INT;\nEND_VAR\nx := Shared;\nEND_PROGRAM\n",
            "PROGRAM Reader\nVAR_EXTERNAL\n    Shared : INT;\nEND_VAR\nShared := 0;\nEND_PROGRAM\n",
            "PROGRAM Reader\n    VAR x : INT; END_VAR\n    x := Shared;\nEND_PROGRAM\n",
            "PROGRAM Reader\nVAR_EXTERNAL\n    gFlag : BOOL;\nEND_VAR\nVAR\n    x : INT;\nEND_VAR\nIF gFlag THEN\n    x := 1;\nEND_IF;\nEND_PROGRAM\n",
        ]),
    ]
}

fn theme_ns(_rng: &mut Rng) -> Vec<Slot> {
    vec![
        slot(&[
            "NAMESPACE Lib\nFUNCTION Inc : INT\nVAR_INPUT\n    x : INT;\nEND_VAR\nInc := x + INT#1;\nEND_FUNCTION\nEND_NAMESPACE\n",
            "NAMESPACE Lib\nFUNCTION Inc : DINT\nVAR_INPUT\n    x : DINT;\nEND_VAR\nInc := x + DINT#1;\nEND_FUNCTION\nEND_NAMESPACE\n",
            "NAMESPACE Lib\nNAMESPACE Sub\nFUNCTION Inc : INT\nVAR_INPUT\n    x : INT;\nEND_VAR\nInc := x + INT#1;\nEND_FUNCTION\nEND_NAMESPACE\nEND_NAMESPACE\n",
            "NAMESPACE Lib2\nFUNCTION Inc : INT\nVAR_INPUT\n    x : INT;\nEND_VAR\nInc := x + INT#1;\nEND_FUNCTION\nEND_NAMESPACE\n",
            "NAMESPACE Lib\nTYPE\n    Level : (Low, High);\nEND_TYPE\nFUNCTION Inc : INT\nVAR_INPUT\n    x : INT;\nEND_VAR\nInc := x + INT#1;\nEND_FUNCTION\nEND_NAMESPACE\n",
        ]),
        slot(&[
            "NAMESPACE Lib\nFUNCTION Dec : INT\nVAR_INPUT\n    x : INT;\nEND_VAR\nDec := x - INT#1;\nEND_FUNCTION\nEND_NAMESPACE\n",
            "NAMESPACE Lib\nFUNCTION Inc : BOOL\nVAR_INPUT\n    x : BOOL;\nEND_VAR\nInc := NOT x;\nEND_FUNCTION\nEND_NAMESPACE\n",
            "NAMESPACE Lib\nNAMESPACE Sub\nFUNCTION Dec : INT\nVAR_INPUT\n    x : INT;\nEND_VAR\nDec := x - INT#1;\nEND_FUNCTION\nEND_NAMESPACE\nEND_NAMESPACE\n",
            "FUNCTION Dec : INT\nVAR_INPUT\n    x : INT;\nEND_VAR\nDec := x - INT#1;\nEND_FUNCTION\n",
        ]),
        slot(&[
            "USING Lib;\nPROGRAM Main\nVAR\n    y : INT;\nEND_VAR\ny := Inc(INT#1);\nEND_PROGRAM\n",
            "PROGRAM Main\nVAR\n    y : INT;\nEND_VAR\ny := Lib.Inc(INT#1);\ny := Lib.Dec(y);\nEND_PROGRAM\n",
            "USING Lib.Sub;\nPROGRAM Main\nVAR\n    y : INT;\nEND_VAR\ny := Inc(INT#1) + Dec(INT#2);\nEND_PROGRAM\n",
            "USING Lib;\nUSING Lib2;\nPROGRAM Main\nVAR\n    y : INT;\n    l : Level;\nEND_VAR\ny := Inc(INT#1);\ny := Dec(y);\nEND_PROGRAM\n",
            "PROGRAM Main\nVAR\n    y : INT;\nEND_VAR\ny := Inc(INT#1);\nEND_PROGRAM\n",
        ]),
    ]
}

fn theme_oop(_rng: &mut Rng) -> Vec<Slot> {
    vec![
        slot(&[
            "INTERFACE IDevice\n    METHOD Start : BOOL\n    END_METHOD\nEND_INTERFACE\n",
            "INTERFACE IDevice\n    METHOD Start : BOOL\n    END_METHOD\n    METHOD Stop : BOOL\n    END_METHOD\nEND_INTERFACE\n",
            "INTERFACE IDevice\n    METHOD Start : INT\n    END_METHOD\n    PROPERTY Speed : INT\n        GET\n        END_GET\n    END_PROPERTY\nEND_INTERFACE\n",
            "INTERFACE IDevice EXTENDS IBase\n    METHOD Start : BOOL\n    END_METHOD\nEND_INTERFACE\n\nINTERFACE IBase\n    METHOD Reset : BOOL\n    END_METHOD\nEND_INTERFACE\n",
            "INTERFACE IOther\n    METHOD Start : BOOL\n    END_METHOD\nEND_INTERFACE\n",
        ]),
        slot(&[
            "FUNCTION_BLOCK FB_Base IMPLEMENTS IDevice\nVAR\n    running : BOOL;\nEND_VAR\nMETHOD PUBLIC Start : BOOL\n    running := TRUE;\n    Start := running;\nEND_METHOD\nEND_FUNCTION_BLOCK\n",
            "FUNCTION_BLOCK FB_Base IMPLEMENTS IDevice\nVAR\n    running : BOOL;\nEND_VAR\nMETHOD PUBLIC Start : BOOL\n    Start := TRUE;\nEND_METHOD\nMETHOD PUBLIC Stop : BOOL\n    running := FALSE;\n    Stop := TRUE;\nEND_METHOD\nEND_FUNCTION_BLOCK\n",
            "FUNCTION_BLOCK FINAL FB_Base\nVAR\n    running : BOOL;\nEND_VAR\nMETHOD PUBLIC Start : BOOL\n    Start := TRUE;\nEND_METHOD\nEND_FUNCTION_BLOCK\n",
            "FUNCTION_BLOCK ABSTRACT FB_Base IMPLEMENTS IDevice\nMETHOD PUBLIC ABSTRACT Start : BOOL\nEND_METHOD\nEND_FUNCTION_BLOCK\n",
            "CLASS FB_Base IMPLEMENTS IDevice\nMETHOD PUBLIC Start : BOOL\n    Start := TRUE;\nEND_METHOD\nEND_CLASS\n",
        ]),
        slot(&[
            "FUNCTION_BLOCK FB_Child EXTENDS FB_Base\nMETHOD PUBLIC OVERRIDE Start : BOOL\n    Start := FALSE;\nEND_METHOD\nEND_FUNCTION_BLOCK\n",
            "FUNCTION_BLOCK FB_Child EXTENDS FB_Base\nMETHOD PUBLIC Extra : INT\n    Extra := 1;\nEND_METHOD\nEND_FUNCTION_BLOCK\n",
            "FUNCTION_BLOCK FB_Child EXTENDS FB_Child\nEND_FUNCTION_BLOCK\n",
            "FUNCTION_BLOCK FB_Child EXTENDS FB_Missing\nMETHOD PUBLIC OVERRIDE Start : BOOL\n    Start := FALSE;\nEND_METHOD\nEND_FUNCTION_BLOCK\n",
        ]),
        slot(&[
            "PROGRAM Main\nVAR\n    dev : FB_Child;\n    ok : BOOL;\nEND_VAR\nok := dev.Start();\nEND_PROGRAM\n",
            "PROGRAM Main\nVAR\n    dev : FB_Base;\n    itf : IDevice;\n    ok : BOOL;\nEND_VAR\nitf := dev;\nok := itf.Start();\nEND_PROGRAM\n",
            "PROGRAM Main\nVAR\n    dev : FB_Child;\n    n : INT;\nEND_VAR\nn := dev.Extra();\nn := dev.Missing();\nEND_PROGRAM\n",
        ]),
    ]
}

/// Same global names defined in several files: the cross-file import is in file-id order, so
/// which definition a user sees depends on the relative id order of the defining files.
fn theme_dups(_rng: &mut Rng) -> Vec<Slot> {
    vec![
        slot(&[
            "FUNCTION Conv : INT\nVAR_INPUT\n    x : INT;\nEND_VAR\nConv := x;\nEND_FUNCTION\n",
            "FUNCTION Conv : INT\nVAR_INPUT\n    x : INT;\nEND_VAR\nConv := x + 1;\nEND_FUNCTION\n\nTYPE\n    T_Val : INT;\nEND_TYPE\n",
        ]),
        slot(&[
            "FUNCTION Conv : BOOL\nVAR_INPUT\n    x : BOOL;\nEND_VAR\nConv := x;\nEND_FUNCTION\n",
            "FUNCTION Conv : BOOL\nVAR_INPUT\n    x : BOOL;\nEND_VAR\nConv := NOT x;\nEND_FUNCTION\n\nTYPE\n    T_Val : BOOL;\nEND_TYPE\n",
        ]),
        slot(&[
            "FUNCTION Conv : REAL\nVAR_INPUT\n    x : REAL;\n    y : REAL;\nEND_VAR\nConv := x + y;\nEND_FUNCTION\n",
            "TYPE\n    T_Val : REAL;\nEND_TYPE\n",
        ]),
        slot(&[
            "PROGRAM User\nVAR\n    a : INT;\nEND_VAR\na := Conv(a);\nEND_PROGRAM\n",
            "PROGRAM User\nVAR\n    b : BOOL;\n    v : T_Val;\nEND_VAR\nb := Conv(b);\nv := 1;\nEND_PROGRAM\n",
            "PROGRAM User\nVAR\n    a : INT;\n    v : T_Val;\nEND_VAR\na := Conv(1);\nv := TRUE;\nEND_PROGRAM\n",
        ]),
    ]
}

/// Inheritance across files: the bases, the derived POU, the interfaces and the users live in
/// different files, and most variants of the `derived` / `interfaces` files differ ONLY in the name
/// after EXTENDS / IMPLEMENTS, written with identifiers of the same length — an edit that moves no
/// source range, no symbol, no scope and no type, only the name-keyed side tables of the symbol
/// table (which salsa's backdating compares with `Eq`).  The users read members that exist in one
/// base only, so the answer of the *other* file tells which base the project believes in.
fn theme_inherit(_rng: &mut Rng) -> Vec<Slot> {
    let bases = [
        "FUNCTION_BLOCK BaseA\nVAR_OUTPUT\n    onlyInA : INT;\n    common : INT;\nEND_VAR\nMETHOD PUBLIC Ping : INT\n    Ping := 1;\nEND_METHOD\nEND_FUNCTION_BLOCK\n\nFUNCTION_BLOCK BaseB\nVAR_OUTPUT\n    onlyInB : INT;\n    common : BOOL;\nEND_VAR\nMETHOD PUBLIC Ping : BOOL\n    Ping := TRUE;\nEND_METHOD\nEND_FUNCTION_BLOCK\n",
        "FUNCTION_BLOCK BaseA\nVAR_OUTPUT\n    onlyInA : BOOL;\n    common : BOOL;\nEND_VAR\nEND_FUNCTION_BLOCK\n\nFUNCTION_BLOCK BaseB\nVAR_OUTPUT\n    onlyInB : DINT;\n    common : DINT;\nEND_VAR\nEND_FUNCTION_BLOCK\n",
        "FUNCTION_BLOCK BaseA\nVAR_OUTPUT\n    onlyInA : INT;\n    common : INT;\nEND_VAR\nEND_FUNCTION_BLOCK\n",
        "FUNCTION_BLOCK BaseA\nVAR_OUTPUT\n    onlyInA : INT;\n    common : INT;\nEND_VAR\nEND_FUNCTION_BLOCK\n\nFUNCTION_BLOCK BaseB EXTENDS BaseA\nVAR_OUTPUT\n    onlyInB : INT;\nEND_VAR\nEND_FUNCTION_BLOCK\n",
        "CLASS BaseA\nVAR PUBLIC\n    onlyInA : INT;\n    common : INT;\nEND_VAR\nMETHOD PUBLIC Ping : INT\n    Ping := 1;\nEND_METHOD\nEND_CLASS\n\nCLASS BaseB\nVAR PUBLIC\n    onlyInB : INT;\n    common : BOOL;\nEND_VAR\nMETHOD PUBLIC Ping : BOOL\n    Ping := TRUE;\nEND_METHOD\nEND_CLASS\n",
        "FUNCTION_BLOCK FINAL BaseA\nVAR_OUTPUT\n    onlyInA : INT;\nEND_VAR\nEND_FUNCTION_BLOCK\n\nFUNCTION_BLOCK ABSTRACT BaseB\nVAR_OUTPUT\n    onlyInB : INT;\nEND_VAR\nMETHOD PUBLIC ABSTRACT Ping : BOOL\nEND_METHOD\nEND_FUNCTION_BLOCK\n",
    ];
    let mut derived: Vec<String> = Vec::new();
    for base in ["BaseA", "BaseB", "BaseC"] {
        for itf in ["IBasA", "IBasB"] {
            derived.push(format!("FUNCTION_BLOCK Derived EXTENDS {base}\nEND_FUNCTION_BLOCK\n"));
            derived.push(format!(
                "FUNCTION_BLOCK Derived EXTENDS {base} IMPLEMENTS {itf}\nMETHOD PUBLIC Start : BOOL\n    Start := TRUE;\nEND_METHOD\nEND_FUNCTION_BLOCK\n"
            ));
            derived.push(format!(
                "FUNCTION_BLOCK Derived EXTENDS {base}\nMETHOD PUBLIC Own : INT\n    Own := common;\nEND_METHOD\nEND_FUNCTION_BLOCK\n\nFUNCTION_BLOCK Leaf EXTENDS Derived\nEND_FUNCTION_BLOCK\n"
            ));
        }
        derived.push(format!("CLASS Derived EXTENDS {base}\nEND_CLASS\n"));
    }
    let mut itfs: Vec<String> = Vec::new();
    for base in ["IBasA", "IBasB", "IBasC"] {
        itfs.push(format!(
            "INTERFACE IBasA\n    METHOD Start : BOOL\n    END_METHOD\nEND_INTERFACE\n\nINTERFACE IBasB\n    METHOD Stopp : BOOL\n    END_METHOD\nEND_INTERFACE\n\nINTERFACE IDev EXTENDS {base}\n    METHOD Reset : BOOL\n    END_METHOD\nEND_INTERFACE\n"
        ));
    }
    itfs.push("INTERFACE IBasA\n    METHOD Start : INT\n    END_METHOD\nEND_INTERFACE\n".into());
    let users = [
        "PROGRAM Main\nVAR\n    d : Derived;\n    x : INT;\nEND_VAR\nx := d.onlyInA;\nEND_PROGRAM\n",
        "PROGRAM Main\nVAR\n    d : Derived;\n    x : INT;\nEND_VAR\nx := d.onlyInB;\nx := d.common;\nEND_PROGRAM\n",
        "PROGRAM Main\nVAR\n    d : Derived;\n    x : INT;\nEND_VAR\nx := d.Ping();\nx := d.Own();\nEND_PROGRAM\n",
        "PROGRAM Main\nVAR\n    d : Derived;\n    i : IDev;\n    j : IBasA;\n    ok : BOOL;\nEND_VAR\ni := d;\nj := d;\nok := i.Start();\nok := i.Stopp();\nok := i.Reset();\nEND_PROGRAM\n",
        "PROGRAM Main\nVAR\n    l : Leaf;\n    x : INT;\nEND_VAR\nx := l.onlyInA + l.onlyInB;\nEND_PROGRAM\n",
    ];
    let second = [
        "FUNCTION_BLOCK Other EXTENDS Derived\nVAR\n    y : INT;\nEND_VAR\ny := onlyInA;\nEND_FUNCTION_BLOCK\n",
        "FUNCTION_BLOCK Other EXTENDS Derived\nVAR\n    y : INT;\nEND_VAR\ny := onlyInB;\ny := common;\nEND_FUNCTION_BLOCK\n",
        "FUNCTION_BLOCK Other IMPLEMENTS IDev\nMETHOD PUBLIC Start : BOOL\n    Start := TRUE;\nEND_METHOD\nMETHOD PUBLIC Reset : BOOL\n    Reset := TRUE;\nEND_METHOD\nEND_FUNCTION_BLOCK\n",
        "PROGRAM Second\nVAR\n    o : Other;\n    d : Derived;\n    z : INT;\nEND_VAR\nz := d.onlyInB;\nEND_PROGRAM\n",
    ];
    vec![
        slot(&bases),
        Slot { variants: derived },
        slot(&users),
        Slot { variants: itfs },
        slot(&second),
    ]
}

/// Data types that reach themselves through their components (linked-list node, two structures
/// pointing at each other, also from two different files; through REF_TO / POINTER TO / ARRAY OF /
/// alias / a function block's own reference) declared in another file than their users.  The
/// cross-file import has to terminate on them ("no query panics for any file contents"; unbounded
/// recursion ends in a stack overflow, i.e. an abort of the process, which only the supervising
/// process can observe).
fn theme_rectypes(_rng: &mut Rng) -> Vec<Slot> {
    vec![
        slot(&[
            "TYPE Node :\nSTRUCT\n    value : INT;\nEND_STRUCT\nEND_TYPE\n",
            "TYPE Node :\nSTRUCT\n    value : INT;\n    next : REF_TO Node;\nEND_STRUCT\nEND_TYPE\n",
            "TYPE Node :\nSTRUCT\n    value : INT;\n    next : POINTER TO Node;\nEND_STRUCT\nEND_TYPE\n",
            "TYPE Node :\nSTRUCT\n    value : INT;\n    kids : ARRAY[0..1] OF REF_TO Node;\nEND_STRUCT\nEND_TYPE\n",
            "TYPE\n    Node :\n    STRUCT\n        value : INT;\n        next : NodeRef;\n    END_STRUCT;\n    NodeRef : REF_TO Node;\nEND_TYPE\n",
            "TYPE Node :\nUNION\n    value : INT;\n    next : REF_TO Node;\nEND_UNION\nEND_TYPE\n",
            "TYPE Node :\nSTRUCT\n    value : INT;\n    next : REF_TO REF_TO Node;\n    grid : ARRAY[0..1, 0..1] OF POINTER TO Node;\nEND_STRUCT\nEND_TYPE\n",
        ]),
        slot(&[
            "TYPE Left :\nSTRUCT\n    peer : REF_TO Right;\n    value : INT;\nEND_STRUCT\nEND_TYPE\n\nTYPE Right :\nSTRUCT\n    peer : POINTER TO Left;\nEND_STRUCT\nEND_TYPE\n",
            "TYPE Left :\nSTRUCT\n    peer : REF_TO Right;\n    value : INT;\nEND_STRUCT\nEND_TYPE\n",
            "TYPE Left :\nSTRUCT\n    value : INT;\nEND_STRUCT\nEND_TYPE\n\nTYPE Right :\nSTRUCT\n    peer : REF_TO Left;\nEND_STRUCT\nEND_TYPE\n",
            "TYPE Left :\nSTRUCT\n    peer : REF_TO Right;\n    head : REF_TO Node;\n    value : INT;\nEND_STRUCT\nEND_TYPE\n\nTYPE Right :\nSTRUCT\n    peer : ARRAY[0..2] OF REF_TO Left;\nEND_STRUCT\nEND_TYPE\n",
        ]),
        slot(&[
            "PROGRAM Main\nVAR\n    n : Node;\n    x : INT;\nEND_VAR\nx := n.value;\nEND_PROGRAM\n",
            "PROGRAM Main\nVAR\n    n : Node;\n    m : Node;\n    x : INT;\nEND_VAR\nn.next := REF(m);\nx := n.next^.value;\nEND_PROGRAM\n",
            "PROGRAM Main\nVAR\n    l : Left;\n    r : Right;\n    x : INT;\nEND_VAR\nl.peer := REF(r);\nx := l.value;\nEND_PROGRAM\n",
            "PROGRAM Main\nVAR\n    x : INT;\nEND_VAR\nx := 1;\nEND_PROGRAM\n",
        ]),
        slot(&[
            // the other half of a cycle that spans two files
            "TYPE Right :\nSTRUCT\n    peer : REF_TO Left;\n    value : INT;\nEND_STRUCT\nEND_TYPE\n",
            "FUNCTION_BLOCK FB_Node\nVAR\n    next : REF_TO FB_Node;\n    data : Node;\nEND_VAR\nVAR_OUTPUT\n    depth : INT;\nEND_VAR\ndepth := data.value;\nEND_FUNCTION_BLOCK\n",
            "FUNCTION_BLOCK FB_Node\nVAR\n    next : REF_TO FB_Node;\n    owner : REF_TO FB_List;\nEND_VAR\nEND_FUNCTION_BLOCK\n\nFUNCTION_BLOCK FB_List\nVAR\n    head : REF_TO FB_Node;\n    items : ARRAY[0..3] OF FB_Node;\nEND_VAR\nEND_FUNCTION_BLOCK\n",
            "FUNCTION Walk : INT\nVAR_INPUT\n    start : REF_TO Node;\nEND_VAR\nWalk := start^.value;\nEND_FUNCTION\n",
        ]),
    ]
}

// ------------------------------------------------------------------------------------------------
// Content stream: constant expressions with boundary arithmetic in every place where the symbol
// collector or the type checker folds constants ("no query panics for any file contents")
// ------------------------------------------------------------------------------------------------

/// A boundary operand; the classes that make checked arithmetic matter are drawn more often.
fn bval(rng: &mut Rng, named: bool) -> String {
    let r = rng.below(18);
    let pick = |rng: &mut Rng, xs: &[&str]| (*rng.pick(xs)).to_string();
    match r {
        0..=2 => {
            if named && rng.chance(1, 3) {
                "LOWEST".into()
            } else {
                pick(rng, &["(-9223372036854775807 - 1)", "(-9223372036854775807 - 1)", "(-16#7FFF_FFFF_FFFF_FFFF - 1)"])
            }
        }
        3..=5 => {
            if named && rng.chance(1, 4) {
                "NEG1".into()
            } else {
                pick(rng, &["(-1)", "-1", "(0 - 1)", "(-1)"])
            }
        }
        6 | 7 => {
            if named && rng.chance(1, 3) {
                "HIGHEST".into()
            } else {
                pick(rng, &["9223372036854775807", "16#7FFF_FFFF_FFFF_FFFF"])
            }
        }
        8 | 9 => "0".into(),
        10 => "1".into(),
        11 => "2".into(),
        12 => pick(rng, &["(-2147483647 - 1)", "(-32767 - 1)", "(-127 - 1)", "-128"]),
        13 => pick(rng, &["2147483647", "32767", "127", "4294967295", "65535", "255"]),
        14 => "63".into(),
        15 => "64".into(),
        16 => "(-9223372036854775807)".into(),
        _ => "(-2)".into(),
    }
}

const COPS: [&str; 6] = ["+", "-", "*", "/", "MOD", "**"];

fn catom(rng: &mut Rng, named: bool) -> String {
    if rng.chance(2, 3) {
        return bval(rng, named);
    }
    (*rng.pick(&[
        "128", "256", "32768", "65536", "2147483648", "4294967296", "9223372036854775808",
        "18446744073709551615", "16#FFFF_FFFF_FFFF_FFFF", "16#8000_0000_0000_0000", "2#1010", "8#17",
        "1_000", "INT#5", "SINT#-128", "DINT#16#FFFF", "LINT#9223372036854775807", "USINT#255", "TRUE",
        "1.5", "T#1s", "c0", "c1", "A0", "E0#B0", "Undefined",
    ]))
    .to_string()
}

/// A constant expression: half of the time a plain `boundary op boundary`, otherwise a small tree.
fn cexpr(rng: &mut Rng, depth: u32, named: bool) -> String {
    if depth == 0 && rng.chance(1, 2) {
        let (a, b) = (bval(rng, named), bval(rng, named));
        return format!("{a} {} {b}", rng.pick(&COPS));
    }
    if depth >= 3 || rng.chance(1, 3) {
        return catom(rng, named);
    }
    match rng.below(6) {
        0 => format!("-{}", cexpr(rng, depth + 1, named)),
        1 => format!("({})", cexpr(rng, depth + 1, named)),
        2 => format!("+{}", cexpr(rng, depth + 1, named)),
        _ => {
            let a = cexpr(rng, depth + 1, named);
            let b = cexpr(rng, depth + 1, named);
            let (a, b) = if rng.bool() { (format!("({a})"), format!("({b})")) } else { (a, b) };
            format!("{a} {} {b}", rng.pick(&COPS))
        }
    }
}

const NAMED_CONSTS: &str = "    LOWEST : LINT := -9223372036854775807 - 1;\n    HIGHEST : LINT := 9223372036854775807;\n    NEG1 : LINT := -1;\n";

fn consts_program(rng: &mut Rng, name: &str) -> String {
    let mut s = format!("PROGRAM {name}\nVAR CONSTANT\n{NAMED_CONSTS}");
    for i in 0..(6 + rng.below(8)) {
        let ty = *rng.pick(&["LINT", "LINT", "DINT", "INT", "SINT", "ULINT", "UDINT"]);
        let _ = writeln!(s, "    c{i} : {ty} := {};", cexpr(rng, 0, true));
    }
    s.push_str("END_VAR\nVAR\n    x : LINT;\n    arr : ARRAY[0..3] OF INT;\n    sr : INT(0..10);\n");
    for i in 0..(2 + rng.below(4)) {
        match rng.below(4) {
            0 => {
                let _ = writeln!(s, "    a{i} : ARRAY[{}..{}] OF BOOL;", cexpr(rng, 0, true), cexpr(rng, 0, true));
            }
            1 => {
                let _ = writeln!(s, "    r{i} : LINT({}..{});", cexpr(rng, 0, true), cexpr(rng, 0, true));
            }
            2 => {
                let _ = writeln!(s, "    s{i} : STRING[{}];", cexpr(rng, 0, true));
            }
            _ => {
                let _ = writeln!(s, "    w{i} : ARRAY[0..{}, {}..1] OF INT;", cexpr(rng, 0, true), cexpr(rng, 0, true));
            }
        }
    }
    s.push_str("END_VAR\nx := c0 + c1;\nCASE x OF\n");
    for _ in 0..(2 + rng.below(4)) {
        if rng.bool() {
            let _ = writeln!(s, "    {}: x := 1;", cexpr(rng, 0, true));
        } else {
            let _ = writeln!(s, "    {}..{}: x := 2;", cexpr(rng, 0, true), cexpr(rng, 0, true));
        }
    }
    s.push_str("END_CASE;\n");
    for _ in 0..(1 + rng.below(3)) {
        let _ = writeln!(s, "arr[{}] := 1;", cexpr(rng, 0, true));
        let _ = writeln!(s, "sr := {};", cexpr(rng, 0, true));
        let _ = writeln!(s, "x := {};", cexpr(rng, 0, true));
    }
    let _ = writeln!(s, "END_PROGRAM");
    s
}

fn consts_types(rng: &mut Rng) -> String {
    let mut s = String::from("TYPE\n");
    for i in 0..(3 + rng.below(5)) {
        match rng.below(5) {
            0 => {
                let _ = writeln!(s, "    E{i} : (A{i} := {}, B{i} := {}, C{i});", cexpr(rng, 0, false), cexpr(rng, 0, false));
            }
            1 => {
                let base = *rng.pick(&["LINT", "DINT", "INT", "SINT", "ULINT"]);
                let _ = writeln!(s, "    S{i} : {base}({}..{});", cexpr(rng, 0, false), cexpr(rng, 0, false));
            }
            2 => {
                let _ = writeln!(s, "    R{i} : ARRAY[{}..{}] OF INT;", cexpr(rng, 0, false), cexpr(rng, 0, false));
            }
            3 => {
                let _ = writeln!(s, "    STR{i} : STRING[{}];", cexpr(rng, 0, false));
            }
            _ => {
                let _ = writeln!(
                    s,
                    "    ST{i} :\n    STRUCT\n        f : ARRAY[{}..{}] OF BOOL;\n        g : INT({}..{});\n    END_STRUCT;",
                    cexpr(rng, 0, false),
                    cexpr(rng, 0, false),
                    cexpr(rng, 0, false),
                    cexpr(rng, 0, false)
                );
            }
        }
    }
    s.push_str("    E0x : (A0 := 1, B0 := 2);\n    SmallT : INT(0..10);\nEND_TYPE\n");
    s
}

fn consts_fb(rng: &mut Rng) -> String {
    let mut s = format!("FUNCTION_BLOCK FB_Consts\nVAR CONSTANT\n{NAMED_CONSTS}");
    for i in 0..(4 + rng.below(6)) {
        let _ = writeln!(s, "    c{i} : LINT := {};", cexpr(rng, 0, true));
    }
    s.push_str("END_VAR\nVAR_OUTPUT\n    outv : LINT;\nEND_VAR\nVAR\n");
    let _ = writeln!(s, "    buf : ARRAY[{}..{}] OF SmallT;", cexpr(rng, 0, true), cexpr(rng, 0, true));
    let _ = writeln!(s, "    lim : DINT({}..{});", cexpr(rng, 0, true), cexpr(rng, 0, true));
    s.push_str("END_VAR\noutv := c0;\n");
    let _ = writeln!(s, "buf[{}] := {};", cexpr(rng, 0, true), cexpr(rng, 0, true));
    let _ = writeln!(s, "lim := {};", cexpr(rng, 0, true));
    s.push_str("END_FUNCTION_BLOCK\n\nFUNCTION CFold : LINT\nVAR_INPUT\n    p : LINT;\nEND_VAR\nVAR CONSTANT\n");
    let _ = writeln!(s, "    k : LINT := {};", cexpr(rng, 0, false));
    s.push_str("END_VAR\nCFold := p + k;\nEND_FUNCTION\n");
    s
}

/// Folding constants that come from *other* files (types, enum values, a function block).
fn consts_user(rng: &mut Rng) -> String {
    let mut s = String::from("PROGRAM CUser\nVAR\n    fb : FB_Consts;\n    v : SmallT;\n    e : E0x;\n    y : LINT;\n");
    let _ = writeln!(s, "    t : ARRAY[A0..{}] OF INT;", cexpr(rng, 0, false));
    s.push_str("END_VAR\nVAR CONSTANT\n");
    let _ = writeln!(s, "    q : LINT := {};", cexpr(rng, 0, false));
    s.push_str("END_VAR\nfb();\ny := CFold(fb.outv) + q;\n");
    let _ = writeln!(s, "v := {};", cexpr(rng, 0, false));
    let _ = writeln!(s, "t[{}] := 1;", cexpr(rng, 0, false));
    s.push_str("CASE e OF\n    E0x#A0: y := 1;\n");
    let _ = writeln!(s, "    {}: y := 2;", cexpr(rng, 0, false));
    s.push_str("END_CASE;\nEND_PROGRAM\n");
    s
}

fn theme_consts(rng: &mut Rng) -> Vec<Slot> {
    let gen = |rng: &mut Rng, f: &dyn Fn(&mut Rng) -> String| Slot {
        variants: (0..5).map(|_| f(rng)).collect(),
    };
    vec![
        gen(rng, &|r| consts_types(r)),
        gen(rng, &|r| consts_program(r, "CMain")),
        gen(rng, &|r| consts_fb(r)),
        gen(rng, &|r| consts_user(r)),
    ]
}

fn corpus_slots(dir: &str) -> Vec<Slot> {
    let mut slots = Vec::new();
    for sub in ["filling_line/src", "plant_demo/src"] {
        let path = format!("{dir}/{sub}");
        let Ok(rd) = std::fs::read_dir(&path) else {
            continue;
        };
        let mut names: Vec<_> = rd
            .filter_map(|e| e.ok())
            .map(|e| e.path())
            .filter(|p| p.extension().map(|e| e == "st").unwrap_or(false))
            .collect();
        names.sort();
        for p in names {
            if let Ok(text) = std::fs::read_to_string(&p) {
                slots.push(Slot {
                    variants: vec![text],
                });
            }
        }
    }
    slots
}

const SOUP: [&str; 40] = [
    "PROGRAM", "END_PROGRAM", "FUNCTION", "END_FUNCTION", "FUNCTION_BLOCK", "END_FUNCTION_BLOCK",
    "VAR", "END_VAR", "VAR_INPUT", "VAR_GLOBAL", "VAR_EXTERNAL", "TYPE", "END_TYPE", "STRUCT",
    "END_STRUCT", "NAMESPACE", "END_NAMESPACE", "USING", "IF", "THEN", "END_IF", "CASE", "OF",
    "INT", "BOOL", ":=", ":", ";", "(", ")", "x", "Main", "AddOne", "1", "16#FF", "T#1s", "+",
    ".", "#", "\n",
];

fn soup(rng: &mut Rng) -> String {
    let n = rng.below(30) as usize;
    let mut s = String::new();
    for _ in 0..n {
        s.push_str(*rng.pick(&SOUP[..]));
        s.push(if rng.chance(1, 6) { '\n' } else { ' ' });
    }
    if rng.chance(1, 4) {
        s.push_str("(* unterminated ");
    }
    if rng.chance(1, 4) {
        s.push_str("'é😀\u{0}");
    }
    s
}

/// Generic text mutations (applied on a char boundary).
fn mutate(rng: &mut Rng, text: &str) -> String {
    let lines: Vec<&str> = text.split_inclusive('\n').collect();
    match rng.below(8) {
        0 => {
            // truncate
            let mut cut = rng.below(text.len() as u64 + 1) as usize;
            while !text.is_char_boundary(cut) {
                cut -= 1;
            }
            text[..cut].to_string()
        }
        1 if !lines.is_empty() => {
            let k = rng.below(lines.len() as u64) as usize;
            lines
                .iter()
                .enumerate()
                .filter(|(i, _)| *i != k)
                .map(|(_, l)| *l)
                .collect()
        }
        2 if !lines.is_empty() => {
            let k = rng.below(lines.len() as u64) as usize;
            let mut v: Vec<&str> = lines.clone();
            v.insert(k, lines[k]);
            v.concat()
        }
        3 => format!("{text}\n(* edit {} *)\n", rng.below(4)),
        4 => format!("\n  {text}"),
        5 => text.replace("INT", "DINT"),
        6 => text.replacen(";", " ", 1),
        _ => {
            let mut cut = rng.below(text.len() as u64 + 1) as usize;
            while !text.is_char_boundary(cut) {
                cut -= 1;
            }
            format!("{}{}{}", &text[..cut], *rng.pick(&SOUP[..]), &text[cut..])
        }
    }
}

const TYPE_WORDS: [&str; 12] = [
    "BOOL", "SINT", "DINT", "LINT", "UINT", "REAL", "WORD", "BYTE", "TIME", "INT", "USINT", "UDINT",
];

/// Byte ranges of the identifier-like words of `text`.
fn words_of(text: &str) -> Vec<(usize, usize)> {
    let b = text.as_bytes();
    let mut out = Vec::new();
    let mut i = 0;
    while i < b.len() {
        if b[i].is_ascii_alphabetic() || b[i] == b'_' {
            let start = i;
            while i < b.len() && (b[i].is_ascii_alphanumeric() || b[i] == b'_') {
                i += 1;
            }
            out.push((start, i));
        } else {
            i += 1;
        }
    }
    out
}

/// A user-level name (not a keyword): it has a lower-case letter, or it is an elementary type.
fn is_name(w: &str) -> bool {
    w.bytes().any(|c| c.is_ascii_lowercase()) || TYPE_WORDS.contains(&w)
}

/// An edit that moves NOTHING: one name of the text (one occurrence, or all of them) is replaced by
/// another name of the same length taken from the texts of the case (or an elementary type of that
/// length).  No source range, symbol id, scope or type id changes; only what is keyed or stored by
/// name does (EXTENDS / IMPLEMENTS targets, type references, USING directives, callees, …) — the
/// kind of edit after which "the re-computed value equals the old one" is most easily believed.
fn swap_ident(rng: &mut Rng, text: &str, pool: &Pool) -> Option<String> {
    let mut vocab: Vec<String> = TYPE_WORDS.iter().map(|s| s.to_string()).collect();
    for s in &pool.slots {
        for v in &s.variants {
            for (a, b) in words_of(v) {
                let w = &v[a..b];
                if is_name(w) && !vocab.iter().any(|x| x == w) {
                    vocab.push(w.to_string());
                }
            }
        }
    }
    let spots: Vec<(usize, usize)> = words_of(text)
        .into_iter()
        .filter(|(a, b)| {
            let w = &text[*a..*b];
            is_name(w) && vocab.iter().any(|x| x.len() == w.len() && !x.eq_ignore_ascii_case(w))
        })
        .collect();
    if spots.is_empty() {
        return None;
    }
    let (a, b) = *rng.pick(&spots);
    let old = text[a..b].to_string();
    let cands: Vec<&String> =
        vocab.iter().filter(|x| x.len() == old.len() && !x.eq_ignore_ascii_case(&old)).collect();
    // a candidate that differs in few characters (BaseA / BaseB) is the more plausible typo
    let near: Vec<&String> = cands
        .iter()
        .copied()
        .filter(|x| x.bytes().zip(old.bytes()).filter(|(p, q)| p != q).count() <= 1)
        .collect();
    let new = if !near.is_empty() && rng.chance(2, 3) { (*rng.pick(&near)).clone() } else { (*rng.pick(&cands)).clone() };
    if rng.chance(1, 4) {
        // every occurrence (whole words only)
        let mut out = String::with_capacity(text.len());
        let mut last = 0;
        for (x, y) in words_of(text) {
            if text[x..y] == old {
                out.push_str(&text[last..x]);
                out.push_str(&new);
                last = y;
            }
        }
        out.push_str(&text[last..]);
        Some(out)
    } else {
        Some(format!("{}{}{}", &text[..a], new, &text[b..]))
    }
}

/// The variants of the case that have the SHAPE of `cur` (same length, same line lengths) but another
/// text: going from `cur` to one of them is an edit that moves nothing (e.g. only the name after
/// EXTENDS differs, or only a literal).
fn same_shape_variants<'a>(pool: &'a Pool, cur: &str) -> Vec<&'a String> {
    let shape = |t: &str| t.split('\n').map(|l| l.len()).collect::<Vec<_>>();
    let want = shape(cur);
    pool.slots
        .iter()
        .flat_map(|s| s.variants.iter())
        .filter(|v| v.len() == cur.len() && v.as_str() != cur && shape(v) == want)
        .collect()
}

/// The texts available to one case: per file a slot, plus foreign slots for cross-pollination.
pub struct Pool {
    pub slots: Vec<Slot>,
    pub theme: &'static str,
}

type Theme = (&'static str, fn(&mut Rng) -> Vec<Slot>);

const THEMES: [Theme; 9] = [
    ("func", theme_func),
    ("types", theme_types),
    ("globals", theme_globals),
    ("ns", theme_ns),
    ("oop", theme_oop),
    ("dups", theme_dups),
    ("consts", theme_consts),
    ("inherit", theme_inherit),
    ("rectypes", theme_rectypes),
];

pub fn pick_pool(rng: &mut Rng, corpus: &[Slot]) -> Pool {
    let r = rng.below(26);
    if r < 22 {
        // duplicate names, constant folding, inheritance and recursive types are drawn more often
        // than the other themes
        let idx = [0usize, 1, 2, 3, 4, 5, 6, 7, 8, 0, 1, 2, 3, 4, 5, 6, 7, 8, 5, 6, 7, 8][r as usize];
        let (name, f) = THEMES[idx];
        let mut slots = f(rng);
        if rng.chance(1, 3) {
            // widen with a second theme (up to five files in total)
            let (_, g) = THEMES[rng.below(THEMES.len() as u64) as usize];
            for s in g(rng) {
                if slots.len() < 5 {
                    slots.push(s);
                }
            }
        }
        Pool { slots, theme: name }
    } else if r < 24 && corpus.len() >= 2 {
        // a real example project (or a part of it)
        let start = rng.below(corpus.len() as u64) as usize;
        let n = 2 + rng.below(4) as usize;
        let slots = (0..n)
            .map(|i| Slot {
                variants: corpus[(start + i) % corpus.len()].variants.clone(),
            })
            .collect();
        Pool {
            slots,
            theme: "corpus",
        }
    } else {
        // mixed bag incl. garbage
        let mut slots = Vec::new();
        for _ in 0..(1 + rng.below(5)) {
            let (_, f) = THEMES[rng.below(THEMES.len() as u64) as usize];
            let mut ss = f(rng);
            let k = rng.below(ss.len() as u64) as usize;
            slots.push(ss.swap_remove(k));
        }
        Pool {
            slots,
            theme: "mixed",
        }
    }
}

/// A new text for the file that plays `slot` and currently holds `cur`.
fn next_text(rng: &mut Rng, pool: &Pool, slot: usize, cur: Option<&str>, out: &mut Out) -> String {
    let s = &pool.slots[slot % pool.slots.len()];
    let r = rng.below(100);
    if r < 50 {
        if let Some(c) = cur {
            let same = same_shape_variants(pool, c);
            if !same.is_empty() && rng.chance(1, 3) {
                out.count("text_same_shape_variant");
                return (*rng.pick(&same)).clone();
            }
        }
        out.count("text_variant");
        rng.pick(&s.variants).clone()
    } else if r < 61 {
        out.count("text_mutated");
        let base = cur
            .map(|c| c.to_string())
            .unwrap_or_else(|| rng.pick(&s.variants).clone());
        mutate(rng, &base)
    } else if r < 68 {
        let base = cur
            .map(|c| c.to_string())
            .unwrap_or_else(|| rng.pick(&s.variants).clone());
        match swap_ident(rng, &base, pool) {
            Some(t) => {
                out.count("text_same_length_name_swap");
                t
            }
            None => {
                out.count("text_mutated");
                mutate(rng, &base)
            }
        }
    } else if r < 78 {
        out.count("text_foreign_slot");
        let other = &pool.slots[rng.below(pool.slots.len() as u64) as usize];
        rng.pick(&other.variants).clone()
    } else if r < 86 {
        out.count("text_identical");
        cur.map(|c| c.to_string())
            .unwrap_or_else(|| rng.pick(&s.variants).clone())
    } else if r < 91 {
        out.count("text_empty");
        if rng.bool() {
            String::new()
        } else {
            " \n\t\n".into()
        }
    } else if r < 95 {
        out.count("text_soup");
        soup(rng)
    } else {
        out.count("text_variant");
        s.variants[0].clone()
    }
}

// ------------------------------------------------------------------------------------------------
// Text table of a case
// ------------------------------------------------------------------------------------------------

#[derive(Default)]
pub struct Texts {
    list: Vec<String>,
    index: HashMap<String, usize>,
}

impl Texts {
    fn intern(&mut self, s: &str, out: &mut Out) -> usize {
        if let Some(i) = self.index.get(s) {
            return *i;
        }
        let i = self.list.len();
        self.list.push(s.to_string());
        self.index.insert(s.to_string(), i);
        out.line(format!("text {i} {}", hex(s.as_bytes())));
        i
    }
    fn name(&self, s: &str) -> String {
        match self.index.get(s) {
            Some(i) => i.to_string(),
            None => format!("?{}", hex(s.as_bytes())),
        }
    }
}

fn render_list(v: &[(u32, String)], texts: &Texts) -> String {
    if v.is_empty() {
        return "-".into();
    }
    v.iter()
        .map(|(id, t)| format!("{id}:{}", texts.name(t)))
        .collect::<Vec<_>>()
        .join(",")
}

/// The `impl` line: what the `verif_views()` hook shows.
fn render_view(db: &Database, texts: &Texts) -> String {
    let (src, salsa, proj, rev, synced) = db.verif_views();
    let proj = match proj {
        None => "none".to_string(),
        Some(p) => render_list(&p, texts),
    };
    format!(
        "src={} salsa={} proj={} dirty={}",
        render_list(&src, texts),
        render_list(&salsa, texts),
        proj,
        u8::from(rev != synced)
    )
}

/// What the query read, as far as the hook shows it: `P` (project-keyed query on a file salsa
/// knows), `F:<k>` (per-file query: the text behind the file's input), `D` (unknown file).
fn render_reads(db: &Database, texts: &Texts, kind: Kind, file: u32) -> String {
    let (_, salsa, _, _, _) = db.verif_views();
    match salsa.iter().find(|(id, _)| *id == file) {
        None => "D".into(),
        Some((_, t)) => match kind {
            Kind::Analyze | Kind::Diagnostics | Kind::TypeOf => "P".into(),
            Kind::FileSymbols | Kind::ExprIdAt => format!("F:{}", texts.name(t)),
        },
    }
}

// ------------------------------------------------------------------------------------------------
// The differential oracle (the property's own statement, evaluated on the implementation)
// ------------------------------------------------------------------------------------------------

fn fresh_db(rng: &mut Rng, finals: &BTreeMap<u32, String>) -> Database {
    let mut order: Vec<(&u32, &String)> = finals.iter().collect();
    match rng.below(3) {
        0 => {}
        1 => order.reverse(),
        _ => {
            for i in (1..order.len()).rev() {
                let j = rng.below(i as u64 + 1) as usize;
                order.swap(i, j);
            }
        }
    }
    let mut db = Database::new();
    for (id, text) in order {
        db.set_source_text(FileId(*id), text.clone());
    }
    db
}

struct Verdict {
    fresh: bool,
    repeat: bool,
    panic: bool,
    hash: u64,
    size: usize,
    detail: Option<(String, String)>,
}

/// Asks the database under test (twice) and a fresh database; all under `catch_unwind`.
fn judge(
    db: &Database,
    fresh: &Database,
    kind: Kind,
    file: u32,
    arg: u32,
    ren_inc: &dyn Fn(u32) -> String,
    ren_fresh: &dyn Fn(u32) -> String,
    fresh_file: u32,
    structural: bool,
) -> Verdict {
    let r = catch_unwind(AssertUnwindSafe(|| {
        let a1 = ask(db, kind, FileId(file), arg, !structural);
        let a2 = ask(db, kind, FileId(file), arg, !structural);
        let af = ask(fresh, kind, FileId(fresh_file), arg, !structural);
        (a1, a2, af)
    }));
    match r {
        Err(_) => Verdict {
            fresh: false,
            repeat: false,
            panic: true,
            hash: 0,
            size: 0,
            detail: Some((take_panic(), String::new())),
        },
        Ok((a1, a2, af)) => {
            let (d1, df) = if structural {
                (a1.dump(ren_inc), af.dump(ren_fresh))
            } else {
                (a1.dump_visible(ren_inc), af.dump_visible(ren_fresh))
            };
            // at the Database layer: structural equality of the real values AND of the dumps;
            // at the Project layer ids are renamed, so only the dumps can be compared
            let fresh_ok = d1 == df && (!structural || a1 == af);
            let d2 = if structural { a2.dump(ren_inc) } else { a2.dump_visible(ren_inc) };
            let repeat_ok = a1 == a2 && d1 == d2;
            Verdict {
                fresh: fresh_ok,
                repeat: repeat_ok,
                panic: false,
                hash: fnv(&d1),
                size: a1.size(),
                detail: if fresh_ok { None } else { Some((d1, df)) },
            }
        }
    }
}

// ------------------------------------------------------------------------------------------------
// Stream `db`
// ------------------------------------------------------------------------------------------------

const ID_POOL: [u32; 10] = [0, 1, 2, 3, 4, 5, 7, 10, 11, 4_294_967_295];

fn pick_arg(rng: &mut Rng, kind: Kind, text: Option<&str>, db: &Database, file: u32) -> u32 {
    match kind {
        Kind::TypeOf => {
            // mostly an id the implementation itself hands out, sometimes an arbitrary one
            if rng.chance(3, 4) {
                if let Some(t) = text {
                    if !t.is_empty() {
                        let off = rng.below(t.len() as u64) as u32;
                        if let Ok(Some(id)) = catch_unwind(AssertUnwindSafe(|| {
                            db.expr_id_at_offset(FileId(file), off)
                        })) {
                            return id;
                        }
                    }
                }
            }
            *rng.pick(&[0u32, 1, 2, 3, 5, 8, 13, 40, 4_294_967_295])
        }
        Kind::ExprIdAt => match text {
            Some(t) if !t.is_empty() && rng.chance(7, 8) => rng.below(t.len() as u64 + 2) as u32,
            _ => *rng.pick(&[0u32, 1, 17, 4_294_967_295]),
        },
        _ => 0,
    }
}

/// Operations of a generated Database-layer script (targets are resolved when the op runs).
#[derive(Clone)]
enum DOp {
    /// set a random file of the case (new / edit / re-add / identical, whatever it turns out to be)
    Set,
    /// preload: set the file that plays slot `k`
    SetSlot(usize),
    /// add a file that is currently absent (new or re-add)
    SetAbsent,
    /// edit a file that is currently present
    SetPresent,
    /// edit a present file by a same-length name swap (`swap_ident`): nothing moves
    SetSwap,
    /// remove a random file (mostly a present one)
    Rm,
    /// remove a present file other than the one touched by the previous op
    RmOther,
    /// remove the present file with the lowest id and remember its text …
    RmLowest,
    /// … and add it again with the same text
    SetBack,
    /// 1..3 random queries
    Burst,
    /// project-keyed queries (diagnostics, analyze, then type_of) for every present file and one
    /// absent file, before any per-file query
    ProjSweep,
    /// all kinds over all files of the case and an unknown file, in random order
    FullSweep,
    /// forced operations (recorded witnesses)
    FixedSet(u32, String),
    FixedQ(Kind, u32, u32),
}

/// Motifs: the interleavings in which the double bookkeeping can go stale — a file is added (or
/// re-added) and, *before any project-level query*, another file is edited or removed; a lower-id
/// file is removed and re-added; or a project-level sweep after every single operation.
fn motif_script(rng: &mut Rng, nfiles: usize, steps: usize) -> Vec<DOp> {
    let mut order: Vec<usize> = (0..nfiles).collect();
    for i in (1..order.len()).rev() {
        let j = rng.below(i as u64 + 1) as usize;
        order.swap(i, j);
    }
    let keep = if nfiles > 1 { nfiles - rng.below(2) as usize } else { nfiles };
    let mut script: Vec<DOp> = Vec::new();
    if rng.chance(1, 3) {
        script.push(DOp::ProjSweep); // the project is queried while still empty
    }
    for k in order.into_iter().take(keep) {
        script.push(DOp::SetSlot(k));
        if rng.chance(1, 3) {
            script.push(DOp::ProjSweep);
        }
    }
    script.push(DOp::ProjSweep);
    while script.len() + 1 < steps {
        match rng.below(12) {
            8 | 10 => script.extend([DOp::SetSwap, DOp::ProjSweep]),
            9 => script.extend([DOp::ProjSweep, DOp::SetSwap, DOp::SetSwap, DOp::ProjSweep]),
            11 => script.extend([DOp::SetSwap, DOp::Burst]),
            0 => script.extend([DOp::SetAbsent, DOp::SetPresent, DOp::ProjSweep]),
            1 => script.extend([DOp::SetAbsent, DOp::RmOther, DOp::ProjSweep]),
            2 => script.extend([DOp::RmLowest, DOp::SetBack, DOp::ProjSweep]),
            3 => script.extend([DOp::RmLowest, DOp::ProjSweep, DOp::SetBack, DOp::ProjSweep]),
            4 => script.extend([DOp::SetPresent, DOp::ProjSweep]),
            5 => script.extend([DOp::Rm, DOp::ProjSweep, DOp::SetAbsent, DOp::ProjSweep]),
            6 => script.extend([DOp::SetAbsent, DOp::SetAbsent, DOp::SetPresent, DOp::ProjSweep]),
            _ => script.extend([DOp::Set, DOp::Burst]),
        }
    }
    script.push(DOp::FullSweep);
    script
}

fn random_script(rng: &mut Rng, nfiles: usize, steps: usize) -> Vec<DOp> {
    // an initial load of some of the files, so that most histories start from a project
    let preload = if rng.chance(3, 4) { rng.below(nfiles as u64 + 1) as usize } else { 0 };
    let mut script: Vec<DOp> = (0..preload).map(DOp::SetSlot).collect();
    while script.len() + 1 < steps.max(1) {
        let r = rng.below(100);
        script.push(if r < 36 {
            DOp::Set
        } else if r < 42 {
            DOp::SetSwap
        } else if r < 53 {
            DOp::Rm
        } else {
            DOp::Burst
        });
    }
    script.push(DOp::FullSweep); // every history ends with a sweep over all files and kinds
    script
}

/// Regression case of finding `C13-enum-next-value-overflow` (fixed in /repo by 0bd32a4): before the
/// fix `next_value = value + 1` in `collect_enum_type` overflowed for an enum value of `i64::MAX` and,
/// in the dev profile, every query of the file and every project-level query of every other file
/// panicked.  A panic here is a violation.
fn enum_overflow_witness() -> Vec<DOp> {
    let e = "TYPE\n    E : (A := 9223372036854775807);\nEND_TYPE\n";
    let m = "PROGRAM Main\nVAR\n    x : INT;\nEND_VAR\nx := 1;\nEND_PROGRAM\n";
    vec![
        DOp::FixedSet(2, m.into()),
        DOp::FixedQ(Kind::Diagnostics, 2, 0),
        DOp::FixedSet(1, e.into()),
        DOp::FixedQ(Kind::Diagnostics, 2, 0),
        DOp::FixedQ(Kind::FileSymbols, 1, 0),
    ]
}

struct DbCase<'a> {
    db: Database,
    texts: Texts,
    finals: BTreeMap<u32, String>,
    removed_once: Vec<u32>,
    ever_removed: bool,
    readded: bool,
    queried_before_edit: bool,
    edits_after_query: u32,
    burst_fresh: Option<Database>,
    aborted: bool,
    last_touched: Option<u32>,
    remembered: Option<(u32, String)>,
    out: &'a mut Out,
}

impl DbCase<'_> {
    fn set(&mut self, id: u32, text: String) {
        let ti = self.texts.intern(&text, self.out);
        self.out.line(format!("set {id} {ti}"));
        sync(self.out);
        if self.finals.get(&id) == Some(&text) {
            self.out.count("op_set_identical");
        } else if self.finals.contains_key(&id) {
            self.out.count("op_set_edit");
        } else if self.removed_once.contains(&id) {
            self.out.count("op_set_readd");
            self.readded = true;
        } else {
            self.out.count("op_set_new");
        }
        if self.queried_before_edit {
            self.edits_after_query += 1;
        }
        let db = &mut self.db;
        let r = catch_unwind(AssertUnwindSafe(|| db.set_source_text(FileId(id), text.clone())));
        self.finals.insert(id, text);
        self.burst_fresh = None;
        self.last_touched = Some(id);
        if r.is_err() {
            self.out.line("impl panic");
            self.out.line(format!("#o set {id} 0 fresh=1 repeat=1 panic=1 h=0"));
            self.out.line(format!("#x panic {}", hex(take_panic().as_bytes())));
            self.aborted = true;
            return;
        }
        self.out.line(format!("impl {}", render_view(&self.db, &self.texts)));
    }

    fn rm(&mut self, id: u32) {
        self.out.line(format!("rm {id}"));
        sync(self.out);
        if self.finals.remove(&id).is_some() {
            self.out.count("op_rm_present");
            self.ever_removed = true;
            if !self.removed_once.contains(&id) {
                self.removed_once.push(id);
            }
        } else {
            self.out.count("op_rm_absent");
        }
        if self.queried_before_edit {
            self.edits_after_query += 1;
        }
        let db = &mut self.db;
        let r = catch_unwind(AssertUnwindSafe(|| db.remove_source_text(FileId(id))));
        self.burst_fresh = None;
        self.last_touched = Some(id);
        if r.is_err() {
            self.out.line("impl panic");
            self.out.line(format!("#o rm {id} 0 fresh=1 repeat=1 panic=1 h=0"));
            self.out.line(format!("#x panic {}", hex(take_panic().as_bytes())));
            self.aborted = true;
            return;
        }
        self.out.line(format!("impl {}", render_view(&self.db, &self.texts)));
    }

    /// One query: the hook view as `impl` line (the bookkeeping is observable even if the analysis
    /// panics: queries run outside the state lock), the oracle verdict as `#o` line.
    fn query(&mut self, rng: &mut Rng, kind: Kind, f: u32, arg: u32) {
        self.out.line(format!("q {} {f} {arg}", kind.name()));
        sync(self.out);
        self.out.count(&format!("q_{}", kind.name()));
        if self.finals.contains_key(&f) {
            self.out.count("q_on_present_file");
        } else if self.removed_once.contains(&f) {
            self.out.count("q_on_removed_file");
        } else {
            self.out.count("q_on_unknown_file");
        }
        // strict: a brand-new database for this very query (1 in 3), otherwise the fresh database
        // of the current burst of queries (no edit in between)
        if self.burst_fresh.is_none() || rng.chance(1, 3) {
            let finals = &self.finals;
            match catch_unwind(AssertUnwindSafe(|| fresh_db(rng, finals))) {
                Ok(f) => self.burst_fresh = Some(f),
                Err(_) => {
                    self.out.line("impl panic");
                    self.out.line(format!("#o {} {f} {arg} fresh=1 repeat=1 panic=1 h=0", kind.name()));
                    self.out.line(format!("#x panic {}", hex(take_panic().as_bytes())));
                    self.aborted = true;
                    return;
                }
            }
            self.out.count("fresh_databases");
        }
        let fresh = self.burst_fresh.as_ref().expect("fresh");
        let v = judge(&self.db, fresh, kind, f, arg, &ident, &ident, f, true);
        self.out.line(format!(
            "impl {} reads={}",
            render_view(&self.db, &self.texts),
            render_reads(&self.db, &self.texts, kind, f)
        ));
        self.out.line(format!(
            "#o {} {f} {arg} fresh={} repeat={} panic={} h={:016x}",
            kind.name(),
            u8::from(v.fresh),
            u8::from(v.repeat),
            u8::from(v.panic),
            v.hash
        ));
        if let Some((a, b)) = v.detail {
            if v.panic {
                self.out.line(format!("#x panic {}", hex(a.as_bytes())));
            } else {
                self.out.line(format!("#x inc {}", hex(a.as_bytes())));
                self.out.line(format!("#x fresh {}", hex(b.as_bytes())));
            }
        }
        if v.size > 0 {
            self.out.count("q_nonempty_answer");
            if kind == Kind::TypeOf {
                self.out.count("q_typeof_known_type");
            }
        }
        self.out.count(&format!("files_at_query_{}", self.finals.len()));
        if v.panic {
            self.out.count("q_panicked");
            // the fresh database of the burst may be left half-evaluated: start a new one
            self.burst_fresh = None;
        }
        self.queried_before_edit = true;
    }
}

fn run_db_case(
    n: u64,
    rng: &mut Rng,
    steps: usize,
    corpus: &[Slot],
    out: &mut Out,
    focus: bool,
    forced: Option<Vec<DOp>>,
) {
    let pool = if focus {
        // duplicate global names across files with a user file: where import order is visible
        if rng.chance(2, 3) {
            Pool { slots: theme_dups(rng), theme: "dups" }
        } else {
            Pool { slots: theme_func(rng), theme: "func" }
        }
    } else {
        pick_pool(rng, corpus)
    };
    if forced.is_none() {
        out.count(&format!("theme_{}", pool.theme));
    }
    let nfiles = pool.slots.len().min(5).max(1);
    // distinct file ids in random relative order
    let mut ids: Vec<u32> = Vec::new();
    while ids.len() < nfiles {
        let id = *rng.pick(&ID_POOL);
        if !ids.contains(&id) {
            ids.push(id);
        }
    }
    let ghost = loop {
        let id = *rng.pick(&ID_POOL);
        if !ids.contains(&id) {
            break id;
        }
    };
    out.line(format!("case {n}"));
    out.line("stream db");
    sync(out);
    let script = match forced {
        Some(f) => {
            out.line("tag witness");
            f
        }
        None if focus || rng.chance(2, 5) => {
            out.count("script_motif");
            motif_script(rng, nfiles, steps)
        }
        None => {
            out.count("script_random");
            random_script(rng, nfiles, steps)
        }
    };
    let mut c = DbCase {
        db: Database::new(),
        texts: Texts::default(),
        finals: BTreeMap::new(),
        removed_once: Vec::new(),
        ever_removed: false,
        readded: false,
        queried_before_edit: false,
        edits_after_query: 0,
        burst_fresh: None,
        aborted: false,
        last_touched: None,
        remembered: None,
        out,
    };
    let slot_of = |id: u32| ids.iter().position(|x| *x == id).unwrap_or(0);
    for op in script {
        if c.aborted {
            break;
        }
        let present: Vec<u32> = c.finals.keys().copied().collect();
        let absent: Vec<u32> = ids.iter().copied().filter(|i| !c.finals.contains_key(i)).collect();
        match op {
            DOp::Set | DOp::SetSlot(_) | DOp::SetAbsent | DOp::SetPresent => {
                let id = match op {
                    DOp::SetSlot(k) => ids[k % nfiles],
                    DOp::SetAbsent if !absent.is_empty() => *rng.pick(&absent),
                    DOp::SetPresent if !present.is_empty() => *rng.pick(&present),
                    _ => {
                        if rng.chance(1, 40) {
                            ghost
                        } else {
                            ids[rng.below(nfiles as u64) as usize]
                        }
                    }
                };
                let cur = c.finals.get(&id).cloned();
                let mut text = next_text(rng, &pool, slot_of(id), cur.as_deref(), c.out);
                if matches!(op, DOp::SetPresent) && Some(&text) == cur.as_ref() {
                    // an edit must change the text, otherwise the early return hides the motif
                    text = mutate(rng, &text);
                }
                c.set(id, text);
            }
            DOp::FixedSet(id, text) => c.set(id, text),
            DOp::SetSwap => {
                // the files whose text has a name that can be swapped, in random order
                let mut cands = present.clone();
                for i in (1..cands.len()).rev() {
                    let j = rng.below(i as u64 + 1) as usize;
                    cands.swap(i, j);
                }
                let mut done = false;
                for id in cands {
                    let cur = c.finals.get(&id).cloned().unwrap_or_default();
                    let same = same_shape_variants(&pool, &cur);
                    if !same.is_empty() && rng.chance(2, 3) {
                        let t = (*rng.pick(&same)).clone();
                        c.out.count("text_same_shape_variant");
                        c.set(id, t);
                        done = true;
                        break;
                    }
                    if let Some(t) = swap_ident(rng, &cur, &pool) {
                        c.out.count("text_same_length_name_swap");
                        c.set(id, t);
                        done = true;
                        break;
                    }
                }
                if !done {
                    c.out.count("swap_not_possible");
                }
            }
            DOp::SetBack => {
                if let Some((id, text)) = c.remembered.take() {
                    c.set(id, text);
                }
            }
            DOp::Rm => {
                let r = rng.below(100);
                let id = if r < 75 && !present.is_empty() {
                    *rng.pick(&present)
                } else if r < 90 {
                    ids[rng.below(nfiles as u64) as usize]
                } else {
                    ghost
                };
                c.rm(id);
            }
            DOp::RmOther => {
                let others: Vec<u32> =
                    present.iter().copied().filter(|i| Some(*i) != c.last_touched).collect();
                if !others.is_empty() {
                    let id = *rng.pick(&others);
                    c.rm(id);
                }
            }
            DOp::RmLowest => {
                if let Some(id) = present.first().copied() {
                    c.remembered = c.finals.get(&id).map(|t| (id, t.clone()));
                    c.rm(id);
                }
            }
            DOp::FixedQ(kind, f, arg) => c.query(rng, kind, f, arg),
            DOp::Burst => {
                // a burst of 1..3 queries: which of them is memoised first varies
                for _ in 0..(1 + rng.below(3)) {
                    let kind = *rng.pick(&KINDS);
                    let r = rng.below(100);
                    let f = if r < 80 && !present.is_empty() {
                        *rng.pick(&present)
                    } else if r < 92 {
                        ids[rng.below(nfiles as u64) as usize]
                    } else {
                        ghost
                    };
                    let arg = pick_arg(rng, kind, c.finals.get(&f).map(|s| s.as_str()), &c.db, f);
                    c.query(rng, kind, f, arg);
                    if c.aborted {
                        break;
                    }
                }
            }
            DOp::ProjSweep => {
                c.out.count("proj_sweeps");
                let mut files = present.clone();
                if let Some(a) = absent.first() {
                    files.push(*a);
                }
                for i in (1..files.len()).rev() {
                    let j = rng.below(i as u64 + 1) as usize;
                    files.swap(i, j);
                }
                // project-keyed queries first: no per-file query may materialise a pending file
                for kind in [Kind::Diagnostics, Kind::Analyze] {
                    for f in &files {
                        if rng.chance(3, 4) {
                            c.query(rng, kind, *f, 0);
                        }
                    }
                }
                for f in &files {
                    if rng.chance(1, 2) {
                        let arg =
                            pick_arg(rng, Kind::TypeOf, c.finals.get(f).map(|s| s.as_str()), &c.db, *f);
                        c.query(rng, Kind::TypeOf, *f, arg);
                    }
                }
            }
            DOp::FullSweep => {
                let mut qs: Vec<(Kind, u32, u32)> = Vec::new();
                let mut files: Vec<u32> = ids.clone();
                files.push(ghost);
                for f in files {
                    for kind in KINDS {
                        let reps = if matches!(kind, Kind::TypeOf | Kind::ExprIdAt) { 4 } else { 1 };
                        for _ in 0..reps {
                            let arg = pick_arg(rng, kind, c.finals.get(&f).map(|s| s.as_str()), &c.db, f);
                            qs.push((kind, f, arg));
                        }
                    }
                }
                // random order: which query is memoised first must not matter
                for i in (1..qs.len()).rev() {
                    let j = rng.below(i as u64 + 1) as usize;
                    qs.swap(i, j);
                }
                for (kind, f, arg) in qs {
                    c.query(rng, kind, f, arg);
                    if c.aborted {
                        break;
                    }
                }
            }
        }
    }
    if c.aborted {
        c.out.count("cases_aborted_by_panic");
    }
    // rule: a query was memoised before a later edit, and a file was removed (and ideally re-added)
    if c.edits_after_query >= 1 && c.ever_removed && !c.finals.is_empty() {
        c.out.line("tag nontrivial");
    }
    if c.readded {
        c.out.line("tag readd");
    }
    c.out.line("end");
}

// ------------------------------------------------------------------------------------------------
// Stream `proj` (layer note; reported, not folded into the claim)
// ------------------------------------------------------------------------------------------------

fn key_of(k: usize) -> SourceKey {
    SourceKey::from_virtual(format!("mem:///k{k}.st"))
}

fn key_index(key: &SourceKey) -> Option<usize> {
    let s = key.display();
    s.strip_prefix("mem:///k")?.strip_suffix(".st")?.parse().ok()
}

fn project_ids(p: &Project) -> Vec<(usize, u32)> {
    let mut v: Vec<(usize, u32)> = p
        .sources()
        .iter()
        .filter_map(|(k, id)| key_index(k).map(|i| (i, id.0)))
        .collect();
    v.sort();
    v
}

fn fresh_project(order: &[usize], finals: &BTreeMap<usize, String>) -> Project {
    let mut p = Project::new();
    for k in order {
        if let Some(t) = finals.get(k) {
            p.set_source_text(key_of(*k), t.clone());
        }
    }
    p
}

#[derive(Clone)]
enum POp {
    Set(usize, String),
    Rm(usize),
    /// what `rename_document` does to the project: remove(old); remove(new); set(new, text of old)
    /// (`old == new`: two spellings of one file)
    Ren(usize, usize),
    Q(Kind, usize, Option<u32>),
}

/// The recorded witness of the Project-layer finding (known_findings.json, `C13-project-readd-id-order`):
/// two files define `Conv` with different signatures, a third uses it; removing and re-adding the
/// first file moves it behind the second in file-id order, so the user now sees the other `Conv`.
fn witness_script() -> Vec<POp> {
    let a = "FUNCTION Conv : INT\nVAR_INPUT\n    x : INT;\nEND_VAR\nConv := x;\nEND_FUNCTION\n";
    let b = "FUNCTION Conv : BOOL\nVAR_INPUT\n    x : BOOL;\nEND_VAR\nConv := x;\nEND_FUNCTION\n";
    let c = "PROGRAM User\nVAR\n    a : INT;\nEND_VAR\na := Conv(a);\nEND_PROGRAM\n";
    vec![
        POp::Set(0, a.into()),
        POp::Set(1, b.into()),
        POp::Set(2, c.into()),
        POp::Q(Kind::Diagnostics, 2, Some(0)),
        POp::Rm(0),
        POp::Set(0, a.into()),
        POp::Q(Kind::Diagnostics, 2, Some(0)),
    ]
}

fn run_proj_case(
    n: u64,
    rng: &mut Rng,
    steps: usize,
    corpus: &[Slot],
    out: &mut Out,
    forced: Option<Vec<POp>>,
) {
    // duplicate global names across files half of the time: that is where id order can matter
    let pool = if forced.is_some() || rng.bool() {
        Pool {
            slots: theme_dups(rng),
            theme: "dups",
        }
    } else {
        pick_pool(rng, corpus)
    };
    if forced.is_none() {
        out.count(&format!("proj_theme_{}", pool.theme));
    }
    let nkeys = pool.slots.len().min(5).max(1);
    out.line(format!("case {n}"));
    out.line("stream proj");
    if forced.is_some() {
        out.line("tag witness");
    }
    sync(out);
    let mut texts = Texts::default();
    let mut proj = Project::new();
    let mut finals: BTreeMap<usize, String> = BTreeMap::new();
    let mut readded = false;
    let mut removed: Vec<usize> = Vec::new();
    let mut aborted = false;
    let steps = forced.as_ref().map(|f| f.len()).unwrap_or(steps);
    for step in 0..steps {
        let op = match &forced {
            Some(f) => f[step].clone(),
            None => {
                let r = rng.below(100);
                if step < nkeys && r < 80 || r < 35 {
                    let k = if step < nkeys { step } else { rng.below(nkeys as u64) as usize };
                    POp::Set(k, next_text(rng, &pool, k, finals.get(&k).map(|s| s.as_str()), out))
                } else if r < 52 {
                    POp::Rm(rng.below(nkeys as u64 + 1) as usize) // nkeys = a key never added
                } else if r < 60 {
                    let old = rng.below(nkeys as u64 + 1) as usize;
                    let new = if rng.chance(1, 3) { old } else { rng.below(nkeys as u64) as usize };
                    POp::Ren(old, new)
                } else {
                    POp::Q(*rng.pick(&KINDS), rng.below(nkeys as u64) as usize, None)
                }
            }
        };
        match op {
            POp::Set(k, text) => {
                let ti = texts.intern(&text, out);
                out.line(format!("pset {k} {ti}"));
                sync(out);
                if !finals.contains_key(&k) && removed.contains(&k) {
                    readded = true;
                    out.count("proj_readd");
                }
                let r = catch_unwind(AssertUnwindSafe(|| {
                    proj.set_source_text(key_of(k), text.clone());
                }));
                finals.insert(k, text);
                if r.is_err() {
                    out.line("impl panic");
                    out.line(format!("#p set {k} 0 same_order=1 key_order=1 repeat=1 panic=1 order_differs=0"));
                    out.line(format!("#x panic {}", hex(take_panic().as_bytes())));
                    aborted = true;
                    break;
                }
            }
            POp::Rm(k) => {
                out.line(format!("prm {k}"));
                sync(out);
                if finals.remove(&k).is_some() && !removed.contains(&k) {
                    removed.push(k);
                }
                let r = catch_unwind(AssertUnwindSafe(|| {
                    proj.remove_source(&key_of(k));
                }));
                if r.is_err() {
                    out.line("impl panic");
                    out.line(format!("#p rm {k} 0 same_order=1 key_order=1 repeat=1 panic=1 order_differs=0"));
                    out.line(format!("#x panic {}", hex(take_panic().as_bytes())));
                    aborted = true;
                    break;
                }
            }
            POp::Ren(old, new) => {
                out.line(format!("pren {old} {new}"));
                sync(out);
                out.count(if old == new { "proj_rename_alias" } else { "proj_rename" });
                let r = catch_unwind(AssertUnwindSafe(|| {
                    let Some(id) = proj.file_id_for_key(&key_of(old)) else { return };
                    let text = proj.database().source_text(id).as_ref().clone();
                    proj.remove_source(&key_of(old));
                    proj.remove_source(&key_of(new));
                    proj.set_source_text(key_of(new), text);
                }));
                if let Some(t) = finals.remove(&old) {
                    finals.insert(new, t);
                    if !removed.contains(&old) {
                        removed.push(old);
                    }
                    readded = true;
                }
                if r.is_err() {
                    out.line("impl panic");
                    out.line(format!("#p ren {old} 0 same_order=1 key_order=1 repeat=1 panic=1 order_differs=0"));
                    out.line(format!("#x panic {}", hex(take_panic().as_bytes())));
                    aborted = true;
                    break;
                }
            }
            POp::Q(kind, k, arg) => {
                let Some(fid) = proj.file_id_for_key(&key_of(k)) else {
                    out.line(format!("pq {} {k} 0", kind.name()));
                    out.line(format!(
                        "impl nokey ids={} {}",
                        render_ids(&project_ids(&proj)),
                        render_view(proj.database(), &texts)
                    ));
                    continue;
                };
                let arg = arg.unwrap_or_else(|| {
                    pick_arg(rng, kind, finals.get(&k).map(|s| s.as_str()), proj.database(), fid.0)
                });
                out.line(format!("pq {} {k} {arg}", kind.name()));
                sync(out);
                // (a) fresh project loaded in the order that reproduces the relative id order,
                // (b) fresh project loaded in key order
                let ids = project_ids(&proj);
                let mut by_id: Vec<(u32, usize)> = ids.iter().map(|(k, id)| (*id, *k)).collect();
                by_id.sort();
                let same_order: Vec<usize> = by_id.iter().map(|(_, k)| *k).collect();
                let key_order: Vec<usize> = finals.keys().copied().collect();
                let verdicts = catch_unwind(AssertUnwindSafe(|| {
                    let fa = fresh_project(&same_order, &finals);
                    let fb = fresh_project(&key_order, &finals);
                    let ren = |p: &Project| {
                        let m: HashMap<u32, usize> =
                            project_ids(p).into_iter().map(|(k, id)| (id, k)).collect();
                        move |id: u32| match m.get(&id) {
                            Some(k) => format!("k{k}"),
                            None => format!("?{id}"),
                        }
                    };
                    let ri = ren(&proj);
                    let ra = ren(&fa);
                    let rb = ren(&fb);
                    let ida = fa.file_id_for_key(&key_of(k)).map(|f| f.0).unwrap_or(u32::MAX);
                    let idb = fb.file_id_for_key(&key_of(k)).map(|f| f.0).unwrap_or(u32::MAX);
                    let va = judge(proj.database(), fa.database(), kind, fid.0, arg, &ri, &ra, ida, false);
                    let vb = judge(proj.database(), fb.database(), kind, fid.0, arg, &ri, &rb, idb, false);
                    (va, vb)
                }));
                match verdicts {
                    Err(_) => {
                        out.line("impl panic");
                        out.line(format!(
                            "#p {} {k} {arg} same_order=1 key_order=1 repeat=1 panic=1 order_differs=0",
                            kind.name()
                        ));
                        out.line(format!("#x panic {}", hex(take_panic().as_bytes())));
                        aborted = true;
                        break;
                    }
                    Ok((va, vb)) => {
                        out.line(format!(
                            "impl ids={} {} reads={}",
                            render_ids(&project_ids(&proj)),
                            render_view(proj.database(), &texts),
                            render_reads(proj.database(), &texts, kind, fid.0)
                        ));
                        let order_differs = same_order != key_order;
                        out.line(format!(
                            "#p {} {k} {arg} same_order={} key_order={} repeat={} panic={} order_differs={}",
                            kind.name(),
                            u8::from(va.fresh),
                            u8::from(vb.fresh),
                            u8::from(va.repeat),
                            u8::from(va.panic || vb.panic),
                            u8::from(order_differs)
                        ));
                        out.count("proj_queries");
                        if va.panic || vb.panic {
                            let msg = [&va, &vb]
                                .iter()
                                .filter(|v| v.panic)
                                .filter_map(|v| v.detail.as_ref().map(|d| d.0.clone()))
                                .find(|m| !m.is_empty())
                                .unwrap_or_else(take_panic);
                            out.line(format!("#x panic {}", hex(msg.as_bytes())));
                        }
                        if !va.fresh && !va.panic {
                            out.count("proj_differs_from_fresh_same_order");
                            if let Some((a, b)) = va.detail {
                                out.line(format!("#x inc {}", hex(a.as_bytes())));
                                out.line(format!("#x fresh_same_order {}", hex(b.as_bytes())));
                            }
                        }
                        if !vb.fresh && !vb.panic {
                            out.count("proj_differs_from_fresh_key_order");
                            if let Some((a, b)) = vb.detail {
                                out.line(format!("#x inc {}", hex(a.as_bytes())));
                                out.line(format!("#x fresh_key_order {}", hex(b.as_bytes())));
                            }
                        }
                        if order_differs {
                            out.count("proj_queries_with_permuted_ids");
                        }
                        if va.panic || vb.panic {
                            aborted = true;
                            break;
                        }
                    }
                }
                continue;
            }
        }
        out.line(format!(
            "impl ids={} {}",
            render_ids(&project_ids(&proj)),
            render_view(proj.database(), &texts)
        ));
    }
    if aborted {
        out.count("cases_aborted_by_panic");
    }
    if readded {
        out.line("tag nontrivial");
        out.line("tag readd");
    }
    out.line("end");
}

fn render_ids(ids: &[(usize, u32)]) -> String {
    if ids.is_empty() {
        return "-".into();
    }
    ids.iter()
        .map(|(k, id)| format!("{k}:{id}"))
        .collect::<Vec<_>>()
        .join(",")
}

// ------------------------------------------------------------------------------------------------

/// `--freshq <file>`: answer ONE query in this (brand-new) process on a brand-new database.
/// File: first line `<kind> <fid> <arg>`, then one line `<fid> <hex text>` per file.  Prints
/// `h=<hash of the canonical dump>` (or `panic`).  Used by checks/c13.py to compare sampled answers
/// of the long-running harness process with a process that has no history at all (so that state
/// outside the `Database` object, which an in-process fresh database would share, is seen too).
fn run_freshq(path: &str) -> i32 {
    let Ok(text) = std::fs::read_to_string(path) else {
        eprintln!("cannot read {path}");
        return 2;
    };
    let mut lines = text.lines();
    let head: Vec<&str> = lines.next().unwrap_or("").split_whitespace().collect();
    if head.len() != 3 {
        eprintln!("bad request head");
        return 2;
    }
    let Some(kind) = KINDS.iter().copied().find(|k| k.name() == head[0]) else {
        eprintln!("bad kind");
        return 2;
    };
    let (Ok(fid), Ok(arg)) = (head[1].parse::<u32>(), head[2].parse::<u32>()) else {
        eprintln!("bad numbers");
        return 2;
    };
    let mut db = Database::new();
    for l in lines {
        let w: Vec<&str> = l.split_whitespace().collect();
        if w.len() != 2 {
            continue;
        }
        let Ok(id) = w[0].parse::<u32>() else {
            return 2;
        };
        let Ok(t) = String::from_utf8(crate::util::unhex(w[1])) else {
            return 2;
        };
        db.set_source_text(FileId(id), t);
    }
    let show = std::env::var_os("C13_SHOW").is_some();
    match catch_unwind(AssertUnwindSafe(|| ask(&db, kind, FileId(fid), arg, false).dump(&ident))) {
        Ok(d) => {
            if show {
                print!("{d}");
            }
            println!("h={:016x}", fnv(&d))
        }
        Err(_) => println!("panic"),
    }
    0
}

fn run_lsp_cases(args: &Args, nlsp: u64, steps: usize, out: &mut Out) -> i32 {
    let bin = args
        .extra
        .get("lspbin")
        .cloned()
        .or_else(|| std::env::var("VERIF_LSP_BIN").ok())
        .unwrap_or_else(|| {
            // <root>/.build/cargo/debug/vharness -> <root>/.build/lsp/debug/trust-lsp
            let exe = std::env::current_exe().expect("current_exe");
            exe.parent()
                .and_then(|p| p.parent())
                .and_then(|p| p.parent())
                .map(|p| p.join("lsp").join("debug").join("trust-lsp"))
                .expect("layout")
                .to_string_lossy()
                .to_string()
        });
    if !std::path::Path::new(&bin).exists() {
        eprintln!("trust-lsp binary not found at {bin}");
        return 2;
    }
    let base = args.cases + 2;
    let numbers: Vec<u64> = match args.only {
        Some(n) if n >= base && n < base + nlsp => vec![n],
        Some(_) => Vec::new(),
        None => (base..base + nlsp).collect(),
    };
    let jobs = args.extra_usize("jobs", 4).max(1);
    let seed = args.seed;
    let wsbase = std::env::temp_dir();
    let lsteps = args.extra_usize("lspsteps", steps.min(14));
    let mut results: Vec<(u64, lsp_layer::LspCaseOut)> = std::thread::scope(|sc| {
        let mut handles = Vec::new();
        for j in 0..jobs {
            let mine: Vec<u64> = numbers.iter().copied().skip(j).step_by(jobs).collect();
            let bin = bin.clone();
            let wsbase = wsbase.clone();
            handles.push(sc.spawn(move || {
                mine.into_iter()
                    .map(|n| {
                        let mut rng = Rng::for_case(seed, n);
                        let variants = |slots: Vec<Slot>| slots.into_iter().map(|s| s.variants).collect::<Vec<_>>();
                        let roles = lsp_layer::roles(variants(theme_func(&mut rng)), variants(theme_types(&mut rng)));
                        let (initial, script, witness, config) = if n == base {
                            let (i, s) = lsp_layer::alias_witness();
                            (i, s, 1, None)
                        } else if n == base + 1 {
                            let (i, s) = lsp_layer::symlink_delete_witness();
                            (i, s, 2, None)
                        } else if n == base + 2 {
                            let (i, s, c) = lsp_layer::budget_witness();
                            (i, s, 1, Some(c))
                        } else if rng.chance(1, 4) {
                            // a session under a memory budget: big files, evictions
                            let (c, pads) = lsp_layer::budget_plan(&mut rng, roles.len());
                            let (i, s) = lsp_layer::gen_script(&mut rng, &roles, lsteps, &|r, t| mutate(r, t), &pads);
                            (i, s, 0, Some(c))
                        } else {
                            let (i, s) = lsp_layer::gen_script(&mut rng, &roles, lsteps, &|r, t| mutate(r, t), &[]);
                            (i, s, 0, None)
                        };
                        (n, lsp_layer::run_case(&bin, n, &wsbase, &initial, &script, witness, config.as_deref()))
                    })
                    .collect::<Vec<_>>()
            }));
        }
        handles.into_iter().flat_map(|h| h.join().expect("lsp worker")).collect()
    });
    results.sort_by_key(|(n, _)| *n);
    let mut errors = 0;
    for (_, c) in &results {
        for l in &c.lines {
            out.line(l);
        }
        for (k, v) in &c.stats {
            out.add(k, *v);
        }
        if c.transport_error.is_some() {
            errors += 1;
        }
        out.count("cases_lsp");
    }
    out.add("lsp_sessions_with_transport_error", errors);
    0
}

/// The Database- and Project-layer cases with number >= `from` (and the two recorded witnesses).
fn run_hir_cases(args: &Args, out: &mut Out, from: u64) {
    let steps = args.extra_usize("steps", 25);
    let proj_every = args.extra_usize("projevery", 5).max(2) as u64;
    // `--focus 1`: follow-up search after a broken tie (duplicate global names, out-of-order ids,
    // add->edit->query / add->remove->query / remove->re-add interleavings, sweeps between the ops)
    let focus = args.extra_usize("focus", 0) != 0;
    let corpus_dir = args
        .extra
        .get("corpus")
        .cloned()
        .unwrap_or_else(|| "/repo/examples".to_string());
    let corpus = corpus_slots(&corpus_dir);
    if from == 0 {
        out.add("corpus_files", corpus.len() as u64);
    }
    // panics are observables here; keep stderr quiet but remember the last message
    std::panic::set_hook(Box::new(|info| {
        let mut g = LAST_PANIC.lock().unwrap_or_else(|e| e.into_inner());
        *g = info.to_string();
    }));
    for n in args.case_numbers() {
        if n < from || n >= args.cases {
            continue; // (`--only` may name a witness or an LSP session)
        }
        let mut rng = Rng::for_case(args.seed, n);
        if !focus && n % proj_every == proj_every - 1 {
            run_proj_case(n, &mut rng, steps, &corpus, out, None);
            out.count("cases_proj");
        } else {
            run_db_case(n, &mut rng, steps, &corpus, out, focus, None);
            out.count("cases_db");
        }
        out.count("cases");
        sync(out);
    }
    // the recorded witness of the Project-layer finding runs last (case number = `--cases`)
    if (args.only.is_none() || args.only == Some(args.cases)) && from <= args.cases {
        let mut rng = Rng::for_case(args.seed, args.cases);
        run_proj_case(args.cases, &mut rng, 0, &corpus, out, Some(witness_script()));
        out.count("cases_witness");
    }
    // … and the regression case of the (fixed) enum-value overflow (case number = `--cases` + 1)
    if (args.only.is_none() || args.only == Some(args.cases + 1)) && from <= args.cases + 1 {
        let mut rng = Rng::for_case(args.seed, args.cases + 1);
        run_db_case(args.cases + 1, &mut rng, 0, &corpus, out, false, Some(enum_overflow_witness()));
        out.count("cases_witness");
    }
    sync(out);
    let _ = std::panic::take_hook();
}

/// Seconds without a line from the worker after which it is taken to hang.
const WATCHDOG_S: u64 = 180;

/// What the supervising process writes for an operation that killed the worker: an `impl abort`
/// line if the operation was announced but not answered, and the oracle line (`panic=1`).
fn abort_record(case_lines: &[String], cause: &str) -> Vec<String> {
    let mut last_op: Option<(usize, &String)> = None;
    let mut answered = false;
    let mut proj = false;
    for (i, l) in case_lines.iter().enumerate() {
        if l == "stream proj" {
            proj = true;
        }
        let head = l.split(' ').next().unwrap_or("");
        if matches!(head, "set" | "rm" | "q" | "pset" | "prm" | "pren" | "pq") {
            last_op = Some((i, l));
            answered = false;
        } else if head == "impl" {
            answered = true;
        }
    }
    let mut v = Vec::new();
    let w: Vec<&str> = match last_op {
        Some((_, l)) if !answered => l.split(' ').collect(),
        _ => Vec::new(),
    };
    if !w.is_empty() {
        v.push("impl abort".to_string());
    }
    let g = |i: usize| w.get(i).copied().unwrap_or("0");
    let (kind, f, arg) = match w.first().copied() {
        Some("q") | Some("pq") => (g(1), g(2), g(3)),
        Some("set") | Some("pset") => ("set", g(1), "0"),
        Some("rm") | Some("prm") => ("rm", g(1), "0"),
        Some("pren") => ("ren", g(1), "0"),
        _ => ("between-operations", "0", "0"),
    };
    if proj {
        v.push(format!("#p {kind} {f} {arg} same_order=1 key_order=1 repeat=1 panic=1 order_differs=0"));
    } else {
        v.push(format!("#o {kind} {f} {arg} fresh=1 repeat=1 panic=1 h=0"));
    }
    v.push(format!("#x panic {}", hex(cause.as_bytes())));
    v.push("tag aborted".to_string());
    v.push("end".to_string());
    v
}

/// Runs the Database/Project cases in a WORKER process (`vharness c13 --worker 1 --from n …`, same
/// seed, same cases) and copies its lines.  A query that recurses without bound, or allocates
/// without bound, does not unwind: the process dies (SIGABRT / SIGSEGV / SIGKILL), which
/// `catch_unwind` cannot see.  The worker hands every operation line over before it runs the
/// operation, so when it dies (or stays silent for `WATCHDOG_S`) the supervisor knows the case and
/// the operation, records it as a failed judgement (`impl abort`, `#o … panic=1`, `#x panic process
/// died …`) and starts a new worker at the next case.
fn supervise(args: &Args, out: &mut Out) -> Result<(), String> {
    use std::io::{BufRead, BufReader, Read};
    use std::process::{Command, Stdio};
    let exe = std::env::current_exe().map_err(|e| format!("current_exe: {e}"))?;
    let last_case = args.cases + 1;
    let mut from = 0u64;
    let mut aborts = 0u64;
    loop {
        let mut cmd = Command::new(&exe);
        cmd.arg("c13")
            .args(["--seed", &args.seed.to_string(), "--cases", &args.cases.to_string()])
            .args(["--worker", "1", "--from", &from.to_string()]);
        if let Some(o) = args.only {
            cmd.args(["--only", &o.to_string()]);
        }
        for (k, v) in &args.extra {
            if !matches!(k.as_str(), "worker" | "from" | "lsp" | "jobs" | "inproc") {
                cmd.arg(format!("--{k}")).arg(v);
            }
        }
        let mut child = cmd
            .stdin(Stdio::null())
            .stdout(Stdio::piped())
            .stderr(Stdio::piped())
            .spawn()
            .map_err(|e| format!("spawn worker: {e}"))?;
        let stdout = child.stdout.take().expect("stdout");
        let mut stderr = child.stderr.take().expect("stderr");
        let (tx, rx) = std::sync::mpsc::channel::<String>();
        let reader = std::thread::spawn(move || {
            for l in BufReader::new(stdout).lines() {
                match l {
                    Ok(l) => {
                        if tx.send(l).is_err() {
                            break;
                        }
                    }
                    Err(_) => break,
                }
            }
        });
        let errs = std::thread::spawn(move || {
            let mut s = String::new();
            let _ = stderr.read_to_string(&mut s);
            s
        });
        let mut lines: Vec<String> = Vec::new();
        let mut stats: Option<BTreeMap<String, u64>> = None;
        let mut hung = false;
        loop {
            match rx.recv_timeout(std::time::Duration::from_secs(WATCHDOG_S)) {
                Ok(l) => {
                    if let Some(j) = l.strip_prefix("#stats ") {
                        stats = serde_json::from_str(j).ok();
                    } else {
                        lines.push(l);
                    }
                }
                Err(std::sync::mpsc::RecvTimeoutError::Timeout) => {
                    hung = true;
                    let _ = child.kill();
                    break;
                }
                Err(std::sync::mpsc::RecvTimeoutError::Disconnected) => break,
            }
        }
        let status = child.wait().map_err(|e| format!("wait: {e}"))?;
        let _ = reader.join();
        let err_text = errs.join().unwrap_or_default();
        if status.success() && !hung {
            if let Some(st) = stats {
                for l in &lines {
                    out.line(l);
                }
                for (k, v) in st {
                    out.add(&k, v);
                }
                return Ok(());
            }
        }
        // the worker died: which case, which operation
        aborts += 1;
        out.count("worker_processes_died");
        let Some(start) = lines.iter().rposition(|l| l.starts_with("case ")) else {
            return Err(format!("worker died before its first case ({status}): {}", tail(&err_text, 400)));
        };
        let n: u64 = lines[start]
            .split(' ')
            .nth(1)
            .and_then(|x| x.parse().ok())
            .ok_or("worker wrote a malformed case line")?;
        let complete = lines[start..].iter().any(|l| l == "end");
        let cause = format!(
            "process died ({}): {}",
            if hung { format!("no output for {WATCHDOG_S} s, killed") } else { describe_status(&status) },
            tail(err_text.trim(), 300)
        );
        if complete {
            // died between two cases: nothing to attribute, but never silently
            for l in &lines {
                out.line(l);
            }
            return Err(format!("worker died after case {n}: {cause}"));
        }
        for l in &lines {
            out.line(l);
        }
        for l in abort_record(&lines[start..], &cause) {
            out.line(l);
        }
        from = n + 1;
        if args.only.is_some() || from > last_case {
            return Ok(());
        }
        if aborts >= 25 {
            out.count("supervisor_gave_up_after_25_dead_workers");
            return Ok(());
        }
    }
}

fn tail(s: &str, n: usize) -> String {
    let mut cut = s.len().saturating_sub(n);
    while !s.is_char_boundary(cut) {
        cut += 1;
    }
    s[cut..].to_string()
}

fn describe_status(status: &std::process::ExitStatus) -> String {
    #[cfg(unix)]
    {
        use std::os::unix::process::ExitStatusExt;
        if let Some(sig) = status.signal() {
            return format!("signal {sig}");
        }
    }
    format!("{status}")
}

pub fn run(args: &Args) -> i32 {
    if let Some(path) = args.extra.get("freshq") {
        return run_freshq(path);
    }
    let mut out = Out::new();
    if args.extra.contains_key("worker") {
        // worker process of `supervise`: lines go to stdout as they are produced, statistics last
        WORKER.store(true, std::sync::atomic::Ordering::Relaxed);
        let from = args.extra.get("from").and_then(|v| v.parse().ok()).unwrap_or(0);
        run_hir_cases(args, &mut out, from);
        println!("#stats {}", serde_json::to_string(&out.stats).expect("stats"));
        return 0;
    }
    let steps = args.extra_usize("steps", 25);
    if args.extra_usize("inproc", 0) != 0 {
        run_hir_cases(args, &mut out, 0);
    } else if let Err(e) = supervise(args, &mut out) {
        eprintln!("c13: {e}");
        out.finish(&args.out);
        return 3;
    }
    // third layer: sessions with the real trust-lsp binary (case numbers from `--cases` + 2; the
    // first one is the fixed aliasing-rename regression case)
    let nlsp = args.extra_usize("lsp", 0) as u64;
    if nlsp > 0 {
        let code = run_lsp_cases(args, nlsp, steps, &mut out);
        if code != 0 {
            return code;
        }
    }
    out.finish(&args.out);
    0
}
