//! C13, third layer: the LSP document layer (`crates/trust-lsp/src/state/documents.rs`, one of the
//! property's anchor files), driven through the REAL `trust-lsp` binary over stdio.
//!
//! One case = one session on a small multi-file workspace with cross-file references.  The history
//! is made of the editor/file-system events that reach `documents.rs`: didOpen / didChange (full
//! text) / didSave / didClose, workspace/willRenameFiles + didRenameFiles (ordinary renames, and
//! *aliasing* renames whose old and new URI are different strings for the same file: `%2E`
//! percent-encoding, a symlinked directory, both), didCreateFiles / didDeleteFiles,
//! didChangeWatchedFiles (CREATED / CHANGED / DELETED).  The harness keeps the truth an editor and a
//! disk would have (files on disk, open buffers, the URI under which the server knows each file).
//!
//! Oracle (the property's own statement, on the implementation): at the end of the history — and
//! at one point in the middle — pull diagnostics, documentSymbol and hover answers for every file
//! must equal those of a FRESH server started on the same directory (same on-disk state) that got
//! one didOpen per open buffer.  Lines `#L <file> <kind> ok|FAIL`, read by checks/c13.py.
//!
//! The stdio client is the one of harness/src/c14.rs (`mod lsp`, private there), copied.

use crate::rng::Rng;
use crate::util::hex;
use serde_json::{json, Value};
use std::collections::BTreeMap;
use std::io::{BufRead, BufReader, Write};
use std::path::{Path, PathBuf};
use std::process::{Child, ChildStdin, Command, Stdio};
use std::sync::mpsc::{channel, Receiver};
use std::time::Duration;

// ------------------------------------------------------------------------------------------------
// LSP client over stdio (after harness/src/c14.rs)
// ------------------------------------------------------------------------------------------------

const REQUEST_TIMEOUT_S: u64 = 15;

pub struct Lsp {
    child: Child,
    stdin: Option<ChildStdin>,
    rx: Receiver<Value>,
    next_id: i64,
    dead: bool,
    stopped: bool,
}

fn read_message(r: &mut impl BufRead) -> Option<Value> {
    let mut len: Option<usize> = None;
    loop {
        let mut line = String::new();
        if r.read_line(&mut line).ok()? == 0 {
            return None;
        }
        let t = line.trim();
        if t.is_empty() {
            break;
        }
        if let Some(v) = t.to_ascii_lowercase().strip_prefix("content-length:") {
            len = v.trim().parse().ok();
        }
    }
    let mut body = vec![0u8; len?];
    r.read_exact(&mut body).ok()?;
    serde_json::from_slice(&body).ok()
}

impl Lsp {
    /// Starts the server on workspace folder `root` and returns after the background indexing pass
    /// that `initialized` starts has finished (the server then asks the client to refresh diagnostics).
    pub fn start(bin: &str, root: &str) -> Result<Lsp, String> {
        let mut child = Command::new(bin)
            .stdin(Stdio::piped())
            .stdout(Stdio::piped())
            .stderr(if std::env::var_os("C13_LSP_STDERR").is_some() { Stdio::inherit() } else { Stdio::null() })
            .spawn()
            .map_err(|e| format!("spawn {bin}: {e}"))?;
        let stdin = child.stdin.take().unwrap();
        let stdout = child.stdout.take().unwrap();
        let (tx, rx) = channel();
        std::thread::spawn(move || {
            let mut r = BufReader::new(stdout);
            while let Some(v) = read_message(&mut r) {
                if tx.send(v).is_err() {
                    break;
                }
            }
        });
        let mut l = Lsp { child, stdin: Some(stdin), rx, next_id: 0, dead: false, stopped: false };
        let caps = json!({"workspace": {"diagnostic": {"refreshSupport": true},
                                         "fileOperations": {"willRename": true, "didRename": true,
                                                            "didCreate": true, "didDelete": true}},
                          "textDocument": {"diagnostic": {}, "hover": {"contentFormat": ["markdown", "plaintext"]}}});
        l.request(
            "initialize",
            json!({"processId": null, "rootUri": format!("file://{root}"), "capabilities": caps}),
        )?;
        l.notify("initialized", json!({}))?;
        l.wait_for("workspace/diagnostic/refresh")?;
        Ok(l)
    }

    fn incoming(&mut self, m: Value) -> Result<(), String> {
        if let Some(rid) = m.get("id") {
            // server -> client request: answer null
            let reply = json!({"jsonrpc": "2.0", "id": rid.clone(), "result": null});
            self.send(&reply)?;
        }
        Ok(())
    }

    pub fn wait_for(&mut self, method: &str) -> Result<(), String> {
        loop {
            if self.dead {
                return Err(format!("waiting for {method}: server is dead"));
            }
            let m = match self.rx.recv_timeout(Duration::from_secs(REQUEST_TIMEOUT_S)) {
                Ok(m) => m,
                Err(e) => {
                    self.dead = true;
                    return Err(format!("waiting for {method}: {e}"));
                }
            };
            let hit = m.get("method").and_then(Value::as_str) == Some(method);
            if m.get("method").is_some() {
                self.incoming(m)?;
            }
            if hit {
                return Ok(());
            }
        }
    }

    fn send(&mut self, v: &Value) -> Result<(), String> {
        let body = serde_json::to_vec(v).unwrap();
        let head = format!("Content-Length: {}\r\n\r\n", body.len());
        let stdin = self.stdin.as_mut().ok_or("stdin closed")?;
        stdin.write_all(head.as_bytes()).map_err(|e| e.to_string())?;
        stdin.write_all(&body).map_err(|e| e.to_string())?;
        stdin.flush().map_err(|e| e.to_string())
    }

    pub fn notify(&mut self, method: &str, params: Value) -> Result<(), String> {
        self.send(&json!({"jsonrpc": "2.0", "method": method, "params": params}))
    }

    /// Result of the request; a JSON-RPC error becomes `{"rpc-error": code}`.
    pub fn request(&mut self, method: &str, params: Value) -> Result<Value, String> {
        self.next_id += 1;
        let id = self.next_id;
        self.send(&json!({"jsonrpc": "2.0", "id": id, "method": method, "params": params}))?;
        loop {
            if self.dead {
                return Err(format!("no answer to {method}: server is dead"));
            }
            let m = match self.rx.recv_timeout(Duration::from_secs(REQUEST_TIMEOUT_S)) {
                Ok(m) => m,
                Err(e) => {
                    self.dead = true;
                    return Err(format!("no answer to {method}: {e}"));
                }
            };
            if m.get("method").is_some() {
                self.incoming(m)?;
                continue;
            }
            if m.get("id").and_then(Value::as_i64) == Some(id) {
                if let Some(e) = m.get("error") {
                    return Ok(json!({"rpc-error": e.get("code").cloned().unwrap_or(Value::Null)}));
                }
                return Ok(m.get("result").cloned().unwrap_or(Value::Null));
            }
        }
    }

    pub fn shutdown(&mut self) {
        if self.stopped {
            return;
        }
        self.stopped = true;
        if self.dead {
            let _ = self.child.kill();
            let _ = self.child.wait();
            return;
        }
        let _ = self.request("shutdown", Value::Null);
        let _ = self.notify("exit", Value::Null);
        // tokio's stdin reader keeps the process alive until the pipe is closed
        self.stdin = None;
        for _ in 0..400 {
            if let Ok(Some(_)) = self.child.try_wait() {
                return;
            }
            std::thread::sleep(Duration::from_millis(5));
        }
        let _ = self.child.kill();
        let _ = self.child.wait();
    }
}

impl Drop for Lsp {
    fn drop(&mut self) {
        self.shutdown();
    }
}

// ------------------------------------------------------------------------------------------------
// Padding: the memory budget of the document layer is counted in MiB, so sessions that exercise it
// need files of several hundred kB.  A padded text is `<text><PAD>` with PAD = one trailing comment
// `(*~~~…~*)`; it is logged as `<hex of text> pad=<n>`.
// ------------------------------------------------------------------------------------------------

pub fn padded(text: &str, n: usize) -> String {
    if n == 0 {
        return text.to_string();
    }
    format!("{text}(*{}*)\n", "~".repeat(n))
}

/// `(text without the padding, length of the padding)`.
fn split_pad(text: &str) -> (&str, usize) {
    if let Some(body) = text.strip_suffix("*)\n") {
        let run = body.bytes().rev().take_while(|b| *b == b'~').count();
        if run >= 1000 && body[..body.len() - run].ends_with("(*") {
            return (&text[..body.len() - run - 2], run);
        }
    }
    (text, 0)
}

/// Hex of a text for the `#l` lines, the padding written as ` pad=<n>`.
fn lhex(text: &str) -> String {
    match split_pad(text) {
        (_, 0) => hex(text.as_bytes()),
        (base, n) => format!("{} pad={n}", hex(base.as_bytes())),
    }
}

// ------------------------------------------------------------------------------------------------
// The world as editor and disk know it
// ------------------------------------------------------------------------------------------------

#[derive(Clone, Copy, PartialEq, Eq, Debug)]
pub enum Alias {
    /// `file://<root>/src/<name>`
    Canonical,
    /// the last `.` of the file name written `%2E`
    Percent,
    /// through the symbolic link `<root>/alias -> src`
    Symlink,
    /// both
    SymlinkPercent,
}

impl Alias {
    fn tag(self) -> &'static str {
        match self {
            Alias::Canonical => "canonical",
            Alias::Percent => "pct",
            Alias::Symlink => "symlink",
            Alias::SymlinkPercent => "symlink+pct",
        }
    }
}

#[derive(Clone)]
struct OpenDoc {
    text: String,
    version: i32,
}

struct World {
    root: PathBuf,
    /// file name -> text on disk (all files live in `<root>/src`)
    disk: BTreeMap<String, String>,
    /// file name -> open buffer
    open: BTreeMap<String, OpenDoc>,
    /// file name -> the spelling of its URI under which the server was last told about it
    alias: BTreeMap<String, Alias>,
}

impl World {
    fn path(&self, name: &str) -> PathBuf {
        self.root.join("src").join(name)
    }
    fn uri_as(&self, name: &str, a: Alias) -> String {
        let dir = match a {
            Alias::Canonical | Alias::Percent => "src",
            Alias::Symlink | Alias::SymlinkPercent => "alias",
        };
        let file = match a {
            Alias::Canonical | Alias::Symlink => name.to_string(),
            Alias::Percent | Alias::SymlinkPercent => match name.rfind('.') {
                Some(i) => format!("{}%2E{}", &name[..i], &name[i + 1..]),
                None => name.to_string(),
            },
        };
        format!("file://{}/{dir}/{file}", self.root.display())
    }
    fn uri(&self, name: &str) -> String {
        self.uri_as(name, self.alias.get(name).copied().unwrap_or(Alias::Canonical))
    }
    fn write(&mut self, name: &str, text: &str) {
        std::fs::write(self.path(name), text).expect("write workspace file");
        self.disk.insert(name.to_string(), text.to_string());
    }
    /// Every file of the final state: on disk or open.
    fn files(&self) -> Vec<String> {
        let mut v: Vec<String> = self.disk.keys().cloned().collect();
        for k in self.open.keys() {
            if !v.contains(k) {
                v.push(k.clone());
            }
        }
        v.sort();
        v
    }
    fn current_text(&self, name: &str) -> Option<&str> {
        self.open
            .get(name)
            .map(|d| d.text.as_str())
            .or_else(|| self.disk.get(name).map(|s| s.as_str()))
    }
}

// ------------------------------------------------------------------------------------------------
// Texts: a well-formed project (every global name is defined in exactly one file — the Project-layer
// finding about duplicate names and file-id order is not what this layer is about)
// ------------------------------------------------------------------------------------------------

pub struct Role {
    pub file: &'static str,
    pub variants: Vec<String>,
}

pub fn roles(func: Vec<Vec<String>>, types: Vec<Vec<String>>) -> Vec<Role> {
    let take = |v: &Vec<String>, n: usize| v.iter().take(n).cloned().collect::<Vec<_>>();
    vec![
        Role { file: "lib.st", variants: func[0].clone() },
        Role { file: "main.st", variants: func[1].clone() },
        // only the variants of `Aux` that define nothing else
        Role { file: "aux.st", variants: take(&func[2], 3) },
        Role { file: "types.st", variants: types[0].clone() },
        Role { file: "pump.st", variants: types[1].clone() },
        Role { file: "plant.st", variants: types[2].clone() },
    ]
}

// ------------------------------------------------------------------------------------------------
// Operations
// ------------------------------------------------------------------------------------------------

#[derive(Clone, Debug)]
pub enum LOp {
    Open(String),
    Change(String, String),
    /// save (buffer -> disk, didSave, watcher CHANGED) and close
    SaveClose(String),
    /// rename on disk to a name that does not exist; `will`: ask willRenameFiles first;
    /// `watch`: the watcher reports DELETED(old) + CREATED(new) afterwards
    Rename { from: String, to: String, will: bool, watch: bool },
    /// didRenameFiles between two spellings of the same file (nothing happens on disk)
    AliasRename { name: String, to: Alias, will: bool },
    Create(String, String),
    Delete(String),
    ExternalEdit(String, String),
    /// judge every file against a fresh server
    Judge,
}

pub struct LspCaseOut {
    pub lines: Vec<String>,
    pub stats: Vec<(String, u64)>,
    pub transport_error: Option<String>,
}

struct Sess<'a> {
    l: Lsp,
    w: World,
    /// known finding C13-lsp-symlink-stale-key: a file the server knows through the symbolic link is
    /// not deleted / renamed away (the witness case sets this to walk into exactly that)
    allow_symlink_removal: bool,
    /// `trust-lsp.toml` of the workspace when the session runs under a memory budget
    /// (`[indexing] memory_budget_mb`): closed documents are then evicted, least recently used
    /// first, and an evicted file leaves the analysis until something loads it again
    config: Option<String>,
    lines: &'a mut Vec<String>,
    stats: &'a mut Vec<(String, u64)>,
}

fn td(uri: &str) -> Value {
    json!({"textDocument": {"uri": uri}})
}

impl Sess<'_> {
    fn via_symlink(&self, name: &str) -> bool {
        matches!(self.w.alias.get(name), Some(Alias::Symlink | Alias::SymlinkPercent))
    }
    fn count(&mut self, k: &str) {
        self.stats.push((k.to_string(), 1));
    }
    /// A request after a notification: the server has handled the notification when it answers.
    fn barrier(&mut self, uri: &str) -> Result<(), String> {
        self.l.request("trust-lsp/verifDocumentText", json!({ "uri": uri })).map(|_| ())
    }
    fn watched(&mut self, changes: &[(String, u8)]) -> Result<(), String> {
        let arr: Vec<Value> = changes.iter().map(|(u, t)| json!({"uri": u, "type": t})).collect();
        self.l.notify("workspace/didChangeWatchedFiles", json!({ "changes": arr }))
    }

    fn apply(&mut self, op: &LOp) -> Result<(), String> {
        match op {
            LOp::Open(name) => {
                let Some(text) = self.w.disk.get(name).cloned() else { return Ok(()) };
                if self.w.open.contains_key(name) {
                    return Ok(());
                }
                let uri = self.w.uri(name);
                self.lines.push(format!("#l open {name} as={}", self.w.alias.get(name).copied().unwrap_or(Alias::Canonical).tag()));
                self.l.notify(
                    "textDocument/didOpen",
                    json!({"textDocument": {"uri": uri, "languageId": "structured-text", "version": 1, "text": text}}),
                )?;
                self.w.open.insert(name.clone(), OpenDoc { text, version: 1 });
                self.count("lsp_open");
                self.barrier(&uri)
            }
            LOp::Change(name, text) => {
                let uri = self.w.uri(name);
                let Some(doc) = self.w.open.get_mut(name) else { return Ok(()) };
                doc.version += 1;
                doc.text = text.clone();
                let version = doc.version;
                self.lines.push(format!("#l change {name} {}", lhex(text)));
                self.l.notify(
                    "textDocument/didChange",
                    json!({"textDocument": {"uri": uri, "version": version}, "contentChanges": [{"text": text}]}),
                )?;
                self.count("lsp_change");
                self.barrier(&uri)
            }
            LOp::SaveClose(name) => {
                let Some(doc) = self.w.open.get(name).cloned() else { return Ok(()) };
                let uri = self.w.uri(name);
                let existed = self.w.disk.contains_key(name);
                self.lines.push(format!("#l saveclose {name}"));
                self.w.write(name, &doc.text);
                self.l.notify("textDocument/didSave", json!({"textDocument": {"uri": uri}, "text": doc.text}))?;
                self.watched(&[(uri.clone(), if existed { 2 } else { 1 })])?;
                self.barrier(&uri)?;
                self.l.notify("textDocument/didClose", td(&uri))?;
                self.w.open.remove(name);
                self.count("lsp_saveclose");
                self.barrier(&uri)
            }
            LOp::Rename { from, to, will, watch } => {
                if !self.w.disk.contains_key(from) || self.w.disk.contains_key(to) || self.w.open.contains_key(to) {
                    return Ok(());
                }
                if self.via_symlink(from) && !self.allow_symlink_removal {
                    return Err("generator bug: rename of a file known through the symbolic link".into());
                }
                let old_uri = self.w.uri(from);
                let new_uri = self.w.uri_as(to, Alias::Canonical);
                let files = json!({"files": [{"oldUri": old_uri, "newUri": new_uri}]});
                self.lines.push(format!(
                    "#l rename {from} -> {to} open={} will={} watch={}",
                    u8::from(self.w.open.contains_key(from)),
                    u8::from(*will),
                    u8::from(*watch)
                ));
                if *will {
                    let _ = self.l.request("workspace/willRenameFiles", files.clone())?;
                }
                std::fs::rename(self.w.path(from), self.w.path(to)).map_err(|e| format!("rename: {e}"))?;
                let text = self.w.disk.remove(from).expect("disk text");
                self.w.disk.insert(to.clone(), text);
                if let Some(doc) = self.w.open.remove(from) {
                    self.w.open.insert(to.clone(), doc);
                    self.count("lsp_rename_open");
                } else {
                    self.count("lsp_rename_closed");
                }
                self.w.alias.remove(from);
                self.w.alias.insert(to.clone(), Alias::Canonical);
                self.l.notify("workspace/didRenameFiles", files)?;
                self.barrier(&new_uri)?;
                if *watch {
                    let old_canonical = self.w.uri_as(from, Alias::Canonical);
                    self.watched(&[(old_canonical, 3), (new_uri.clone(), 1)])?;
                    self.barrier(&new_uri)?;
                }
                Ok(())
            }
            LOp::AliasRename { name, to, will } => {
                if self.w.current_text(name).is_none() || !self.w.disk.contains_key(name) {
                    return Ok(());
                }
                let from = self.w.alias.get(name).copied().unwrap_or(Alias::Canonical);
                if from == *to {
                    return Ok(());
                }
                let old_uri = self.w.uri(name);
                let new_uri = self.w.uri_as(name, *to);
                let files = json!({"files": [{"oldUri": old_uri, "newUri": new_uri}]});
                self.lines.push(format!(
                    "#l aliasrename {name} {} -> {} open={} will={}",
                    from.tag(),
                    to.tag(),
                    u8::from(self.w.open.contains_key(name)),
                    u8::from(*will)
                ));
                if *will {
                    let _ = self.l.request("workspace/willRenameFiles", files.clone())?;
                }
                self.l.notify("workspace/didRenameFiles", files)?;
                self.w.alias.insert(name.clone(), *to);
                self.count(if self.w.open.contains_key(name) { "lsp_aliasrename_open" } else { "lsp_aliasrename_closed" });
                self.barrier(&new_uri)
            }
            LOp::Create(name, text) => {
                if self.w.disk.contains_key(name) || self.w.open.contains_key(name) {
                    return Ok(());
                }
                self.lines.push(format!("#l create {name} {}", lhex(text)));
                self.w.write(name, text);
                self.w.alias.insert(name.clone(), Alias::Canonical);
                let uri = self.w.uri(name);
                self.l.notify("workspace/didCreateFiles", json!({"files": [{"uri": uri}]}))?;
                self.watched(&[(uri.clone(), 1)])?;
                self.count("lsp_create");
                self.barrier(&uri)
            }
            LOp::Delete(name) => {
                if !self.w.disk.contains_key(name) || self.w.open.contains_key(name) {
                    return Ok(());
                }
                if self.via_symlink(name) && !self.allow_symlink_removal {
                    return Err("generator bug: delete of a file known through the symbolic link".into());
                }
                let uri = self.w.uri(name);
                let canonical = self.w.uri_as(name, Alias::Canonical);
                self.lines.push(format!("#l delete {name}"));
                std::fs::remove_file(self.w.path(name)).map_err(|e| format!("delete: {e}"))?;
                self.w.disk.remove(name);
                self.w.alias.remove(name);
                self.l.notify("workspace/didDeleteFiles", json!({"files": [{"uri": uri}]}))?;
                // the watcher reports the path it watches; the server may know the file by another spelling
                let mut ev = vec![(uri.clone(), 3)];
                if canonical != uri {
                    ev.push((canonical, 3));
                }
                self.watched(&ev)?;
                self.count("lsp_delete");
                self.barrier(&uri)
            }
            LOp::ExternalEdit(name, text) => {
                if !self.w.disk.contains_key(name) || self.w.open.contains_key(name) {
                    return Ok(());
                }
                let uri = self.w.uri(name);
                self.lines.push(format!("#l extedit {name} {}", lhex(text)));
                self.w.write(name, text);
                self.watched(&[(uri.clone(), 2)])?;
                self.count("lsp_extedit");
                self.barrier(&uri)
            }
            LOp::Judge => Ok(()),
        }
    }
}

// ------------------------------------------------------------------------------------------------
// Answers and the fresh-server oracle
// ------------------------------------------------------------------------------------------------

/// Canonical JSON: keys sorted, `resultId` dropped, every `file://` URI reduced to the real file.
fn canon(v: &Value, root: &str) -> Value {
    match v {
        Value::Object(m) => {
            let mut out = serde_json::Map::new();
            let mut keys: Vec<&String> = m.keys().collect();
            keys.sort();
            for k in keys {
                if k == "resultId" {
                    continue;
                }
                out.insert(k.clone(), canon(&m[k], root));
            }
            Value::Object(out)
        }
        Value::Array(a) => Value::Array(a.iter().map(|x| canon(x, root)).collect()),
        Value::String(s) if s.starts_with("file://") => Value::String(
            s.replace("%2E", ".").replace("%2e", ".").replace(&format!("{root}/alias/"), &format!("{root}/src/")),
        ),
        other => other.clone(),
    }
}

/// Positions (line, character) just inside identifiers of `text` (ASCII project: byte = UTF-16 column).
fn hover_positions(text: &str, max: usize) -> Vec<(u32, u32)> {
    let mut out = Vec::new();
    for (ln, line) in text.lines().enumerate() {
        let b = line.as_bytes();
        let mut i = 0;
        while i < b.len() {
            if b[i].is_ascii_alphabetic() || b[i] == b'_' {
                let start = i;
                while i < b.len() && (b[i].is_ascii_alphanumeric() || b[i] == b'_') {
                    i += 1;
                }
                if line.is_ascii() && i - start >= 1 {
                    out.push((ln as u32, start as u32 + ((i - start) / 2) as u32));
                }
            } else {
                i += 1;
            }
        }
    }
    // spread over the file
    if out.len() > max {
        let step = out.len() / max;
        out = out.into_iter().step_by(step.max(1)).take(max).collect();
    }
    out
}

struct FileAnswers {
    diagnostics: Value,
    symbols: Value,
}

fn ask_file(l: &mut Lsp, uri: &str, root: &str) -> Result<FileAnswers, String> {
    let diagnostics = canon(&l.request("textDocument/diagnostic", td(uri))?, root);
    let symbols = canon(&l.request("textDocument/documentSymbol", td(uri))?, root);
    Ok(FileAnswers { diagnostics, symbols })
}

fn ask_hovers(l: &mut Lsp, uri: &str, text: &str, root: &str) -> Result<Value, String> {
    let mut hovers = Vec::new();
    for (line, character) in hover_positions(text, 8) {
        let v = l.request(
            "textDocument/hover",
            json!({"textDocument": {"uri": uri}, "position": {"line": line, "character": character}}),
        )?;
        hovers.push(json!([line, character, canon(&v, root)]));
    }
    Ok(Value::Array(hovers))
}

impl Sess<'_> {
    fn verdict(&mut self, when: &str, name: &str, kind: &str, x: &Value, y: &Value) -> bool {
        let state = if self.w.open.contains_key(name) { "open" } else { "closed" };
        if x == y {
            self.lines.push(format!("#L {when} {name} {state} {kind} ok"));
            true
        } else {
            self.lines.push(format!("#L {when} {name} {state} {kind} FAIL"));
            self.lines.push(format!("#X inc {}", hex(x.to_string().as_bytes())));
            self.lines.push(format!("#X fresh {}", hex(y.to_string().as_bytes())));
            self.stats.push(("lsp_judgements_failed".into(), 1));
            false
        }
    }

    /// Every file of the current state against a fresh server on the same directory: first pull
    /// diagnostics and documentSymbol of all files, then hovers (a request that gets no answer — a
    /// handler that panicked leaves the server silent — is a failed judgement of its own).
    ///
    /// Under a memory budget the file set of the analysis is by design the set of documents the
    /// server HOLDS (open buffers + the closed documents that were not evicted): the hook request
    /// tells which these are, the files it does not hold are moved out of the directory while the
    /// fresh server (started WITHOUT the budget) lives, and only held files are judged.  So the
    /// statement judged is: the answers equal those of a brand-new analysis of exactly the files the
    /// document layer holds, with their current contents — a file that was evicted, or deleted,
    /// contributes nothing.
    fn judge(&mut self, bin: &str, when: &str) -> Result<(), String> {
        let root = self.w.root.display().to_string();
        let mut files = self.w.files();
        let mut stashed: Vec<String> = Vec::new();
        if self.config.is_some() {
            let mut held = Vec::new();
            for name in &files {
                let uri = self.w.uri(name);
                let v = self.l.request("trust-lsp/verifDocumentText", json!({ "uri": uri }))?;
                if !v.is_null() {
                    held.push(name.clone());
                } else if self.w.open.contains_key(name) {
                    self.lines.push(format!("#L {when} {name} open held FAIL"));
                    self.lines.push(format!("#X error {}", hex(b"the server does not hold an open buffer")));
                    self.stats.push(("lsp_judgements_failed".into(), 1));
                    held.push(name.clone());
                } else {
                    stashed.push(name.clone());
                }
            }
            self.lines.push(format!(
                "#l held {when} {} evicted {}",
                if held.is_empty() { "-".to_string() } else { held.join(",") },
                if stashed.is_empty() { "-".to_string() } else { stashed.join(",") }
            ));
            self.stats.push(("lsp_budget_judgements".into(), 1));
            self.stats.push(("lsp_budget_files_evicted_at_judgement".into(), stashed.len() as u64));
            files = held;
        }
        let mut inc: Vec<(String, FileAnswers)> = Vec::new();
        for name in &files {
            let uri = self.w.uri(name);
            match ask_file(&mut self.l, &uri, &root) {
                Ok(a) => inc.push((name.clone(), a)),
                Err(e) => {
                    self.lines.push(format!("#L {when} {name} - diagnostics FAIL no-answer"));
                    self.lines.push(format!("#X error {}", hex(e.as_bytes())));
                    return Err(e);
                }
            }
        }
        let mut inc_hovers: Vec<Value> = Vec::new();
        for name in &files {
            let uri = self.w.uri(name);
            let text = self.w.current_text(name).unwrap_or("").to_string();
            match ask_hovers(&mut self.l, &uri, &text, &root) {
                Ok(v) => inc_hovers.push(v),
                Err(e) => {
                    self.lines.push(format!("#L {when} {name} - hover FAIL no-answer"));
                    self.lines.push(format!("#X error {}", hex(e.as_bytes())));
                    return Err(e);
                }
            }
        }
        // the fresh server must not find the index cache of the first one
        let _ = std::fs::remove_dir_all(self.w.root.join(".trust-lsp"));
        // … nor, under a budget, the files the first one does not hold, nor the budget itself
        let stash_dir = PathBuf::from(format!("{root}-stash"));
        if self.config.is_some() {
            std::fs::create_dir_all(&stash_dir).map_err(|e| format!("stash: {e}"))?;
            for name in &stashed {
                std::fs::rename(self.w.path(name), stash_dir.join(name)).map_err(|e| format!("stash {name}: {e}"))?;
            }
            std::fs::rename(self.w.root.join("trust-lsp.toml"), stash_dir.join("trust-lsp.toml"))
                .map_err(|e| format!("stash config: {e}"))?;
        }
        let fresh_result = self.judge_fresh(bin, when, &root, &files, &inc, &inc_hovers);
        if self.config.is_some() {
            for name in &stashed {
                std::fs::rename(stash_dir.join(name), self.w.path(name)).map_err(|e| format!("unstash {name}: {e}"))?;
            }
            std::fs::rename(stash_dir.join("trust-lsp.toml"), self.w.root.join("trust-lsp.toml"))
                .map_err(|e| format!("unstash config: {e}"))?;
            let _ = std::fs::remove_dir_all(&stash_dir);
        }
        fresh_result
    }

    fn judge_fresh(
        &mut self,
        bin: &str,
        when: &str,
        root: &str,
        files: &[String],
        inc: &[(String, FileAnswers)],
        inc_hovers: &[Value],
    ) -> Result<(), String> {
        let mut fresh = Lsp::start(bin, root)?;
        for (name, doc) in &self.w.open {
            let uri = self.w.uri(name);
            fresh.notify(
                "textDocument/didOpen",
                json!({"textDocument": {"uri": uri, "languageId": "structured-text", "version": doc.version, "text": doc.text}}),
            )?;
            fresh.request("trust-lsp/verifDocumentText", json!({ "uri": uri }))?;
        }
        for (name, a) in inc {
            let uri = self.w.uri(name);
            let f = ask_file(&mut fresh, &uri, root)?;
            self.verdict(when, name, "diagnostics", &a.diagnostics, &f.diagnostics);
            self.verdict(when, name, "documentSymbol", &a.symbols, &f.symbols);
            if a.diagnostics.to_string().contains("\"message\"") {
                self.stats.push(("lsp_files_with_diagnostics".into(), 1));
            }
        }
        for (name, hx) in files.iter().zip(inc_hovers) {
            let uri = self.w.uri(name);
            let text = self.w.current_text(name).unwrap_or("").to_string();
            let hy = ask_hovers(&mut fresh, &uri, &text, root)?;
            self.verdict(when, name, "hover", hx, &hy);
            if hx.to_string().contains("\"contents\"") {
                self.stats.push(("lsp_files_with_hover_answer".into(), 1));
            }
        }
        self.stats.push(("lsp_files_judged".into(), inc.len() as u64));
        self.stats.push(("lsp_fresh_servers".into(), 1));
        fresh.shutdown();
        Ok(())
    }
}

// ------------------------------------------------------------------------------------------------
// Generation
// ------------------------------------------------------------------------------------------------

const NEW_NAMES: [&str; 6] = ["moved.st", "lib2.st", "Lib.st", "zz_last.st", "a_first.st", "unit.st"];

/// Configuration and padding of a session under a memory budget: 1 or 2 MiB, eviction down to
/// 1..100 % of it, and per role a padding of 0 / 300..900 kB such that at least two files are big
/// (evictions need closed documents of more than the budget in total).
pub fn budget_plan(rng: &mut Rng, nroles: usize) -> (String, Vec<usize>) {
    let mb = if rng.chance(1, 4) { 2 } else { 1 };
    let percent = *rng.pick(&[1u8, 40, 50, 75, 80, 80, 100]);
    let mut pads: Vec<usize> = (0..nroles)
        .map(|_| if rng.chance(1, 2) { 0 } else { *rng.pick(&[300_000usize, 450_000, 600_000, 900_000]) })
        .collect();
    // the library and one more file are always big: its users then see it come and go
    pads[0] = *rng.pick(&[450_000usize, 600_000, 900_000]);
    let k = 1 + rng.below(nroles as u64 - 1) as usize;
    if pads[k] == 0 {
        pads[k] = *rng.pick(&[450_000usize, 600_000, 900_000]);
    }
    (format!("[indexing]\nmemory_budget_mb = {mb}\nevict_to_percent = {percent}\n"), pads)
}

/// `pads`: padding per role (empty: none), see `budget_plan`.
pub fn gen_script(
    rng: &mut Rng,
    roles: &[Role],
    steps: usize,
    mutate: &dyn Fn(&mut Rng, &str) -> String,
    pads: &[usize],
) -> (Vec<(String, String)>, Vec<LOp>) {
    let pad_of = |role: usize| pads.get(role).copied().unwrap_or(0);
    // initial disk state: most roles present
    let mut files: Vec<(String, String, usize)> = Vec::new(); // name, text, role
    for (ri, r) in roles.iter().enumerate() {
        if ri < 2 || rng.chance(2, 3) {
            files.push((r.file.to_string(), padded(rng.pick(&r.variants[..]).as_str(), pad_of(ri)), ri));
        }
    }
    let initial: Vec<(String, String)> = files.iter().map(|(n, t, _)| (n.clone(), t.clone())).collect();
    // symbolic state for generation
    let mut present: Vec<(String, usize)> = files.iter().map(|(n, _, r)| (n.clone(), *r)).collect();
    let mut open: Vec<String> = Vec::new();
    // spelling under which the server knows each file (known finding C13-lsp-symlink-stale-key: a
    // file known through the symbolic link is first renamed back to its canonical URI before it is
    // deleted or renamed away)
    let mut alias: BTreeMap<String, Alias> = BTreeMap::new();
    let mut script = Vec::new();
    let mid = steps / 2;
    let new_text = |rng: &mut Rng, role: usize, mutate: &dyn Fn(&mut Rng, &str) -> String| -> String {
        let base = rng.pick(&roles[role].variants).clone();
        let text = if rng.chance(1, 4) { mutate(rng, &base) } else { base };
        padded(&text, pad_of(role))
    };
    for step in 0..steps {
        if step == mid && rng.chance(1, 2) {
            script.push(LOp::Judge);
        }
        if present.is_empty() {
            let ri = rng.below(roles.len() as u64) as usize;
            let name = roles[ri].file.to_string();
            // (nothing is present, so the name is free)
            script.push(LOp::Create(name.clone(), new_text(rng, ri, mutate)));
            present.push((name, ri));
            continue;
        }
        let (name, role) = present[rng.below(present.len() as u64) as usize].clone();
        let is_open = open.contains(&name);
        let r = rng.below(100);
        if r < 18 {
            if !is_open {
                script.push(LOp::Open(name.clone()));
                open.push(name);
            } else {
                script.push(LOp::Change(name, new_text(rng, role, mutate)));
            }
        } else if r < 38 {
            if is_open {
                script.push(LOp::Change(name, new_text(rng, role, mutate)));
            } else {
                script.push(LOp::ExternalEdit(name, new_text(rng, role, mutate)));
            }
        } else if r < 48 {
            if is_open {
                script.push(LOp::SaveClose(name.clone()));
                open.retain(|n| *n != name);
            } else {
                script.push(LOp::Open(name.clone()));
                open.push(name);
            }
        } else if r < 62 {
            // ordinary rename to a free name
            let free: Vec<&str> = NEW_NAMES
                .iter()
                .copied()
                .chain(roles.iter().map(|r| r.file))
                .filter(|n| !present.iter().any(|(p, _)| p == n))
                .collect();
            if let Some(to) = free.get(rng.below(free.len().max(1) as u64) as usize) {
                if matches!(alias.get(&name), Some(Alias::Symlink | Alias::SymlinkPercent)) {
                    script.push(LOp::AliasRename { name: name.clone(), to: Alias::Canonical, will: false });
                }
                alias.remove(&name);
                script.push(LOp::Rename { from: name.clone(), to: to.to_string(), will: rng.bool(), watch: rng.chance(1, 3) });
                for p in present.iter_mut() {
                    if p.0 == name {
                        p.0 = to.to_string();
                    }
                }
                for o in open.iter_mut() {
                    if *o == name {
                        *o = to.to_string();
                    }
                }
            }
        } else if r < 80 {
            // aliasing rename: same file, another spelling of its URI (mostly of an open document)
            let to = *rng.pick(&[Alias::Percent, Alias::Symlink, Alias::SymlinkPercent, Alias::Canonical]);
            if !is_open && rng.chance(2, 3) {
                script.push(LOp::Open(name.clone()));
                open.push(name.clone());
            }
            alias.insert(name.clone(), to);
            script.push(LOp::AliasRename { name, to, will: rng.chance(1, 3) });
        } else if r < 88 {
            // a role that is absent comes (back)
            // (a role is carried by at most one file, whatever its name: no duplicate global names)
            let absent: Vec<usize> = (0..roles.len()).filter(|ri| !present.iter().any(|(_, r)| r == ri)).collect();
            if let Some(ri) = absent.get(rng.below(absent.len().max(1) as u64) as usize) {
                let free: Vec<&str> = std::iter::once(roles[*ri].file)
                    .chain(NEW_NAMES.iter().copied())
                    .filter(|n| !present.iter().any(|(p, _)| p == n))
                    .collect();
                if let Some(n) = free.first() {
                    script.push(LOp::Create(n.to_string(), new_text(rng, *ri, mutate)));
                    present.push((n.to_string(), *ri));
                }
            }
        } else if r < 96 {
            if is_open {
                script.push(LOp::SaveClose(name.clone()));
                open.retain(|n| *n != name);
            }
            if matches!(alias.get(&name), Some(Alias::Symlink | Alias::SymlinkPercent)) {
                script.push(LOp::AliasRename { name: name.clone(), to: Alias::Canonical, will: false });
            }
            alias.remove(&name);
            script.push(LOp::Delete(name.clone()));
            present.retain(|(p, _)| *p != name);
        } else {
            script.push(LOp::Judge);
        }
    }
    script.push(LOp::Judge);
    (initial, script)
}

/// The shape of round-2 mutant M3 as a fixed regression case: an open library is renamed to another
/// spelling of its own URI; its user must keep seeing it.
pub fn alias_witness() -> (Vec<(String, String)>, Vec<LOp>) {
    let lib = "FUNCTION AddOne : INT\nVAR_INPUT\n    x : INT;\nEND_VAR\nAddOne := x + 1;\nEND_FUNCTION\n";
    let main = "PROGRAM Main\nVAR\n    value : INT;\nEND_VAR\nvalue := AddOne(1);\nEND_PROGRAM\n";
    (
        vec![("lib.st".into(), lib.into()), ("main.st".into(), main.into())],
        vec![
            LOp::Open("lib.st".into()),
            LOp::Open("main.st".into()),
            LOp::AliasRename { name: "lib.st".into(), to: Alias::Percent, will: false },
            LOp::Judge,
            LOp::AliasRename { name: "lib.st".into(), to: Alias::Symlink, will: true },
            LOp::Judge,
        ],
    )
}

/// Witness of known finding `C13-lsp-symlink-stale-key`: the server knows `lib.st` through a
/// symbolic link; once the file is deleted, `source_key_for_uri` can no longer canonicalise the
/// path, `remove_document` computes another key than the one the file was registered under, and the
/// library's symbols stay in the project: `main.st` keeps resolving `AddOne`.
pub fn symlink_delete_witness() -> (Vec<(String, String)>, Vec<LOp>) {
    let (initial, _) = alias_witness();
    (
        initial,
        vec![
            LOp::AliasRename { name: "lib.st".into(), to: Alias::Symlink, will: false },
            LOp::Judge,
            LOp::Delete("lib.st".into()),
            LOp::Judge,
        ],
    )
}

/// Fixed regression case of the memory budget (1 MiB): the library is the least recently used closed
/// document when a second big file appears, so it is evicted; then it is deleted on disk and the
/// watcher says so.  Its user is judged after each step.
pub fn budget_witness() -> (Vec<(String, String)>, Vec<LOp>, String) {
    let (initial, _) = alias_witness();
    let initial: Vec<(String, String)> = initial
        .into_iter()
        .map(|(n, t)| if n == "lib.st" { (n, padded(&t, 600_000)) } else { (n, t) })
        .collect();
    let filler = padded("PROGRAM Aux\nVAR\n    flag : BOOL;\nEND_VAR\nflag := TRUE;\nEND_PROGRAM\n", 600_000);
    (
        initial,
        vec![
            LOp::Open("main.st".into()),
            LOp::Judge,
            LOp::Create("aux.st".into(), filler),
            LOp::Judge,
            LOp::Delete("lib.st".into()),
            LOp::Judge,
        ],
        "[indexing]\nmemory_budget_mb = 1\n".to_string(),
    )
}

/// `witness`: 0 = generated case, 1 = regression case, 2 = witness of the open known finding.
/// `config`: contents of `<root>/trust-lsp.toml` (sessions under a memory budget), or none.
pub fn run_case(
    bin: &str,
    n: u64,
    wsbase: &Path,
    initial: &[(String, String)],
    script: &[LOp],
    witness: u8,
    config: Option<&str>,
) -> LspCaseOut {
    let mut lines = vec![format!("case {n}"), "stream lsp".to_string()];
    if witness == 1 {
        lines.push("tag witness".into());
    }
    if witness == 2 {
        lines.push("tag witness known-symlink-stale-key".into());
    }
    let mut stats = Vec::new();
    let attempt = |lines: &mut Vec<String>, stats: &mut Vec<(String, u64)>| -> Result<(), String> {
        let base = wsbase.join(format!("c13ws-{}-{n}", std::process::id()));
        let _ = std::fs::remove_dir_all(&base);
        std::fs::create_dir_all(base.join("src")).map_err(|e| format!("mkdir: {e}"))?;
        let root = base.canonicalize().map_err(|e| format!("canonicalize: {e}"))?;
        #[cfg(unix)]
        std::os::unix::fs::symlink("src", root.join("alias")).map_err(|e| format!("symlink: {e}"))?;
        let mut w = World { root: root.clone(), disk: BTreeMap::new(), open: BTreeMap::new(), alias: BTreeMap::new() };
        for (name, text) in initial {
            w.write(name, text);
            lines.push(format!("#l disk {name} {}", lhex(text)));
        }
        if let Some(c) = config {
            std::fs::write(root.join("trust-lsp.toml"), c).map_err(|e| format!("write config: {e}"))?;
            lines.push(format!("#l config {}", hex(c.as_bytes())));
            stats.push(("lsp_budget_sessions".into(), 1));
        }
        let l = Lsp::start(bin, &root.display().to_string())?;
        let mut s = Sess { l, w, allow_symlink_removal: witness == 2, config: config.map(|c| c.to_string()), lines, stats };
        let mut judged = 0;
        let mut result = Ok(());
        for op in script {
            if let LOp::Judge = op {
                judged += 1;
                let when = format!("j{judged}");
                s.lines.push(format!("#l judge {when}"));
                if let Err(e) = s.judge(bin, &when) {
                    result = Err(e);
                    break;
                }
                continue;
            }
            if let Err(e) = s.apply(op) {
                result = Err(e);
                break;
            }
        }
        s.l.shutdown();
        let _ = std::fs::remove_dir_all(&base);
        let _ = std::fs::remove_dir_all(format!("{}-stash", root.display()));
        result
    };
    let mut first_lines = lines.clone();
    let mut transport_error = None;
    match attempt(&mut first_lines, &mut stats) {
        Ok(()) => lines = first_lines,
        Err(e1) if first_lines.iter().any(|l| l.starts_with("#L ") && l.contains(" FAIL")) => {
            // a judgement already failed (e.g. a request that got no answer): that is the verdict
            lines = first_lines;
            transport_error = Some(e1);
        }
        Err(e1) => {
            // a server that stays silent (stalled machine?) is given one more chance; a silence that
            // reproduces is reported
            let mut second = lines.clone();
            let mut stats2 = Vec::new();
            match attempt(&mut second, &mut stats2) {
                Ok(()) => {
                    lines = second;
                    stats = stats2;
                    stats.push(("lsp_sessions_retried".into(), 1));
                }
                Err(e2) => {
                    lines = second;
                    stats = stats2;
                    lines.push(format!("#L - - - transport FAIL {}", hex(format!("{e1} / {e2}").as_bytes())));
                    transport_error = Some(e2);
                }
            }
        }
    }
    lines.push("tag nontrivial".into());
    lines.push("end".into());
    LspCaseOut { lines, stats, transport_error }
}
